package c20

import (
	"bytes"
	"encoding/json"
	"fmt"
	"math"
	"sort"
	"strings"

	"github.com/vektah/gqlparser/v2"
	"github.com/vektah/gqlparser/v2/ast"
)

// parsedOp is an operation validated by gqlparser against the rig's schema.
type parsedOp struct {
	text string
	vars string // JSON object of variable values ("" = none)
	doc  *ast.QueryDocument
	op   *ast.OperationDefinition
	root *ast.Definition
}

func parseOp(w *world, text string) (*parsedOp, error) {
	doc, errs := gqlparser.LoadQuery(w.schema, text)
	if errs != nil {
		return nil, fmt.Errorf("%s", errs.Error())
	}
	if len(doc.Operations) != 1 {
		return nil, fmt.Errorf("expected exactly one operation")
	}
	op := doc.Operations[0]
	root := w.schema.Query
	if op.Operation == ast.Mutation {
		root = w.schema.Mutation
	}
	return &parsedOp{text: text, doc: doc, op: op, root: root}, nil
}

// fieldSig is the identity of the underlying field: name plus canonical arguments (aliases
// do not matter).
func fieldSig(f *ast.Field) string {
	if len(f.Arguments) == 0 {
		return f.Name
	}
	parts := make([]string, 0, len(f.Arguments))
	for _, a := range f.Arguments {
		parts = append(parts, a.Name+":"+a.Value.String())
	}
	sort.Strings(parts)
	return f.Name + "(" + strings.Join(parts, ",") + ")"
}

func (w *world) typeApplies(cond string, t *ast.Definition) bool {
	if cond == "" || cond == t.Name {
		return true
	}
	cd := w.schema.Types[cond]
	if cd == nil {
		return false
	}
	for _, pt := range w.schema.GetPossibleTypes(cd) {
		if pt.Name == t.Name {
			return true
		}
	}
	return false
}

type collected struct {
	key    string
	fields []*ast.Field
}

// collect implements CollectFields for the concrete object type t over several merged
// selection sets (in order of first appearance of each response key).
func (w *world) collect(sets []ast.SelectionSet, t *ast.Definition) []collected {
	var out []collected
	idx := map[string]int{}
	var rec func(ss ast.SelectionSet)
	rec = func(ss ast.SelectionSet) {
		for _, s := range ss {
			switch x := s.(type) {
			case *ast.Field:
				i, ok := idx[x.Alias]
				if !ok {
					i = len(out)
					idx[x.Alias] = i
					out = append(out, collected{key: x.Alias})
				}
				out[i].fields = append(out[i].fields, x)
			case *ast.InlineFragment:
				if w.typeApplies(x.TypeCondition, t) {
					rec(x.SelectionSet)
				}
			case *ast.FragmentSpread:
				if x.Definition != nil && w.typeApplies(x.Definition.TypeCondition, t) {
					rec(x.Definition.SelectionSet)
				}
			}
		}
	}
	for _, ss := range sets {
		rec(ss)
	}
	return out
}

// fieldPaths is the set of underlying field paths an operation selects (aliases, fragments,
// order and duplication are invisible in it). Two operations with the same set ask for
// exactly the same data.
func fieldPaths(p *parsedOp) map[string]bool {
	out := map[string]bool{}
	var rec func(prefix string, ss ast.SelectionSet)
	rec = func(prefix string, ss ast.SelectionSet) {
		for _, s := range ss {
			switch x := s.(type) {
			case *ast.Field:
				u := prefix + "/" + fieldSig(x)
				out[u] = true
				rec(u, x.SelectionSet)
			case *ast.InlineFragment:
				rec(prefix, x.SelectionSet)
			case *ast.FragmentSpread:
				if x.Definition != nil {
					rec(prefix, x.Definition.SelectionSet)
				}
			}
		}
	}
	rec("", p.op.SelectionSet)
	return out
}

func samePaths(a, b map[string]bool) bool {
	if len(a) != len(b) {
		return false
	}
	for k := range a {
		if !b[k] {
			return false
		}
	}
	return true
}

// unitAtResponsePath resolves an error path (response keys and list indices) against the
// operation and returns the unit the last key selects, if any.
func (w *world) unitAtResponsePath(p *parsedOp, path []any) *unit {
	defs := []*ast.Definition{p.root}
	sets := []ast.SelectionSet{p.op.SelectionSet}
	var last *unit
	for _, el := range path {
		key, ok := el.(string)
		if !ok {
			continue // list index
		}
		last = nil
		var nextDef *ast.Definition
		var nextSets []ast.SelectionSet
		for _, def := range defs {
			for _, t := range w.possible(def) {
				for _, c := range w.collect(sets, t) {
					if c.key != key || nextDef != nil {
						continue
					}
					fd := t.Fields.ForName(c.fields[0].Name)
					if fd == nil {
						continue
					}
					last = w.units[t.Name+"."+fd.Name]
					nextDef = w.schema.Types[fd.Type.Name()]
					for _, ff := range c.fields {
						if len(ff.SelectionSet) > 0 {
							nextSets = append(nextSets, ff.SelectionSet)
						}
					}
				}
			}
		}
		if nextDef == nil {
			return nil
		}
		defs, sets = []*ast.Definition{nextDef}, nextSets
	}
	return last
}

// ---- response walk: shape oracle + value extraction -----------------------------------------

type response struct {
	Data   any
	Errors []any
	hasDat bool
}

func decodeResponse(body string) (*response, error) {
	dec := json.NewDecoder(strings.NewReader(body))
	var top map[string]json.RawMessage
	if err := dec.Decode(&top); err != nil {
		return nil, fmt.Errorf("response is not a JSON object: %v", err)
	}
	if dec.More() {
		return nil, fmt.Errorf("trailing data after the response object")
	}
	r := &response{}
	for k, v := range top {
		switch k {
		case "data":
			r.hasDat = true
			if err := json.Unmarshal(v, &r.Data); err != nil {
				return nil, err
			}
		case "errors":
			if err := json.Unmarshal(v, &r.Errors); err != nil {
				return nil, fmt.Errorf("errors is not a list: %v", err)
			}
		case "extensions":
		default:
			return nil, fmt.Errorf("unexpected top-level key %q", k)
		}
	}
	if !r.hasDat && len(r.Errors) == 0 {
		return nil, fmt.Errorf("response has neither data nor errors")
	}
	return r, nil
}

// walk is one type-safety walk of a response against its operation. It collects shape
// violations and, for positions under stable units, the value observed for every underlying
// field position (field path with list indices, aliases erased).
type walk struct {
	w               *world
	stable          func(unitKey string) bool
	viol            []string
	vals            map[string][]obs // underlying position -> observations (distinct by value and sub-selection)
	labels          map[string]bool
	nVals           int
	nViol, nKeyViol int
	diffs           []keyDiff // objects whose keys fit no possible type: per not-contradicted type, the key difference
	unstable        []string  // field paths of the unstable units the operation selects
	via             []viaT    // stack: the field (and its parent type) each enclosing object was reached through
}

type viaT struct {
	parent string
	field  *ast.Field
}

// aboveUnstable: the position is an ancestor of an unstable unit of this operation, so a null
// there may be null propagation out of the unstable subtree and is not comparable.
func (k *walk) aboveUnstable(u string) bool {
	if len(k.unstable) == 0 {
		return false
	}
	prefix := stripIndices(u) + "/"
	for _, p := range k.unstable {
		if strings.HasPrefix(p, prefix) {
			return true
		}
	}
	return false
}

type keyDiff struct {
	U              string
	Type           string
	Missing, Extra []string
}

func newWalk(w *world, stable func(string) bool) *walk {
	return &walk{w: w, stable: stable, vals: map[string][]obs{}, labels: map[string]bool{}}
}

func (k *walk) bad(format string, a ...any) {
	k.nViol++
	if len(k.viol) < 8 {
		k.viol = append(k.viol, fmt.Sprintf(format, a...))
	}
}

// obs is one observation of an underlying field position: the value (scalars canonical JSON,
// composites as the markers {} / [n] / null), where it was seen and the sub-selection that
// was asked below it at that response key.
type obs struct {
	val  string
	path string
	sub  []ast.SelectionSet
}

func subID(sub []ast.SelectionSet) string {
	var b strings.Builder
	for _, ss := range sub {
		if len(ss) > 0 {
			fmt.Fprintf(&b, "%p;", ss[0])
		}
	}
	return b.String()
}

func (k *walk) record(u, path, v string, rec bool, sub []ast.SelectionSet) {
	if !rec {
		return
	}
	k.nVals++
	id := subID(sub)
	for _, x := range k.vals[u] {
		if x.val == v && subID(x.sub) == id {
			return
		}
	}
	if len(k.vals[u]) < 12 {
		k.vals[u] = append(k.vals[u], obs{val: v, path: path, sub: sub})
	}
}

func canon(v any) string {
	var b bytes.Buffer
	e := json.NewEncoder(&b)
	e.SetEscapeHTML(false)
	_ = e.Encode(v)
	return strings.TrimSpace(b.String())
}

func jsonKind(v any) string {
	switch v.(type) {
	case nil:
		return "null"
	case bool:
		return "boolean"
	case float64:
		return "number"
	case string:
		return "string"
	case []any:
		return "list"
	case map[string]any:
		return "object"
	}
	return fmt.Sprintf("%T", v)
}

func (k *walk) run(p *parsedOp, r *response) {
	k.w.unitFields(p, func(u *unit, path string, _ *ast.Field, _ []ast.SelectionSet, _ ancestry) {
		if !k.stable(u.Key) {
			k.unstable = append(k.unstable, path)
		}
	})
	if !r.hasDat || r.Data == nil {
		if len(r.Errors) == 0 {
			k.bad("data is null/absent without errors")
		}
		k.labels["data-null"] = true
		k.record("", "data", "null", !k.aboveUnstable(""), []ast.SelectionSet{p.op.SelectionSet})
		return
	}
	obj, ok := r.Data.(map[string]any)
	if !ok {
		k.bad("data is a %s, expected an object", jsonKind(r.Data))
		return
	}
	k.object(obj, p.root, []ast.SelectionSet{p.op.SelectionSet}, "", "data", true)
}

// object checks one response object whose static type is def (object, interface or union).
// The concrete type is not known a priori: every possible type whose collected response keys
// equal the keys present (and whose __typename keys, if any, name it) is a consistent reading;
// the object passes if some consistent reading passes.
func (k *walk) object(obj map[string]any, def *ast.Definition, sets []ast.SelectionSet, u, path string, rec bool) {
	k.record(u, path, "{}", rec, sets)
	keys := make([]string, 0, len(obj))
	for key := range obj {
		keys = append(keys, key)
	}
	sort.Strings(keys)
	var reasons []string
	var diffs []keyDiff
	type reading struct {
		t  *ast.Definition
		cs []collected
	}
	var readings []reading
	for _, t := range k.w.possible(def) {
		cs := k.w.collect(sets, t)
		want := make([]string, 0, len(cs))
		why := ""
		for _, c := range cs {
			want = append(want, c.key)
			if c.fields[0].Name == "__typename" {
				if s, ok := obj[c.key].(string); ok && s != t.Name {
					why = fmt.Sprintf("%s says %q", c.key, s)
				}
			}
		}
		sort.Strings(want)
		if why == "" && strings.Join(want, "\x00") != strings.Join(keys, "\x00") {
			why = fmt.Sprintf("selection yields keys %v", want)
			d := keyDiff{U: u, Type: t.Name}
			for _, x := range want {
				if _, ok := obj[x]; !ok {
					d.Missing = append(d.Missing, x)
				}
			}
			for _, x := range keys {
				if i := sort.SearchStrings(want, x); i >= len(want) || want[i] != x {
					d.Extra = append(d.Extra, x)
				}
			}
			diffs = append(diffs, d)
		}
		if why != "" {
			reasons = append(reasons, t.Name+": "+why)
			continue
		}
		readings = append(readings, reading{t, cs})
	}
	if len(readings) == 0 {
		k.diffs = append(k.diffs, diffs...)
		k.nKeyViol++
		k.bad("%s: object with keys %v matches no possible type of %s: %s", path, keys, def.Name, strings.Join(reasons, "; "))
		return
	}
	if def.Kind != ast.Object {
		k.labels["abstract-object"] = true
	}
	if len(readings) == 1 {
		k.fields(obj, readings[0].t, readings[0].cs, u, path, rec)
		return
	}
	k.labels["ambiguous-concrete-type"] = true
	var first *walk
	for _, r := range readings {
		trial := newWalk(k.w, k.stable)
		trial.unstable = k.unstable
		trial.via = k.via
		trial.fields(obj, r.t, r.cs, u, path, rec)
		if len(trial.viol) == 0 {
			k.merge(trial)
			return
		}
		if first == nil {
			first = trial
		}
	}
	k.merge(first)
}

func (k *walk) merge(o *walk) {
	k.viol = append(k.viol, o.viol...)
	k.diffs = append(k.diffs, o.diffs...)
	k.nViol += o.nViol
	k.nKeyViol += o.nKeyViol
	us := make([]string, 0, len(o.vals))
	for u := range o.vals {
		us = append(us, u)
	}
	sort.Strings(us)
	for _, u := range us {
		for _, v := range o.vals[u] {
			k.record(u, v.path, v.val, true, v.sub)
		}
	}
	for l := range o.labels {
		k.labels[l] = true
	}
}

func (k *walk) fields(obj map[string]any, t *ast.Definition, cs []collected, u, path string, rec bool) {
	k.serviceFacts(obj, t, cs, path)
	for _, c := range cs {
		f := c.fields[0]
		cpath := path + "." + c.key
		cu := u + "/" + fieldSig(f)
		if f.Name == "__typename" {
			s, ok := obj[c.key].(string)
			if !ok {
				k.bad("%s: __typename is %s, expected the string %q", cpath, canon(obj[c.key]), t.Name)
				continue
			}
			k.labels["typename"] = true
			k.record(cu, cpath, canon(s), rec, nil)
			continue
		}
		fd := t.Fields.ForName(f.Name)
		if fd == nil {
			k.bad("%s: type %s has no field %s", cpath, t.Name, f.Name)
			continue
		}
		crec := rec
		if un := k.w.units[t.Name+"."+f.Name]; un != nil {
			k.labels["unit:"+string(un.Kind)] = true
			if !k.stable(un.Key) {
				crec = false
				k.labels["under-unstable-unit"] = true
			}
		}
		var sub []ast.SelectionSet
		for _, ff := range c.fields {
			if len(ff.SelectionSet) > 0 {
				sub = append(sub, ff.SelectionSet)
			}
		}
		k.via = append(k.via, viaT{t.Name, f})
		k.value(obj[c.key], fd.Type, sub, cu, cpath, crec, 0)
		k.via = k.via[:len(k.via)-1]
	}
}

func (k *walk) value(v any, t *ast.Type, sub []ast.SelectionSet, u, path string, rec bool, listDepth int) {
	if v == nil {
		if t.NonNull {
			k.labels["null-in-non-null-position"] = true
		}
		if rec && len(sub) > 0 && k.aboveUnstable(u) {
			k.labels["null-above-unstable-unit"] = true
			return
		}
		k.record(u, path, "null", rec, sub)
		return
	}
	if t.Elem != nil {
		l, ok := v.([]any)
		if !ok {
			k.bad("%s: %s value %s where the list type %s is declared", path, jsonKind(v), clip(canon(v)), t.String())
			return
		}
		if listDepth > 0 {
			k.labels["nested-list"] = true
		}
		k.record(u, path, fmt.Sprintf("[%d]", len(l)), rec, sub)
		for i, e := range l {
			k.value(e, t.Elem, sub, fmt.Sprintf("%s[%d]", u, i), fmt.Sprintf("%s[%d]", path, i), rec, listDepth+1)
		}
		return
	}
	def := k.w.schema.Types[t.NamedType]
	if def == nil {
		return
	}
	switch def.Kind {
	case ast.Object, ast.Interface, ast.Union:
		obj, ok := v.(map[string]any)
		if !ok {
			k.bad("%s: %s value %s where the composite type %s is declared", path, jsonKind(v), clip(canon(v)), t.String())
			return
		}
		k.object(obj, def, sub, u, path, rec)
	case ast.Enum:
		s, ok := v.(string)
		if !ok || def.EnumValues.ForName(s) == nil {
			k.bad("%s: %s is not a value of enum %s", path, clip(canon(v)), def.Name)
			return
		}
		k.record(u, path, canon(v), rec, nil)
	default:
		okKind := true
		switch def.Name {
		case "String":
			_, okKind = v.(string)
		case "ID":
			switch v.(type) {
			case string, float64:
			default:
				okKind = false
			}
		case "Boolean":
			_, okKind = v.(bool)
		case "Float":
			_, okKind = v.(float64)
		case "Int":
			f, isNum := v.(float64)
			okKind = isNum && f == math.Trunc(f) && f >= math.MinInt32 && f <= math.MaxInt32
		}
		if !okKind {
			k.bad("%s: %s value %s where %s is declared", path, jsonKind(v), clip(canon(v)), t.String())
			return
		}
		k.record(u, path, canon(v), rec, nil)
	}
}

func clip(s string) string {
	if len(s) > 120 {
		return s[:120] + "…"
	}
	return s
}

// ---- facts about the mock service's data -----------------------------------------------------

// The shape and consistency oracles are relative; a few facts about what grpctest.MockService
// answers give an absolute anchor: root fields that echo an argument into a result field, and
// entity lookups that derive the name from the key (which ties every entity to its
// representation, i.e. checks the order of _entities).
type argEcho struct {
	arg    []string // path into the arguments
	result string   // result field that must carry the value
}

var argEchoes = map[string][]argEcho{
	"Query.user":                         {{[]string{"id"}, "id"}},
	"Query.category":                     {{[]string{"id"}, "id"}},
	"Query.categoriesByKind":             {{[]string{"kind"}, "kind"}},
	"Query.filterCategories":             {{[]string{"filter", "category"}, "kind"}},
	"Query.typeFilterWithArguments":      {{[]string{"filterField1"}, "filterField1"}, {[]string{"filterField2"}, "filterField2"}},
	"Query.typeWithMultipleFilterFields": {{[]string{"filter", "filterField1"}, "filterField1"}, {[]string{"filter", "filterField2"}, "filterField2"}},
	"Query.testContainer":                {{[]string{"id"}, "id"}},
}

var lookupNames = map[string]string{"Storage": "Storage ", "Product": "Product "}

// root fields whose items carry their concrete type in the id the mock gives them (anchors the
// choice of the oneof member)
var idPrefixType = map[string]map[string]string{
	"Query.allPets": {"cat-": "Cat", "dog-": "Dog"},
	"Query.search":  {"product-search-": "Product", "user-search-": "User", "category-search-": "Category"},
}

func argLiteral(f *ast.Field, path []string) (string, bool) {
	a := f.Arguments.ForName(path[0])
	if a == nil {
		return "", false
	}
	v := a.Value
	for _, p := range path[1:] {
		if v == nil || v.Kind != ast.ObjectValue {
			return "", false
		}
		v = v.Children.ForName(p)
	}
	if v == nil || (v.Kind != ast.StringValue && v.Kind != ast.EnumValue) {
		return "", false
	}
	return v.Raw, true
}

func (k *walk) serviceFacts(obj map[string]any, t *ast.Definition, cs []collected, path string) {
	if len(k.via) == 0 {
		return
	}
	via := k.via[len(k.via)-1]
	if k.w.rig == "plain" {
		if prefixes := idPrefixType[via.parent+"."+via.field.Name]; prefixes != nil {
			id, tn := "", ""
			for _, c := range cs {
				switch c.fields[0].Name {
				case "id":
					id, _ = obj[c.key].(string)
				case "__typename":
					tn, _ = obj[c.key].(string)
				}
			}
			for prefix, want := range prefixes {
				if id != "" && strings.HasPrefix(id, prefix) {
					k.labels["service-fact:id-names-the-type"] = true
					if t.Name != want || (tn != "" && tn != want) {
						k.bad("%s: the service gives ids starting with %q to %s values, the response presents id %q as %s (__typename %q)", path, prefix, want, id, t.Name, tn)
					}
				}
			}
		}
		for _, e := range argEchoes[via.parent+"."+via.field.Name] {
			want, ok := argLiteral(via.field, e.arg)
			if !ok {
				continue
			}
			for _, c := range cs {
				if c.fields[0].Name != e.result {
					continue
				}
				k.labels["service-fact:argument-echo"] = true
				if got, isStr := obj[c.key].(string); isStr && got != want {
					k.bad("%s.%s: the service echoes argument %s = %q into %s, the response has %q", path, c.key, strings.Join(e.arg, "."), want, e.result, got)
				}
			}
		}
		return
	}
	// fed rig: objects reached directly through an owning-subgraph root field are answered by
	// Lookup<Type>ById, which names the entity after its key
	prefix, ok := lookupNames[t.Name]
	if !ok || via.parent != k.w.schema.Query.Name {
		return
	}
	var ids, names []string
	for _, c := range cs {
		switch c.fields[0].Name {
		case "id":
			if s, ok := obj[c.key].(string); ok {
				ids = append(ids, s)
			}
		case "name":
			if s, ok := obj[c.key].(string); ok {
				names = append(names, s)
			}
		}
	}
	if len(ids) > 0 && len(names) > 0 {
		k.labels["service-fact:entity-name-of-key"] = true
		for _, n := range names {
			if n != prefix+ids[0] {
				k.bad("%s: the lookup names the %s with key %q %q, the response has %q (entity attached to the wrong representation?)", path, t.Name, ids[0], prefix+ids[0], n)
			}
		}
	}
}

// ---- comparison -----------------------------------------------------------------------------

// mismatch: two observations of the same underlying field position with different values,
// X from operation SideX and Y from SideY ("q" / "q'"; equal sides = one response disagrees
// with itself under two response keys).
type mismatch struct {
	U            string
	X, Y         obs
	SideX, SideY string
}

func (m mismatch) within() bool { return m.SideX == m.SideY }

func (m mismatch) sig() string {
	return m.U + "\x00" + m.SideX + "\x00" + m.X.val + "\x00" + m.SideY + "\x00" + m.Y.val
}

func (m mismatch) String() string {
	if m.within() {
		return fmt.Sprintf("field position %s has different values under two response keys of %s: %s at %s, %s at %s", m.U, m.SideX, clip(m.X.val), m.X.path, clip(m.Y.val), m.Y.path)
	}
	return fmt.Sprintf("field position %s: %s has %s (at %s), %s has %s (at %s)", m.U, m.SideX, clip(m.X.val), m.X.path, m.SideY, clip(m.Y.val), m.Y.path)
}

// subPaths is the set of underlying field paths (relative) a merged sub-selection asks for.
func subPaths(sub []ast.SelectionSet) map[string]bool {
	out := map[string]bool{}
	var rec func(prefix string, ss ast.SelectionSet)
	rec = func(prefix string, ss ast.SelectionSet) {
		for _, s := range ss {
			switch x := s.(type) {
			case *ast.Field:
				u := prefix + "/" + fieldSig(x)
				out[u] = true
				rec(u, x.SelectionSet)
			case *ast.InlineFragment:
				rec(prefix, x.SelectionSet)
			case *ast.FragmentSpread:
				if x.Definition != nil {
					rec(prefix, x.Definition.SelectionSet)
				}
			}
		}
	}
	for _, ss := range sub {
		rec("", ss)
	}
	return out
}

// explainedByPropagation: one observation is null, the other is not, the null side's
// response reports errors, and below the null observation something is selected that is not
// selected below the other one: null propagation from that extra selection explains the
// difference. If everything selected below the null is also selected below the value, the
// same propagation would have nulled the other observation too.
func explainedByPropagation(x, y obs, respX, respY *response) bool {
	null, other, resp := x, y, respX
	if y.val == "null" {
		null, other, resp = y, x, respY
	}
	if null.val != "null" || other.val == "null" || len(null.sub) == 0 || resp == nil || len(resp.Errors) == 0 {
		return false
	}
	so := subPaths(other.sub)
	for f := range subPaths(null.sub) {
		if !so[f] {
			return true
		}
	}
	return false
}

// comparison of the two walks of a case.
type comparison struct {
	a, b           *outcome
	sameFields     bool
	explained      int // null-vs-value pairs explained by null propagation from an extra selection
	serviceFailure int // null-vs-value pairs explained by a fetch the service itself failed
}

// explainedByServiceFailure: the null observation belongs to a response in which a fetch
// failed because the *service* answered an RPC with an error (or broke the entity contract):
// every field of that fetch is null then, whatever else was selected. Only when both
// operations ask for the same fields and report the same failures must they still agree.
func (c *comparison) explainedByServiceFailure(x, y obs, sideX, sideY string) bool {
	null, side := x, sideX
	if y.val == "null" {
		null, side = y, sideY
	}
	if null.val != "null" || x.val == y.val {
		return false
	}
	out := c.a
	if side == "q'" {
		out = c.b
	}
	if out.fetchFailure == "" {
		return false
	}
	if sideX != sideY && c.sameFields && c.a.fetchFailure == c.b.fetchFailure {
		return false
	}
	return true
}

// run returns the unexplained mismatches over all underlying positions of both walks,
// highest (shortest) positions first.
func (c *comparison) run() (out []mismatch) {
	a, b := c.a.walk, c.b.walk
	us := make([]string, 0, len(a.vals))
	for u := range a.vals {
		us = append(us, u)
	}
	for u := range b.vals {
		if _, ok := a.vals[u]; !ok {
			us = append(us, u)
		}
	}
	sort.Slice(us, func(i, j int) bool {
		if len(us[i]) != len(us[j]) {
			return len(us[i]) < len(us[j])
		}
		return us[i] < us[j]
	})
	type sided struct {
		o    obs
		side string
		resp *response
	}
	for _, u := range us {
		var all []sided
		for _, o := range a.vals[u] {
			all = append(all, sided{o, "q", c.a.resp})
		}
		for _, o := range b.vals[u] {
			all = append(all, sided{o, "q'", c.b.resp})
		}
		found := false
		for i := 0; i < len(all) && !found; i++ {
			for j := i + 1; j < len(all) && !found; j++ {
				if all[i].o.val == all[j].o.val {
					continue
				}
				if explainedByPropagation(all[i].o, all[j].o, all[i].resp, all[j].resp) {
					c.explained++
					continue
				}
				if c.explainedByServiceFailure(all[i].o, all[j].o, all[i].side, all[j].side) {
					c.serviceFailure++
					continue
				}
				out = append(out, mismatch{U: u, X: all[i].o, Y: all[j].o, SideX: all[i].side, SideY: all[j].side})
				found = true
			}
		}
	}
	return out
}

// stripIndices turns an underlying position into its field path.
func stripIndices(u string) string {
	var b strings.Builder
	depth := 0
	inArgs := 0
	for i := 0; i < len(u); i++ {
		c := u[i]
		switch {
		case c == '(':
			inArgs++
			b.WriteByte(c)
		case c == ')':
			inArgs--
			b.WriteByte(c)
		case inArgs > 0:
			b.WriteByte(c)
		case c == '[':
			depth++
		case c == ']':
			depth--
		case depth == 0:
			b.WriteByte(c)
		}
	}
	return b.String()
}
