// Package sim simulates the subgraphs of a fedgen layout behind an http.RoundTripper
// (DESIGN.md §3.5): every request the gateway emits is validated against that subgraph's
// own schema, checked for ownership, executed on the shared universe by the reference
// executor, and recorded.
package sim

import (
	"bytes"
	"encoding/json"
	"fmt"
	"io"
	"net/http"
	"sort"
	"strings"
	"sync"

	"github.com/vektah/gqlparser/v2"
	"github.com/vektah/gqlparser/v2/ast"
	"github.com/vektah/gqlparser/v2/parser"

	"verif/harness/internal/fedgen"
	"verif/harness/internal/opgen"
	"verif/harness/internal/ref"
)

const fedScaffold = `
directive @key(fields: String!, resolvable: Boolean = true) repeatable on OBJECT | INTERFACE
directive @external on FIELD_DEFINITION | OBJECT
directive @requires(fields: String!) on FIELD_DEFINITION
directive @provides(fields: String!) on FIELD_DEFINITION
directive @shareable on FIELD_DEFINITION | OBJECT
directive @defer(if: Boolean = true, label: String) on FRAGMENT_SPREAD | INLINE_FRAGMENT
scalar _Any
`

const superScaffold = `
directive @defer(if: Boolean = true, label: String) on FRAGMENT_SPREAD | INLINE_FRAGMENT
`

// SubSchema is one loaded subgraph.
type SubSchema struct {
	Name   string
	SDL    string
	Schema *ast.Schema
}

// World holds the loaded layout and its universe.
type World struct {
	Layout *fedgen.Layout
	Super  *ast.Schema
	Subs   map[string]*SubSchema
	U      *ref.Universe
}

// LoadSuper parses a supergraph SDL (no federation directives).
func LoadSuper(sdl string) (*ast.Schema, error) {
	s, err := gqlparser.LoadSchema(&ast.Source{Name: "scaffold", Input: superScaffold}, &ast.Source{Name: "super", Input: sdl})
	if err != nil {
		return nil, err
	}
	return s, nil
}

// LoadSub parses a subgraph SDL and adds the federation scaffolding (_Entity, _entities).
func LoadSub(sdl string) (*ast.Schema, error) {
	stub := ""
	if !strings.Contains(sdl, "type Query") {
		stub = "type Query { _noop: Boolean }\n"
	}
	s0, err := gqlparser.LoadSchema(&ast.Source{Name: "fed", Input: fedScaffold}, &ast.Source{Name: "sub", Input: sdl + "\n" + stub})
	if err != nil {
		return nil, err
	}
	var ents []string
	for name, def := range s0.Types {
		if def.Kind == ast.Object && def.Directives.ForName("key") != nil {
			ents = append(ents, name)
		}
	}
	sort.Strings(ents)
	extra := ""
	if len(ents) > 0 {
		extra = "union _Entity = " + strings.Join(ents, " | ") + "\nextend type Query { _entities(representations: [_Any!]!): [_Entity]! }\n"
	}
	return gqlparser.LoadSchema(&ast.Source{Name: "fed", Input: fedScaffold}, &ast.Source{Name: "sub", Input: sdl + "\n" + stub + extra})
}

// NewWorld loads a layout.
func NewWorld(l *fedgen.Layout, seed uint64) (*World, error) {
	super, err := LoadSuper(l.Super)
	if err != nil {
		return nil, fmt.Errorf("supergraph SDL: %w", err)
	}
	w := &World{Layout: l, Super: super, Subs: map[string]*SubSchema{}, U: ref.NewUniverse(seed)}
	for k, v := range l.Requires {
		w.U.Requires[k] = v
	}
	for _, k := range l.KeyScalars {
		w.U.KeyScalars[k] = true
	}
	for _, k := range l.SameN {
		w.U.SameN[k] = true
	}
	for _, s := range l.Subs {
		sc, err := LoadSub(s.SDL)
		if err != nil {
			return nil, fmt.Errorf("subgraph %s SDL: %w", s.Name, err)
		}
		w.Subs[s.Name] = &SubSchema{Name: s.Name, SDL: s.SDL, Schema: sc}
	}
	return w, nil
}

// StripDefer removes @defer directives (the reference for a deferred query is the same
// query without defer).
func StripDefer(doc *ast.QueryDocument) {
	var walk func(set ast.SelectionSet)
	strip := func(d ast.DirectiveList) ast.DirectiveList {
		var out ast.DirectiveList
		for _, x := range d {
			if x.Name != "defer" {
				out = append(out, x)
			}
		}
		return out
	}
	walk = func(set ast.SelectionSet) {
		for _, s := range set {
			switch x := s.(type) {
			case *ast.Field:
				walk(x.SelectionSet)
			case *ast.InlineFragment:
				x.Directives = strip(x.Directives)
				walk(x.SelectionSet)
			case *ast.FragmentSpread:
				x.Directives = strip(x.Directives)
			}
		}
	}
	for _, o := range doc.Operations {
		walk(o.SelectionSet)
	}
	for _, f := range doc.Fragments {
		walk(f.SelectionSet)
	}
}

// RefResult is the monolith's answer.
type RefResult struct {
	Data   any // *ref.OMap tree or nil
	Errors []ref.ExecError
	Doc    *ast.QueryDocument
	// MissingHits counts fields made unavailable by ReferenceMissing.
	MissingHits int
	// DeniedPaths lists the response paths at which a denied coordinate was selected.
	DeniedPaths [][]any
}

// Reference executes op on the monolith. A non-nil error means the operation is not valid
// for the supergraph (generator/oracle disagreement) or its variables do not coerce.
func (w *World) Reference(op opgen.Op) (*RefResult, error) { return w.ReferenceMissing(op, nil) }

// ReferenceDenied is Reference with some field coordinates denied (C14).
func (w *World) ReferenceDenied(op opgen.Op, denied func(typeName, fieldName string) bool) (*RefResult, error) {
	return w.referenceWith(op, nil, denied)
}

// ReferenceMissing is Reference with some (object, response key) pairs unavailable.
func (w *World) ReferenceMissing(op opgen.Op, missing func(ref.Obj, string) bool) (*RefResult, error) {
	return w.referenceWith(op, missing, nil)
}

func (w *World) referenceWith(op opgen.Op, missing func(ref.Obj, string) bool, denied func(string, string) bool) (*RefResult, error) {
	doc, errs := gqlparser.LoadQuery(w.Super, op.Query)
	if errs != nil {
		return nil, fmt.Errorf("gqlparser rejects the operation: %v", errs)
	}
	var opDef *ast.OperationDefinition
	for _, o := range doc.Operations {
		if op.OperationName == "" || o.Name == op.OperationName {
			opDef = o
			break
		}
	}
	if opDef == nil {
		return nil, fmt.Errorf("operation %q not in document", op.OperationName)
	}
	raw := map[string]any{}
	if len(op.Variables) > 0 {
		raw = ref.Plain(op.Variables).(map[string]any)
	}
	vars, err := ref.CoerceVariables(w.Super, opDef, raw)
	if err != nil {
		return nil, fmt.Errorf("variables do not coerce: %w", err)
	}
	ex := &ref.Exec{U: w.U, Super: w.Super, Schema: w.Super, Doc: doc, Vars: vars, Missing: missing, Denied: denied}
	data, eerrs := ex.Run(opDef.Name)
	return &RefResult{Data: data, Errors: eerrs, Doc: doc, MissingHits: ex.MissingHits, DeniedPaths: ex.DeniedPaths}, nil
}

// Request is one recorded subgraph request.
type Request struct {
	Seq           int            `json:"seq"`
	Subgraph      string         `json:"subgraph"`
	Query         string         `json:"query"`
	Variables     map[string]any `json:"variables,omitempty"`
	OperationName string         `json:"operationName,omitempty"`
	Body          string         `json:"-"`
	Header        http.Header    `json:"-"`
	Complaints    []string       `json:"complaints,omitempty"`
	ResponseBody  string         `json:"-"`
	HadErrors     bool           `json:"-"`
	Faulted       string         `json:"faulted,omitempty"`
}

// Response lets an interceptor replace what the simulator would answer.
type Response struct {
	Err        error
	Status     int
	Body       []byte
	Header     http.Header
	BodyReader io.ReadCloser
}

// Transport is the http.RoundTripper handed to the gateway's http.Client.
type Transport struct {
	W  *World
	mu sync.Mutex
	// Log is every request in arrival order.
	Log []*Request
	// Intercept, when set, is called after the request was recorded and answered by the
	// simulator; it may block (gates) and may return a replacement response (faults,
	// payload mutation, headers). nil keeps the simulator's answer.
	Intercept func(r *Request, answer []byte) *Response
	// ExtraHeader is added to every simulator answer (Cache-Control …).
	ExtraHeader func(r *Request) http.Header
}

// Reset clears the log.
func (t *Transport) Reset() {
	t.mu.Lock()
	t.Log = nil
	t.mu.Unlock()
}

// Requests returns a snapshot of the log.
func (t *Transport) Requests() []*Request {
	t.mu.Lock()
	defer t.mu.Unlock()
	return append([]*Request(nil), t.Log...)
}

// RoundTrip implements http.RoundTripper.
func (t *Transport) RoundTrip(req *http.Request) (*http.Response, error) {
	var body []byte
	if req.Body != nil {
		body, _ = io.ReadAll(req.Body)
		req.Body.Close()
	}
	r := &Request{Subgraph: req.URL.Host, Body: string(body), Header: req.Header.Clone()}
	answer := t.W.Handle(r)
	t.mu.Lock()
	r.Seq = len(t.Log)
	t.Log = append(t.Log, r)
	t.mu.Unlock()
	hdr := http.Header{"Content-Type": []string{"application/json"}}
	if t.ExtraHeader != nil {
		for k, v := range t.ExtraHeader(r) {
			hdr[k] = v
		}
	}
	if t.Intercept != nil {
		if resp := t.Intercept(r, answer); resp != nil {
			if resp.Err != nil {
				return nil, resp.Err
			}
			for k, v := range resp.Header {
				hdr[k] = v
			}
			st := resp.Status
			if st == 0 {
				st = 200
			}
			rc := resp.BodyReader
			if rc == nil {
				rc = io.NopCloser(bytes.NewReader(resp.Body))
			}
			return &http.Response{StatusCode: st, Header: hdr, Body: rc, Request: req}, nil
		}
	}
	if err := req.Context().Err(); err != nil {
		return nil, err
	}
	return &http.Response{StatusCode: 200, Header: hdr, Body: io.NopCloser(bytes.NewReader(answer)), Request: req}, nil
}

// Handle validates, checks ownership of, and executes one subgraph request.
func (w *World) Handle(r *Request) []byte {
	sub := w.Subs[r.Subgraph]
	if sub == nil {
		r.Complaints = append(r.Complaints, "request to unknown subgraph host "+r.Subgraph)
		return []byte(`{"errors":[{"message":"unknown subgraph"}]}`)
	}
	var body struct {
		Query         string         `json:"query"`
		Variables     map[string]any `json:"variables"`
		OperationName string         `json:"operationName"`
	}
	dec := json.NewDecoder(strings.NewReader(r.Body))
	dec.UseNumber()
	if err := dec.Decode(&body); err != nil {
		r.Complaints = append(r.Complaints, "request body is not valid JSON: "+err.Error())
		return []byte(`{"errors":[{"message":"bad request body"}]}`)
	}
	r.Query, r.Variables, r.OperationName = body.Query, body.Variables, body.OperationName
	doc, errs := gqlparser.LoadQuery(sub.Schema, body.Query)
	if errs != nil {
		r.Complaints = append(r.Complaints, "operation is not valid for the subgraph schema: "+errs.Error())
		return []byte(`{"errors":[{"message":"invalid operation"}]}`)
	}
	var opDef *ast.OperationDefinition
	for _, o := range doc.Operations {
		if body.OperationName == "" || o.Name == body.OperationName {
			opDef = o
			break
		}
	}
	if opDef == nil {
		r.Complaints = append(r.Complaints, "operationName not found in document")
		return []byte(`{"errors":[{"message":"unknown operation"}]}`)
	}
	raw := body.Variables
	if raw == nil {
		raw = map[string]any{}
	}
	for k := range raw {
		if opDef.VariableDefinitions.ForName(k) == nil {
			r.Complaints = append(r.Complaints, "variable $"+k+" sent but not declared by the operation")
		}
	}
	vars, err := ref.CoerceVariables(sub.Schema, opDef, raw)
	if err != nil {
		r.Complaints = append(r.Complaints, "variables do not coerce for the subgraph operation: "+err.Error())
		return []byte(`{"errors":[{"message":"invalid variables"}]}`)
	}
	for _, c := range ownership(sub.Schema, doc, opDef) {
		r.Complaints = append(r.Complaints, c)
	}
	ex := &ref.Exec{U: w.U, Super: w.Super, Schema: sub.Schema, IsSub: true, Doc: doc, Vars: vars}
	data, eerrs := ex.Run(opDef.Name)
	for _, n := range ex.Notes {
		r.Complaints = append(r.Complaints, n)
	}
	out := &ref.OMap{}
	if len(eerrs) > 0 {
		r.HadErrors = true
		out.Set("errors", eerrs)
	}
	out.Set("data", data)
	b, _ := json.Marshal(out)
	r.ResponseBody = string(b)
	return b
}

// ownership checks that every selected field is one this subgraph may be asked for: defined
// here, and if @external then a key field of its type or under an active @provides path.
func ownership(schema *ast.Schema, doc *ast.QueryDocument, op *ast.OperationDefinition) []string {
	var complaints []string
	keyFields := map[string]map[string]bool{}
	for name, def := range schema.Types {
		for _, d := range def.Directives {
			if d.Name != "key" {
				continue
			}
			fa := d.Arguments.ForName("fields")
			if fa == nil {
				continue
			}
			for _, f := range topFields(fa.Value.Raw) {
				if keyFields[name] == nil {
					keyFields[name] = map[string]bool{}
				}
				keyFields[name][f] = true
			}
		}
	}
	var walk func(set ast.SelectionSet, provided map[string]ast.SelectionSet, seen map[string]bool)
	walk = func(set ast.SelectionSet, provided map[string]ast.SelectionSet, seen map[string]bool) {
		for _, s := range set {
			switch x := s.(type) {
			case *ast.Field:
				if x.Definition == nil || x.ObjectDefinition == nil || strings.HasPrefix(x.Name, "__") {
					continue
				}
				tn := x.ObjectDefinition.Name
				_, isProvided := provided[x.Name]
				if x.Definition.Directives.ForName("external") != nil && !keyFields[tn][x.Name] && !isProvided {
					complaints = append(complaints, fmt.Sprintf("field %s.%s is @external in this subgraph and neither a key field nor provided on this path", tn, x.Name))
				}
				child := map[string]ast.SelectionSet{}
				if isProvided {
					for _, ps := range provided[x.Name] {
						if pf, ok := ps.(*ast.Field); ok {
							child[pf.Name] = pf.SelectionSet
						}
					}
				}
				if p := x.Definition.Directives.ForName("provides"); p != nil {
					if fa := p.Arguments.ForName("fields"); fa != nil {
						if d, err := parser.ParseQuery(&ast.Source{Input: "{" + fa.Value.Raw + "}"}); err == nil && len(d.Operations) > 0 {
							for _, ps := range d.Operations[0].SelectionSet {
								if pf, ok := ps.(*ast.Field); ok {
									child[pf.Name] = pf.SelectionSet
								}
							}
						}
					}
				}
				walk(x.SelectionSet, child, seen)
			case *ast.InlineFragment:
				walk(x.SelectionSet, provided, seen)
			case *ast.FragmentSpread:
				if seen[x.Name] {
					continue
				}
				seen[x.Name] = true
				if fd := doc.Fragments.ForName(x.Name); fd != nil {
					walk(fd.SelectionSet, provided, seen)
				}
				delete(seen, x.Name)
			}
		}
	}
	walk(op.SelectionSet, nil, map[string]bool{})
	return complaints
}

func topFields(sel string) []string {
	d, err := parser.ParseQuery(&ast.Source{Input: "{" + sel + "}"})
	if err != nil || len(d.Operations) == 0 {
		return nil
	}
	var out []string
	for _, s := range d.Operations[0].SelectionSet {
		if f, ok := s.(*ast.Field); ok {
			out = append(out, f.Name)
		}
	}
	return out
}
