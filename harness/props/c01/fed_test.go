package c01

import (
	"encoding/json"
	"fmt"
	"os"
	"strings"
	"verif/harness/internal/opshrink"

	"pgregory.net/rapid"

	"verif/harness/internal/fedgen"
	"verif/harness/internal/kit"
	"verif/harness/internal/opgen"
	"verif/harness/internal/ref"
	"verif/harness/pbt"
)

// fedCase is one layout with a batch of operations (amortises engine construction).
type fedCase struct {
	Layout *fedgen.Layout `json:"layout"`
	Seed   uint64         `json:"seed"`
	Ops    []opgen.Op     `json:"ops"`
}

var fedPart = pbt.Part[fedCase]{Name: "fed-equals-monolith", Journal: true, Quick: 15000, Thorough: 180000, Gen: genFed, Check: checkFed}

// allowFromEnv re-enables excluded generator classes (C01_ALLOW=a,b) — used only to collect
// probe cases for known findings, never by the registered checks.
func allowFromEnv() map[string]bool {
	m := map[string]bool{}
	for _, c := range strings.Split(os.Getenv("C01_ALLOW"), ",") {
		if c != "" {
			m[c] = true
		}
	}
	return m
}

func genFed(t *rapid.T) fedCase {
	l := fedgen.Gen(t, fedgen.Options{Allow: allowFromEnv()})
	c := fedCase{Layout: l, Seed: rapid.Uint64Range(1, 1<<20).Draw(t, "useed")}
	super, err := simLoadSuper(l.Super)
	if err != nil {
		t.Fatalf("generator produced an invalid supergraph: %v\n%s", err, l.Super)
	}
	n := rapid.IntRange(1, 12).Draw(t, "nops")
	for i := 0; i < n; i++ {
		c.Ops = append(c.Ops, opgen.Gen(t, super, opgen.Options{Mutations: true, SecondOp: true, Allow: allowFromEnv()}))
	}
	return c
}

func checkFed(c fedCase, o *pbt.Rec) pbt.Verdict {
	gw, err := kit.New(c.Layout, c.Seed, kit.EngineOptions{})
	if err != nil {
		return pbt.Bad("engine construction failed for a layout that is sound by construction: %v", err)
	}
	defer gw.Close()
	for _, f := range c.Layout.Features {
		o.Label("layout:" + f)
	}
	for i, op := range c.Ops {
		if v := checkOne(gw, c, i, op, o); v.Msg != "" {
			return v
		}
	}
	return pbt.OK
}

func checkOne(gw *kit.Gateway, c fedCase, i int, op opgen.Op, o *pbt.Rec) pbt.Verdict {
	refRes, err := gw.World.Reference(op)
	if err != nil {
		o.Label("oracle-disagreement:generator-vs-gqlparser")
		return pbt.OK
	}
	res := gw.Execute(op)
	ctx := func() string {
		var sb strings.Builder
		fmt.Fprintf(&sb, "\noperation[%d]: %s\nvariables: %s\noperationName: %q\nseed: %d\n", i, op.Query, op.VarsJSON(), op.OperationName, c.Seed)
		for _, r := range res.Requests {
			fmt.Fprintf(&sb, "  -> %s %s\n     <- %s\n", r.Subgraph, r.Body, r.ResponseBody)
			for _, cm := range r.Complaints {
				fmt.Fprintf(&sb, "     !! %s\n", cm)
			}
		}
		return sb.String()
	}
	if res.Panic != "" {
		return pbt.Bad("Execute panicked: %s%s", res.Panic, ctx())
	}
	if res.TimedOut {
		return pbt.Bad("Execute did not return within the watchdog%s", ctx())
	}
	if res.Err != nil {
		return pbt.Bad("planning/execution of a valid operation failed: %v%s", res.Err, ctx())
	}
	for _, r := range res.Requests {
		if len(r.Complaints) > 0 {
			return pbt.Bad("invalid or foreign subgraph request to %s: %s%s", r.Subgraph, strings.Join(r.Complaints, "; "), ctx())
		}
	}
	got, derr := ref.Decode([]byte(res.Body))
	if derr != nil {
		return pbt.Bad("response is not valid JSON: %v: %q%s", derr, res.Body, ctx())
	}
	gm, _ := got.(map[string]any)
	if gm == nil {
		return pbt.Bad("response is not a JSON object: %q%s", res.Body, ctx())
	}
	want := ref.Plain(refRes.Data)
	if !ref.Equal(gm["data"], want) {
		return pbt.Bad("data differs from the monolith\n got: %s\nwant: %s%s", ref.Canon(gm["data"]), ref.Canon(want), ctx())
	}
	gerrs, _ := gm["errors"].([]any)
	if (len(gerrs) == 0) != (len(refRes.Errors) == 0) {
		return pbt.Bad("errors reported: gateway %d, monolith %d\n gateway errors: %s\n monolith errors: %s%s", len(gerrs), len(refRes.Errors), ref.Canon(gm["errors"]), ref.JSON(refRes.Errors), ctx())
	}
	o.Labelf("requests:%d", min(len(res.Requests), 6))
	for _, f := range op.Features {
		o.Label("op:" + f)
	}
	if len(refRes.Errors) > 0 {
		o.Label("with-errors")
	}
	key := ""
	if len(res.Requests) >= 2 {
		key = ref.JSON(c.Layout.Subs) + op.Query + op.VarsJSON() + fmt.Sprint(c.Seed)
	}
	o.Sub(key)
	return pbt.OK
}

// minimizeFed reduces a failing batch to its first failing operation and shrinks that
// operation with GraphQL-aware reductions, keeping the same kind of failure.
func minimizeFed(raw json.RawMessage) (any, string) {
	var c fedCase
	if err := json.Unmarshal(raw, &c); err != nil {
		return nil, ""
	}
	gw, err := kit.New(c.Layout, c.Seed, kit.EngineOptions{})
	if err != nil {
		return nil, ""
	}
	defer gw.Close()
	class := func(msg string) string {
		first := strings.SplitN(msg, "\n", 2)[0]
		if len(first) > 60 {
			first = first[:60]
		}
		return first
	}
	for i, op := range c.Ops {
		v := checkOne(gw, c, i, op, pbt.NewRec())
		if v.Msg == "" {
			continue
		}
		want := class(v.Msg)
		small := opshrink.Minimize(op, 600, func(cand opgen.Op) bool {
			if _, err := gw.World.Reference(cand); err != nil {
				return false
			}
			vv := checkOne(gw, c, 0, cand, pbt.NewRec())
			return vv.Msg != "" && class(vv.Msg) == want
		})
		nc := fedCase{Layout: c.Layout, Seed: c.Seed, Ops: []opgen.Op{small}}
		vv := checkOne(gw, nc, 0, small, pbt.NewRec())
		if vv.Msg == "" {
			return nil, ""
		}
		return nc, vv.Msg
	}
	return nil, ""
}
