package c02

// The oracle: a CHECKER of the five clauses of DESIGN.md §4 C02 over (operation, j, out).
// It is written against GraphQL's response rules (CollectFields, type kinds, non-null
// propagation) on gqlparser's ASTs; it never predicts the output and shares no code or
// structure with resolvable.go.
//
// Vocabulary. A *position* is a place in the response (a path of response keys and list
// indices) together with its declared type. An *offender* is a position whose value in j
// cannot be delivered:
//   - kind "null": null or missing where the type is non-null;
//   - kind "type": a value of the wrong JSON kind, an enum string outside the enum, a non-list
//     where a list is declared, a non-object where a composite is declared, or an object at an
//     abstract position whose __typename is absent / not a string / not a possible type.
// Some positions are *tolerated* offenders: the statement does not say whether the value must
// be rejected, so both forwarding it unchanged and treating it as ill-typed are accepted
// (non-integral or out-of-range number for Int, non-string non-integer for ID). A string
// __typename that does not name a possible type is an offender at concrete positions too (the
// root object excepted: its plan node has no type guard and nothing selects through it), and a
// selected __typename field (aliased or not) must deliver a possible type name.

import (
	"fmt"
	"sort"
	"strings"

	gast "github.com/vektah/gqlparser/v2/ast"
)

type offender struct {
	path      []any
	kind      string // "null" | "type"
	what      string
	tolerated bool
	nna       string // path key of the nearest nullable strict ancestor ("<data>" = the data entry)
	nnaInner  bool   // that ancestor is a list that is itself a list item (steering only)
	selfNull  bool   // position itself is nullable
	cell      string // coverage cell of the enclosing field
	underList bool
	chain     int  // consecutive non-null positions from the offender upwards (itself included)
	inAbs     bool // nearest enclosing object position is declared with an abstract type
	depth     int  // number of response keys in the path
	val       *jv
	isList    bool // declared type at the position is a list
	composite bool // declared type at the position is a composite type
	isItem    bool // the position is a list item
	inAbsSelf bool // the position itself is declared with an abstract type
}

func (o offender) String() string {
	t := ""
	if o.tolerated {
		t = "~"
	}
	return fmt.Sprintf("%s%s:%s@%s(nna=%s)", t, o.kind, o.what, pathKey(o.path), o.nna)
}

// wctx is the context of a position during the reference walk.
type wctx struct {
	path      []any
	nna       string
	nnaInner  bool
	cell      string
	underList bool
	chain     int
	inAbs     bool
	depth     int
	isItem    bool
	tnNames   []string // the position is a selected __typename field: the possible type names of its object
}

// rootCtx: the data entry is the outermost nullable position; the root object itself is not
// counted in non-null chains.
func rootCtx() wctx { return wctx{nna: "<data>", chain: -1} }

// child derives the context of a position directly below one of type t at context c.
func (c wctx) below(t *gast.Type) wctx {
	n := c
	if !t.NonNull {
		n.nna = pathKey(c.path)
		n.nnaInner = t.Elem != nil && c.isItem
		n.chain = 0
	} else {
		n.chain = c.chain + 1
	}
	return n
}

func (c wctx) item(t *gast.Type, i int) wctx {
	n := c.below(t)
	n.path = pathAppend(c.path, i)
	n.underList = true
	n.isItem = true
	return n
}

func (c wctx) field(parent *gast.Type, key, cell string, abstract bool) wctx {
	n := c.below(parent)
	n.path = pathAppend(c.path, key)
	n.cell = cell
	n.inAbs = abstract
	n.depth = c.depth + 1
	n.isItem = false
	n.tnNames = nil
	return n
}

// typenameField marks the context of a selected __typename field of an object declared as def.
func (c wctx) typenameField(names []string) wctx {
	c.tnNames = names
	return c
}

type leafClass int

const (
	leafOK leafClass = iota
	leafTolerated
	leafBad
)

// classifyLeaf judges a non-null JSON value against a scalar or enum type.
func classifyLeaf(def *gast.Definition, v *jv) (leafClass, string) {
	if def.Kind == gast.Enum {
		if v.k != jStr {
			return leafBad, "enum-not-string"
		}
		if def.EnumValues.ForName(v.s) == nil {
			return leafBad, "enum-invalid-value"
		}
		return leafOK, ""
	}
	switch def.Name {
	case "String":
		if v.k != jStr {
			return leafBad, "String<-" + v.k.String()
		}
	case "Boolean":
		if v.k != jBool {
			return leafBad, "Boolean<-" + v.k.String()
		}
	case "Float":
		if v.k != jNum {
			return leafBad, "Float<-" + v.k.String()
		}
	case "Int":
		if v.k != jNum {
			return leafBad, "Int<-" + v.k.String()
		}
		if !numIsInt32(v.s) {
			return leafTolerated, "Int<-non-int32-number" // integrality is not demanded (DESIGN soundness note)
		}
	case "ID":
		switch {
		case v.k == jStr:
		case v.k == jNum && numIsInteger(v.s):
		default:
			return leafTolerated, "ID<-" + v.k.String()
		}
	default:
		// custom scalar: any non-null value
	}
	return leafOK, ""
}

// offenders lists every offender of value v (nil = absent) at a position of type t.
func (m *model) offenders(t *gast.Type, sets []gast.SelectionSet, v *jv, c wctx, out *[]offender) {
	add := func(kind, what string, tolerated bool) {
		o := offender{path: c.path, kind: kind, what: what, tolerated: tolerated, nna: c.nna, nnaInner: c.nnaInner,
			selfNull: !t.NonNull, cell: c.cell, underList: c.underList, chain: c.chain, inAbs: c.inAbs, depth: c.depth,
			val: v, isList: t.Elem != nil, isItem: c.isItem}
		if t.NonNull {
			o.chain++
		}
		if t.Elem == nil {
			o.composite = m.s.Types[t.NamedType].IsCompositeType()
			o.inAbsSelf = m.s.Types[t.NamedType].IsAbstractType()
		}
		*out = append(*out, o)
	}
	if v.isNull() {
		if t.NonNull {
			what := "null"
			if v == nil {
				what = "missing"
			}
			add("null", what, false)
		}
		return
	}
	if t.Elem != nil {
		if v.k != jArr {
			add("type", "list<-"+v.k.String(), false)
			return
		}
		for i, it := range v.arr {
			m.offenders(t.Elem, sets, it, c.item(t, i), out)
		}
		return
	}
	def := m.s.Types[t.NamedType]
	if !def.IsCompositeType() {
		switch cl, what := classifyLeaf(def, v); cl {
		case leafBad:
			add("type", what, false)
		case leafTolerated:
			add("type", what, true)
		default:
			// a __typename value must name a possible type of its object
			if c.tnNames != nil && v.k == jStr && !contains(c.tnNames, v.s) {
				add("type", "typename-field-invalid-name", false)
			}
		}
		return
	}
	if v.k != jObj {
		add("type", "object<-"+v.k.String(), false)
		return
	}
	rt, ok := m.runtimeType(def, v)
	if !ok {
		add("type", "typename-"+typenameProblem(v), false)
		return
	}
	abstract := def.Kind != gast.Object
	names := possibleNames(m.s, def)
	for _, f := range m.collect(sets, rt) {
		if f.name == "__typename" && rt == m.rootName() {
			continue
		}
		cell := "typename"
		fc := c.field(t, f.key, cell, abstract)
		if f.fieldDef != nil {
			fc.cell = m.cellOf(f.typ)
		} else {
			fc = fc.typenameField(names)
		}
		m.offenders(f.typ, f.sets, v.get(f.key), fc, out)
	}
}

func typenameProblem(v *jv) string {
	tn := v.get("__typename")
	switch {
	case tn == nil:
		return "missing"
	case tn.k != jStr:
		return "not-a-string"
	default:
		return "not-a-possible-type"
	}
}

// ---- the checker ----------------------------------------------------------------------

type replacement struct {
	path []any
	offs []offender
}

type errEntry struct {
	message string
	path    []any
	hasPath bool
}

// violation is one failed demand of clauses 1-4.
type violation struct {
	kind string // machine-readable class, see the call sites of bad()
	path []any  // position the demand is about
	key  string // response key concerned (key-missing / key-unselected / key-duplicate)
	msg  string
}

func (v violation) String() string { return v.msg }

func violText(vs []violation) string {
	var out []string
	for _, v := range vs {
		out = append(out, v.msg)
	}
	return strings.Join(out, "\n  ")
}

type checker struct {
	m     *model
	viol  []violation // violations of clauses 2-4
	repl  []replacement
	order bool // some object's key order differs from selection order (label only)
}

func (c *checker) bad(kind string, path []any, key string, format string, a ...any) {
	if len(c.viol) < 8 {
		c.viol = append(c.viol, violation{kind: kind, path: path, key: key, msg: fmt.Sprintf(format, a...)})
	}
}

// compare walks out (o; nil = key absent) against j (v; nil = key absent) at a position.
func (c *checker) compare(t *gast.Type, sets []gast.SelectionSet, o, v *jv, x wctx) {
	at := pathKey(x.path)
	if o == nil {
		c.bad("key-missing", x.path[:len(x.path)-1], lastKey(x.path), "clause 2: selected response key missing in output at %s", at)
		return
	}
	if o.k == jNull {
		if t.NonNull {
			c.bad("null-at-nonnull", x.path, "", "clause 2: null at non-null position %s", at)
		}
		if v.isNull() {
			return // a null the subgraph delivered itself
		}
		c.replaced(t, sets, v, x)
		return
	}
	if v.isNull() {
		c.bad("value-invented", x.path, "", "clause 4: output has a value at %s where the subgraph delivered null/nothing: %s", at, clip(o.String()))
		return
	}
	if t.Elem != nil {
		if o.k != jArr {
			c.bad("kind", x.path, "", "clause 2: %s rendered at list position %s", o.k, at)
			return
		}
		if v.k != jArr {
			c.bad("offender-rendered", x.path, "", "clause 4: list rendered at %s but the subgraph value is a %s", at, v.k)
			return
		}
		if len(o.arr) != len(v.arr) {
			c.bad("list-length", x.path, "", "clause 4: list at %s has %d items, subgraph delivered %d", at, len(o.arr), len(v.arr))
			return
		}
		for i := range o.arr {
			c.compare(t.Elem, sets, o.arr[i], v.arr[i], x.item(t, i))
		}
		return
	}
	def := c.m.s.Types[t.NamedType]
	if !def.IsCompositeType() {
		if cl, what := classifyLeaf(def, o); cl == leafBad {
			c.bad("kind", x.path, "", "clause 2: ill-typed value at %s (%s): %s", at, what, clip(o.String()))
			return
		}
		if x.tnNames != nil && o.k == jStr && !contains(x.tnNames, o.s) {
			kind := "typename-value"
			if jsonEqual(o, v) && lastKey(x.path) != "__typename" {
				kind = "typename-value-forwarded-alias" // the subgraph's value under an alias key, unchanged
			}
			c.bad(kind, x.path, lastKey(x.path), "clause 2: __typename value %s at %s is not a possible type name %v", clip(o.String()), at, x.tnNames)
			return
		}
		if !jsonEqual(o, v) {
			c.bad("leaf-differs", x.path, "", "clause 3/4: value at %s differs from the subgraph value: out %s, subgraph %s", at, clip(o.String()), clip(v.String()))
		}
		return
	}
	if o.k != jObj {
		c.bad("kind", x.path, "", "clause 2: %s rendered at object position %s", o.k, at)
		return
	}
	if v.k != jObj {
		c.bad("offender-rendered", x.path, "", "clause 4: object rendered at %s but the subgraph value is a %s", at, v.k)
		return
	}
	rt, ok := c.m.runtimeType(def, v)
	if !ok {
		c.bad("abstract-unknown-type-rendered", x.path, "", "clause 2: object rendered at %s although its runtime type is unknown (__typename %s)", at, typenameProblem(v))
		return
	}
	fields := c.m.collect(sets, rt)
	want := map[string]bool{}
	for _, f := range fields {
		want[f.key] = true
	}
	seen := map[string]bool{}
	for _, k := range o.keys {
		if seen[k] {
			c.bad("key-duplicate", x.path, k, "clause 2: duplicate response key %q in object at %s", k, at)
		}
		seen[k] = true
		if !want[k] {
			c.bad("key-unselected", x.path, k, "clause 2: unselected key %q in object at %s (runtime type %s)", k, at, rt)
		}
	}
	if len(o.keys) == len(fields) {
		for i, f := range fields {
			if o.keys[i] != f.key {
				c.order = true
			}
		}
	}
	abstract := def.Kind != gast.Object
	for _, f := range fields {
		ov := o.get(f.key)
		if f.name == "__typename" && rt == c.m.rootName() {
			if ov == nil || ov.k != jStr || ov.s != rt {
				c.bad("kind", x.path, f.key, "clause 2: root __typename at %s/%s is not %q", at, f.key, rt)
			}
			continue
		}
		fx := x.field(t, f.key, "typename", abstract)
		if f.fieldDef != nil {
			fx.cell = c.m.cellOf(f.typ)
		} else {
			fx = fx.typenameField(possibleNames(c.m.s, def))
		}
		c.compare(f.typ, f.sets, ov, v.get(f.key), fx)
	}
}

// replaced handles a position where out is null although the subgraph delivered a value.
func (c *checker) replaced(t *gast.Type, sets []gast.SelectionSet, v *jv, x wctx) {
	at := pathKey(x.path)
	var offs []offender
	c.m.offenders(t, sets, v, x, &offs)
	if len(offs) == 0 {
		c.bad("replaced-without-offender", x.path, "", "clause 4: value at %s replaced by null although nothing at or below it is null-in-non-null or ill-typed (subgraph value %s)", at, clip(v.String()))
		return
	}
	ok := false
	for _, o := range offs {
		if o.kind == "type" || o.nna == at {
			ok = true
			break
		}
	}
	if !ok {
		c.bad("not-nearest-nullable", x.path, "", "clause 4: %s was replaced by null, but every offender below it is a null/missing value whose nearest nullable ancestor is deeper: %v", at, offs)
	}
	c.repl = append(c.repl, replacement{path: x.path, offs: offs})
}

func lastKey(p []any) string {
	if len(p) == 0 {
		return ""
	}
	if k, ok := p[len(p)-1].(string); ok {
		return k
	}
	return ""
}

func clip(s string) string {
	if len(s) > 160 {
		return s[:160] + "…"
	}
	return s
}

// envelope checks clause 1 and extracts data and errors.
func envelope(out []byte) (root, data *jv, errs []errEntry, problem string) {
	root, err := parseJSON(out)
	if err != nil {
		return nil, nil, nil, "clause 1: output is not one valid JSON value: " + err.Error()
	}
	if root.k != jObj {
		return nil, nil, nil, "clause 1: output is not a JSON object"
	}
	seen := map[string]bool{}
	for _, k := range root.keys {
		if k != "errors" && k != "data" && k != "extensions" {
			return nil, nil, nil, fmt.Sprintf("clause 1: unexpected top-level key %q", k)
		}
		if seen[k] {
			return nil, nil, nil, fmt.Sprintf("clause 1: duplicate top-level key %q", k)
		}
		seen[k] = true
	}
	if e := root.get("errors"); e != nil {
		if e.k != jArr || len(e.arr) == 0 {
			return nil, nil, nil, "clause 1: errors is not a non-empty array"
		}
		for _, it := range e.arr {
			if it.k != jObj {
				return nil, nil, nil, "clause 1: errors entry is not an object"
			}
			msg := it.get("message")
			if msg == nil || msg.k != jStr {
				return nil, nil, nil, "clause 1: errors entry without a string message"
			}
			ee := errEntry{message: msg.s}
			if p := it.get("path"); p != nil {
				pp, ok := pathFromJSON(p)
				if !ok {
					return nil, nil, nil, "clause 1: error path is not a list of strings and non-negative integers: " + p.String()
				}
				ee.path, ee.hasPath = pp, true
			}
			errs = append(errs, ee)
		}
	}
	if x := root.get("extensions"); x != nil && x.k != jObj {
		return nil, nil, nil, "clause 1: extensions is not an object"
	}
	return root, root.get("data"), errs, ""
}

// verdict of the whole check.
type result struct {
	viol       []violation // clauses 1-4 and clause 3's "no errors"
	uncovered  []replacement
	offs       []offender // all offenders of j (definite and tolerated)
	repl       []replacement
	errs       []errEntry
	dataNull   bool
	orderDiff  bool
	extraPaths int // errors whose path is not the path of any offender (label only)
}

// check runs all five clauses for a JSON-object root document j.
func (m *model) check(j *jv, out []byte) result {
	var res result
	rootT := gast.NonNullNamedType(m.rootName(), nil)
	sets := []gast.SelectionSet{m.op.SelectionSet}
	m.offenders(rootT, sets, j, rootCtx(), &res.offs)

	_, data, errs, problem := envelope(out)
	if problem != "" {
		res.viol = append(res.viol, violation{kind: "envelope", msg: problem + ": " + clip(string(out))})
		return res
	}
	res.errs = errs
	c := &checker{m: m}
	switch {
	case data == nil:
		res.viol = append(res.viol, violation{kind: "envelope", msg: "clause 1: no data entry: " + clip(string(out))})
		return res
	case data.k == jNull:
		res.dataNull = true
		if len(res.offs) == 0 {
			c.bad("replaced-without-offender", nil, "", "clause 4: data is null although the subgraph data has no offender")
		} else {
			ok := false
			for _, o := range res.offs {
				if o.kind == "type" || o.nna == "<data>" {
					ok = true
				}
			}
			if !ok {
				c.bad("not-nearest-nullable", nil, "", "clause 4: data is null, but every offender is a null/missing value with a nullable ancestor: %v", res.offs)
			}
			c.repl = append(c.repl, replacement{path: nil, offs: res.offs})
		}
	default:
		x := rootCtx()
		c.compare(rootT, sets, data, j, x)
	}
	res.viol = append(res.viol, c.viol...)
	res.repl = c.repl
	res.orderDiff = c.order
	if len(res.offs) == 0 && len(errs) > 0 {
		res.viol = append(res.viol, violation{kind: "errors-on-well-typed", msg: fmt.Sprintf("clause 3: the subgraph data is well-typed but errors are reported: %q", errs[0].message)})
	}
	// clause 5
	offPaths := map[string]bool{}
	for _, o := range res.offs {
		offPaths[pathKey(o.path)] = true
	}
	for _, e := range errs {
		if !e.hasPath || !offPaths[pathKey(e.path)] {
			res.extraPaths++
		}
	}
	for _, r := range c.repl {
		covered := false
		for _, e := range errs {
			if !e.hasPath {
				continue
			}
			k := pathKey(e.path)
			for _, o := range r.offs {
				if pathKey(o.path) == k {
					covered = true
				}
			}
		}
		if !covered {
			res.uncovered = append(res.uncovered, r)
		}
	}
	return res
}

func (r result) errPaths() string {
	var ps []string
	for _, e := range r.errs {
		if e.hasPath {
			ps = append(ps, pathKey(e.path))
		} else {
			ps = append(ps, "(no path)")
		}
	}
	sort.Strings(ps)
	return strings.Join(ps, " ")
}
