package c20

import (
	"fmt"
	"strings"

	"github.com/vektah/gqlparser/v2/ast"

	"verif/harness/pbt"
)

const (
	// an aliased selection of a field that follows the plain selection of the same field
	// directly inside the result of a field resolver / @requires field is not returned
	findAliasDrop = "C20-resolver-result-alias-dropped"
	// a non-null single list of enum values as argument panics in the request compiler
	findEnumList = "C20-repeated-enum-argument-panics"
	// a field resolver below a parent that is null for some but not all items fails the fetch
	findNullParent = "C20-nested-resolver-null-parent"
	// engine planner: when the abstract-selection rewriter rewrites a union/interface selection
	// it keeps only one of several __typename selections (response keys)
	findTypenameKeys = "C20-rewriter-keeps-one-typename-key"
	// a field resolver below a list-of-lists parent fails the fetch (merge counts the inner
	// lists, not their items)
	findNestedListParent = "C20-resolver-below-nested-list"
	// a field resolver selected inside a fragment on a union member: the context path ignores
	// the oneof; the resolver is never called (null) or the compiler panics
	findResolverInUnion = "C20-resolver-below-union-member"
	// a field resolver selected below a plain composite field inside another resolver's result
	// is dropped from the plan: never called, answered null
	findResolverInResolverResult = "C20-resolver-inside-resolver-result-dropped"
)

// failure is what one of the oracles saw.
type failure struct {
	kind string     // not-executed | fetch-failed | shape | consistency
	msg  string     // full message
	side string     // "q" / "q'" / "" : operation the failure belongs to (consistency: null side)
	ms   []mismatch // consistency only
	a, b *outcome
}

// ---- structural predicates over a parsed operation ---------------------------------------------

// ancestry describes the fields above a field group.
type ancestry struct {
	nullable   bool // some ancestor field has a nullable (or nullable-element) type
	nestedList bool // some ancestor field has a list-of-lists type
	abstract   bool // some ancestor field has an interface or union type
	// plain composite fields between the nearest resolver/@requires ancestor and this field
	// (0 = selected directly in that ancestor's result, -1 = no such ancestor)
	sinceResolver int
}

func noAncestry() ancestry { return ancestry{sinceResolver: -1} }

// below derives the ancestry of the selections below field fd (of parent type t).
func (a ancestry) below(w *world, t *ast.Definition, fd *ast.FieldDefinition) ancestry {
	rt := w.schema.Types[fd.Type.Name()]
	out := ancestry{
		nullable:      a.nullable || !fd.Type.NonNull || (fd.Type.Elem != nil && !fd.Type.Elem.NonNull),
		nestedList:    a.nestedList || listDepth(fd.Type) > 1,
		abstract:      a.abstract || (rt != nil && rt.Kind != ast.Object),
		sinceResolver: a.sinceResolver,
	}
	if u := w.units[t.Name+"."+fd.Name]; u != nil && (u.Kind == unitResolver || u.Kind == unitRequires) {
		out.sinceResolver = 0
	} else if a.sinceResolver >= 0 {
		out.sinceResolver = a.sinceResolver + 1
	}
	return out
}

// unitFields visits every merged field group of the operation whose definition is a unit,
// with its underlying field path, the merged sub-selections and its ancestry.
func (w *world) unitFields(p *parsedOp, fn func(u *unit, path string, f *ast.Field, sub []ast.SelectionSet, anc ancestry)) {
	w.groups(p, func(t *ast.Definition, fd *ast.FieldDefinition, path string, f *ast.Field, sub []ast.SelectionSet, anc ancestry) {
		if u := w.units[t.Name+"."+f.Name]; u != nil {
			fn(u, path, f, sub, anc)
		}
	})
}

func listDepth(t *ast.Type) int {
	n := 0
	for ; t != nil && t.Elem != nil; t = t.Elem {
		n++
	}
	return n
}

// groups visits every merged field group (one response key of one concrete parent type).
func (w *world) groups(p *parsedOp, fn func(t *ast.Definition, fd *ast.FieldDefinition, path string, f *ast.Field, sub []ast.SelectionSet, anc ancestry)) {
	var rec func(def *ast.Definition, sets []ast.SelectionSet, prefix string, anc ancestry)
	rec = func(def *ast.Definition, sets []ast.SelectionSet, prefix string, anc ancestry) {
		for _, t := range w.possible(def) {
			for _, c := range w.collect(sets, t) {
				f := c.fields[0]
				fd := t.Fields.ForName(f.Name)
				if fd == nil || f.Name == "__typename" {
					continue
				}
				path := prefix + "/" + fieldSig(f)
				var sub []ast.SelectionSet
				for _, ff := range c.fields {
					if len(ff.SelectionSet) > 0 {
						sub = append(sub, ff.SelectionSet)
					}
				}
				fn(t, fd, path, f, sub, anc)
				if len(sub) > 0 {
					if rt := w.schema.Types[fd.Type.Name()]; rt != nil {
						rec(rt, sub, path, anc.below(w, t, fd))
					}
				}
			}
		}
	}
	rec(p.root, []ast.SelectionSet{p.op.SelectionSet}, "", noAncestry())
}

// flatFields lists, in document order, the field occurrences the datasource planner sees as
// direct children of a resolver result of static type rt: for an object type everything
// (normalisation flattens applicable fragments), for an abstract type only what is not
// inside a fragment on a concrete type.
func (w *world) flatFields(sets []ast.SelectionSet, rt *ast.Definition) []*ast.Field {
	var out []*ast.Field
	direct := func(cond string) bool {
		if cond == "" || cond == rt.Name {
			return true
		}
		if rt.Kind == ast.Object {
			return w.typeApplies(cond, rt)
		}
		return false
	}
	var rec func(ss ast.SelectionSet)
	rec = func(ss ast.SelectionSet) {
		for _, s := range ss {
			switch x := s.(type) {
			case *ast.Field:
				out = append(out, x)
			case *ast.InlineFragment:
				if direct(x.TypeCondition) {
					rec(x.SelectionSet)
				}
			case *ast.FragmentSpread:
				if x.Definition != nil && direct(x.Definition.TypeCondition) {
					rec(x.Definition.SelectionSet)
				}
			}
		}
	}
	for _, ss := range sets {
		rec(ss)
	}
	return out
}

type dropSite struct {
	path  string // underlying path of the resolver / @requires field
	name  string // dropped field
	alias string // response key that is lost
}

// aliasDropSites finds the selections hit by findAliasDrop: inside the direct result
// selection of a resolver or @requires field, an aliased field whose name equals the protobuf
// name of an earlier un-aliased field (in practice: the same field, when its protobuf name
// equals its GraphQL name).
func (w *world) aliasDropSites(p *parsedOp) []dropSite {
	var out []dropSite
	w.unitFields(p, func(u *unit, path string, f *ast.Field, sub []ast.SelectionSet, _ ancestry) {
		if (u.Kind != unitResolver && u.Kind != unitRequires) || len(sub) == 0 {
			return
		}
		rt := w.schema.Types[u.Def.Type.Name()]
		if rt == nil {
			return
		}
		plainTargets := map[string]bool{}
		if rt.Kind != ast.Object {
			// the engine's planner puts a plain __typename in front of every abstract selection
			plainTargets["__typename"] = true
		}
		for _, x := range w.flatFields(sub, rt) {
			if rt.Kind == ast.Object {
				if fd := rt.Fields.ForName(x.Name); fd != nil && isResolverField(rt, fd, false) {
					continue // resolver fields are planned separately
				}
			}
			if x.Alias != x.Name && plainTargets[x.Name] {
				out = append(out, dropSite{path: path, name: x.Name, alias: x.Alias})
				continue
			}
			if x.Alias == x.Name {
				target := x.Name // abstract result types have no field mapping: the GraphQL name is used
				if rt.Kind == ast.Object {
					if tn, ok := w.target[rt.Name+"."+x.Name]; ok {
						target = tn
					}
				}
				plainTargets[target] = true
			}
		}
	})
	return out
}

type typenameSite struct {
	path string
	keys []string // the distinct __typename response keys
}

// typenameMultiSites finds abstract-typed selections with two or more distinct response keys
// for __typename at the top level next to a fragment on another type (findTypenameKeys).
func (w *world) typenameMultiSites(p *parsedOp) []typenameSite {
	var out []typenameSite
	w.groups(p, func(_ *ast.Definition, fd *ast.FieldDefinition, path string, _ *ast.Field, sub []ast.SelectionSet, _ ancestry) {
		rt := w.schema.Types[fd.Type.Name()]
		if rt == nil || rt.Kind == ast.Object || len(sub) == 0 {
			return
		}
		var keys []string
		seen := map[string]bool{}
		for _, x := range w.flatFields(sub, rt) {
			if x.Name == "__typename" && !seen[x.Alias] {
				seen[x.Alias] = true
				keys = append(keys, x.Alias)
			}
		}
		if len(keys) < 2 {
			return
		}
		hasOther := false
		var rec func(ss ast.SelectionSet)
		rec = func(ss ast.SelectionSet) {
			for _, s := range ss {
				switch x := s.(type) {
				case *ast.InlineFragment:
					if x.TypeCondition != "" && x.TypeCondition != rt.Name {
						hasOther = true
					}
					rec(x.SelectionSet)
				case *ast.FragmentSpread:
					if x.Definition != nil {
						if x.Definition.TypeCondition != rt.Name {
							hasOther = true
						}
						rec(x.Definition.SelectionSet)
					}
				}
			}
		}
		for _, ss := range sub {
			rec(ss)
		}
		if hasOther {
			out = append(out, typenameSite{path: path, keys: keys})
		}
	})
	return out
}

func typeHasRepeatedEnum(w *world, t *ast.Type, v *ast.Value) bool {
	if v == nil || v.Kind == ast.NullValue {
		return false
	}
	if t.Elem != nil {
		if t.NonNull && t.Elem.Elem == nil {
			if d := w.schema.Types[t.Elem.NamedType]; d != nil && d.Kind == ast.Enum && v.Kind == ast.ListValue && len(v.Children) > 0 {
				return true
			}
		}
		if v.Kind == ast.ListValue {
			for _, c := range v.Children {
				if typeHasRepeatedEnum(w, t.Elem, c.Value) {
					return true
				}
			}
		}
		return false
	}
	d := w.schema.Types[t.NamedType]
	if d != nil && d.Kind == ast.InputObject && v.Kind == ast.ObjectValue {
		for _, c := range v.Children {
			if fd := d.Fields.ForName(c.Name); fd != nil && typeHasRepeatedEnum(w, fd.Type, c.Value) {
				return true
			}
		}
	}
	return false
}

// hasRepeatedEnumArg: some field passes a non-empty value for an argument (or input field) of
// type [Enum]! / [Enum!]! — the protobuf "repeated enum" case.
func (w *world) hasRepeatedEnumArg(p *parsedOp) bool {
	found := false
	var rec func(ss ast.SelectionSet)
	rec = func(ss ast.SelectionSet) {
		for _, s := range ss {
			switch x := s.(type) {
			case *ast.Field:
				if x.Definition != nil {
					for _, a := range x.Arguments {
						if ad := x.Definition.Arguments.ForName(a.Name); ad != nil && typeHasRepeatedEnum(w, ad.Type, a.Value) {
							found = true
						}
					}
				}
				rec(x.SelectionSet)
			case *ast.InlineFragment:
				rec(x.SelectionSet)
			case *ast.FragmentSpread:
				if x.Definition != nil {
					rec(x.Definition.SelectionSet)
				}
			}
		}
	}
	rec(p.op.SelectionSet)
	return found
}

// resolverUnderNullable: a field resolver is selected below a nullable composite field.
func (w *world) resolverUnderNullable(p *parsedOp) bool {
	found := false
	w.unitFields(p, func(u *unit, _ string, _ *ast.Field, _ []ast.SelectionSet, anc ancestry) {
		if u.Kind == unitResolver && anc.nullable {
			found = true
		}
	})
	return found
}

// resolverUnder: a field resolver is selected below an ancestor with the given property.
func (w *world) resolverUnder(p *parsedOp, prop func(ancestry) bool) bool {
	found := false
	w.unitFields(p, func(u *unit, _ string, _ *ast.Field, _ []ast.SelectionSet, anc ancestry) {
		if u.Kind == unitResolver && prop(anc) {
			found = true
		}
	})
	return found
}

// ---- recognisers --------------------------------------------------------------------------------

func errorMentionsKey(r *response, key string) bool {
	if r == nil {
		return false
	}
	for _, e := range r.Errors {
		m, _ := e.(map[string]any)
		path, _ := m["path"].([]any)
		msg, _ := m["message"].(string)
		if len(path) > 0 && fmt.Sprint(path[len(path)-1]) == key && strings.HasPrefix(msg, "Cannot return null for non-nullable field") {
			return true
		}
	}
	return false
}

// recognise attributes a failure to a recorded finding. Every recogniser needs both the
// structural trigger in the operation and the specific symptom.
func recognise(w *world, pa, pb *parsedOp, f failure) string {
	ops := []*parsedOp{pa}
	if pb != nil {
		ops = append(ops, pb)
	}
	pick := func(side string) []*parsedOp {
		switch {
		case side == "q":
			return []*parsedOp{pa}
		case side == "q'" && pb != nil:
			return []*parsedOp{pb}
		}
		return ops
	}
	switch f.kind {
	case "not-executed":
		if strings.Contains(f.msg, "assigning invalid type") {
			for _, p := range pick(f.side) {
				if w.hasRepeatedEnumArg(p) {
					if pbt.IsKnown(findEnumList) {
						return findEnumList
					}
				}
			}
		}
		if strings.Contains(f.msg, "nil pointer dereference") {
			for _, p := range pick(f.side) {
				if w.resolverUnder(p, func(a ancestry) bool { return a.abstract }) {
					if pbt.IsKnown(findResolverInUnion) {
						return findResolverInUnion
					}
				}
			}
		}
	case "call-dropped":
		for _, p := range pick(f.side) {
			if w.resolverUnder(p, func(a ancestry) bool { return a.abstract }) {
				if pbt.IsKnown(findResolverInUnion) {
					return findResolverInUnion
				}
			}
			if w.resolverUnder(p, func(a ancestry) bool { return a.sinceResolver >= 1 }) {
				if pbt.IsKnown(findResolverInResolverResult) {
					return findResolverInResolverResult
				}
			}
		}
	case "shape":
		// symptom: objects lack response keys, nothing else is wrong, and every lacking key is
		// a __typename key of a site at that position
		if f.a == nil || f.a.walk == nil || len(f.a.walk.diffs) == 0 {
			return ""
		}
		for _, p := range pick(f.side) {
			if f.a.walk.nViol == f.a.walk.nKeyViol && explainedAllObjects(f.a.walk.diffs, w.typenameMultiSites(p)) {
				if pbt.IsKnown(findTypenameKeys) {
					return findTypenameKeys
				}
			}
		}
	case "fetch-failed":
		if strings.Contains(f.msg, "expected array or object, got null") {
			for _, p := range pick(f.side) {
				if w.resolverUnderNullable(p) {
					if pbt.IsKnown(findNullParent) {
						return findNullParent
					}
				}
			}
		}
		// the three ways mergeWithPath / flattenObject / flattenList give up on a nested list
		if strings.Contains(f.msg, "length of values doesn't match the length of the result array") ||
			(strings.Contains(f.msg, "not found in object") && strings.Contains(f.msg, `"message":"field `)) ||
			strings.Contains(f.msg, "expected array or object, got") {
			for _, p := range pick(f.side) {
				if w.resolverUnder(p, func(a ancestry) bool { return a.nestedList }) {
					if pbt.IsKnown(findNestedListParent) {
						return findNestedListParent
					}
				}
			}
		}
	case "consistency":
		if len(f.ms) == 0 {
			return ""
		}
		m := f.ms[0]
		u := stripIndices(m.U)
		outOf := func(side string) (*parsedOp, *outcome) {
			if side == "q" {
				return pa, f.a
			}
			return pb, f.b
		}
		// the null observation and the operation it belongs to
		null, side := m.X, m.SideX
		if m.Y.val == "null" {
			null, side = m.Y, m.SideY
		}
		if null.val != "null" || m.X.val == m.Y.val {
			return ""
		}
		p, out := outOf(side)
		if p == nil || out == nil {
			return ""
		}
		for _, site := range w.aliasDropSites(p) {
			// (a) nullable field: the lost key itself is rendered as null while the field has a
			// value under its other response key(s)
			if u == site.path+"/"+site.name && strings.HasSuffix(null.path, "."+site.alias) {
				if pbt.IsKnown(findAliasDrop) {
					return findAliasDrop
				}
			}
			// (b) non-null field: the lost key nulls the resolver result or an ancestor of it
			if (site.path == u || strings.HasPrefix(site.path, u+"/") || u == "") && errorMentionsKey(out.resp, site.alias) {
				if pbt.IsKnown(findAliasDrop) {
					return findAliasDrop
				}
			}
		}
	}
	return ""
}

// explainedAllObjects: for every position with key differences, some reading lacks only
// __typename keys of a site.
func explainedAllObjects(diffs []keyDiff, sites []typenameSite) bool {
	byU := map[string]bool{}
	for _, d := range diffs {
		if _, ok := byU[d.U]; !ok {
			byU[d.U] = false
		}
		for _, site := range sites {
			if stripIndices(d.U) != site.path || len(d.Extra) > 0 || len(d.Missing) == 0 {
				continue
			}
			all := true
			for _, m := range d.Missing {
				in := false
				for _, k := range site.keys {
					in = in || k == m
				}
				all = all && in
			}
			if all {
				byU[d.U] = true
			}
		}
	}
	for _, ok := range byU {
		if !ok {
			return false
		}
	}
	return len(byU) > 0
}

// ---- directed probes --------------------------------------------------------------------------

// probeOps runs fixed (q, q') pairs through the full check; the finding reproduces while a
// pair fails and the recogniser attributes the failure to it.
func probeOps(finding string, cases ...opCase) pbt.ProbeDef {
	return pbt.ProbeDef{Input: cases, Fn: func() string {
		var got []string
		for _, c := range cases {
			v := checkOpCase(c, &pbt.Rec{})
			switch {
			case v.Msg == "":
			case v.Finding == finding:
				got = append(got, firstLine(v.Msg)+" [q' = "+c.Q2+"]")
			default:
				got = append(got, "DIFFERENT FAILURE (recognised as \""+v.Finding+"\"): "+firstLine(v.Msg)+" [q' = "+c.Q2+"]")
			}
		}
		return strings.Join(got, " || ")
	}}
}

func probeSolo(finding string, cases ...unitCase) pbt.ProbeDef {
	return pbt.ProbeDef{Input: cases, Fn: func() string {
		var got []string
		for _, c := range cases {
			v := checkUnitCase(c, &pbt.Rec{})
			switch {
			case v.Msg == "":
			case v.Finding == finding:
				got = append(got, firstLine(v.Msg)+" [q = "+c.Q+"]")
			default:
				got = append(got, "DIFFERENT FAILURE (recognised as \""+v.Finding+"\"): "+firstLine(v.Msg)+" [q = "+c.Q+"]")
			}
		}
		return strings.Join(got, " || ")
	}}
}

func firstLine(s string) string {
	if i := strings.IndexByte(s, '\n'); i >= 0 {
		s = s[:i]
	}
	return clip(s)
}

func probes() pbt.Probes {
	return pbt.Probes{
		findAliasDrop: probeOps(findAliasDrop,
			opCase{Rig: "plain", Q: `{ categories { topSubcategory { name } } }`, Q2: `{ categories { topSubcategory { name x: name } } }`, Kind: "aliasdup"},
			opCase{Rig: "plain", Q: `{ categories { topSubcategory { description } } }`, Q2: `{ categories { topSubcategory { description x: description } } }`, Kind: "aliasdup"},
			opCase{Rig: "plain", Q: `{ categories { mascot(includeVolume: true) { __typename } } }`, Q2: `{ categories { mascot(includeVolume: true) { x: __typename } } }`, Kind: "alias"},
			opCase{Rig: "fed", Q: `{ storage(id: "1") { processedMetadata { zone } } }`, Q2: `{ storage(id: "1") { processedMetadata { zone x: zone } } }`, Kind: "aliasdup"},
		),
		findEnumList:   probeSolo(findEnumList, unitCase{Rig: "plain", Q: `{ categoriesByKinds(kinds: [BOOK]) { id } }`}),
		findNullParent: probeSolo(findNullParent, unitCase{Rig: "plain", Q: `{ categories { topSubcategory { parentCategory { name } } } }`}),
		findTypenameKeys: probeSolo(findTypenameKeys,
			unitCase{Rig: "plain", Q: `{ search(input: {query: "t", limit: 2}) { x: __typename __typename ... on Product { id } } }`}),
		findNestedListParent: probeSolo(findNestedListParent, unitCase{Rig: "plain", Q: `{ blogPost { categoryGroups { id productCount } } }`}),
		findResolverInResolverResult: probeSolo(findResolverInResolverResult,
			unitCase{Rig: "fed", Unit: "Subcategory.itemCount", Q: `{ product(id: "2") { recommendedCategory(maxPrice: 0) { subcategories { itemCount } } } }`}),
		findResolverInUnion: probeSolo(findResolverInUnion,
			unitCase{Rig: "plain", Q: `{ search(input: {query: "t", limit: 1}) { ... on Category { subcategories { itemCount } } } }`},
			unitCase{Rig: "plain", Unit: "Category.totalProducts", Q: `{ search(input: {query: "t", limit: 3}) { ... on Category { totalProducts } } }`}),
	}
}
