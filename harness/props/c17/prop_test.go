package c17

import (
	"testing"

	"verif/harness/pbt"
)

// TestProp is the entry point the driver runs in every shard.
func TestProp(t *testing.T) {
	r := pbt.Start(t, "C17")
	defer r.Finish()
	r.Rule("a generated type system is non-trivial when it has at least one interface, one union, one input object with a default value, one deprecation and one custom directive; for the engine part additionally at least one generated partial __schema/__type query was answered exactly; distinct by SDL text (+ query texts); a request history is non-trivial when two requests instantiate the same operation template with different includeDeprecated values and their answers differ")
	r.Assume(
		"gqlparser's LoadSchema reading of the generated SDL is the truth about the type system (default values compared as parsed values, strings by value)",
		"operations are validated by gqlparser against the SDL plus the repo's own built-in definitions (printed through the exported API), and answered by a small reference introspection written for this check",
		"tolerated: built-in scalars/directives/meta types on either side (must come from the allowed set), meta types absent from __schema.types, [] instead of null for members that do not apply to a kind, \"\" instead of null for an absent description, order of types/fields/args/values/locations",
	)
	r.RequireLabel(
		"interface-implements-interface", "custom-directive:repeatable", "deprecated:argument:no-reason", "deprecated:argument:with-reason",
		"deprecated:input-field:with-reason", "deprecated:field:with-reason", "deprecated:enum-value:no-reason", "deprecated:directive-argument:no-reason",
		"default:object", "default:list", "default:string", "default:block-string", "default:null", "default:enum", "default:float",
		"list-depth:4", "root:query-renamed", "root:mutation-renamed", "root:subscription", "kind:UNION", "scalar-specifiedBy",
		"description:multi-line", "query:includeDeprecated-true", "query:includeDeprecated-false", "query:includeDeprecated-absent",
		"query:fragments", "query:strictly-checked", "reuse:root-types-change-between-schemas",
		"history:same-operation-different-answers", "history:same-operation-different-answers-with-requests-in-between",
		"history:includeDeprecated-by-variable", "history:includeDeprecated-literal",
	)
	r.Regress(dispatch())
	r.RunProbes(probes())
	factsPart.Run(r)
	enginePart.Run(r)
	reusePart.Run(r)
	historyPart.Run(r)
}

func TestReplay(t *testing.T) { pbt.StdReplay(t, "C17", dispatch()) }

func dispatch() pbt.Dispatch {
	return pbt.Dispatch{}.Add(factsPart.Name, factsPart.Handler()).Add(enginePart.Name, enginePart.Handler()).Add(reusePart.Name, reusePart.Handler()).Add(historyPart.Name, historyPart.Handler()).WithProbes(probes())
}
