package c05

import (
	"sort"

	gast "github.com/vektah/gqlparser/v2/ast"
	gparser "github.com/vektah/gqlparser/v2/parser"
)

// shapeGQ builds the gqlparser-comparable shape (see gview) of a document parsed by the
// independent parser github.com/vektah/gqlparser/v2. gqlparser has separate entry points for
// executable and type-system documents; typeSystem selects which one is used.

func gqParse(src string, typeSystem bool) (*sn, error) {
	source := &gast.Source{Name: "c05", Input: src}
	if typeSystem {
		sd, err := gparser.ParseSchema(source)
		if err != nil {
			return nil, err
		}
		return gqSchemaShape(sd), nil
	}
	qd, err := gparser.ParseQuery(source)
	if err != nil {
		return nil, err
	}
	return gqQueryShape(qd), nil
}

func gqDesc(s string) *sn {
	if s == "" {
		return nil
	}
	return mk("desc", leftTrimLines(s))
}

func gqType(t *gast.Type) *sn {
	if t == nil {
		return nil
	}
	var n *sn
	if t.NamedType != "" {
		n = mk("named", t.NamedType)
	} else {
		n = mk("listtype", "", gqType(t.Elem))
	}
	if t.NonNull {
		n = mk("nonnull", "", n)
	}
	return n
}

func gqValue(v *gast.Value) *sn {
	if v == nil {
		return nil
	}
	switch v.Kind {
	case gast.Variable:
		return mk("var", v.Raw)
	case gast.IntValue:
		return mk("int", v.Raw)
	case gast.FloatValue:
		return mk("float", v.Raw)
	case gast.StringValue:
		return mk("string", v.Raw)
	case gast.BlockValue:
		return mk("blockstring", leftTrimLines(v.Raw))
	case gast.BooleanValue:
		return mk("bool", v.Raw)
	case gast.NullValue:
		return mk("null", "")
	case gast.EnumValue:
		return mk("enum", v.Raw)
	case gast.ListValue:
		n := mk("list", "")
		for _, c := range v.Children {
			n.add(gqValue(c.Value))
		}
		return n
	case gast.ObjectValue:
		n := mk("object", "")
		for _, c := range v.Children {
			n.add(mk("ofield", c.Name, gqValue(c.Value)))
		}
		return n
	}
	return mk("unknown-value", v.Raw)
}

func gqArgs(l gast.ArgumentList) []*sn {
	var out []*sn
	for _, a := range l {
		out = append(out, mk("arg", a.Name, gqValue(a.Value)))
	}
	return out
}

func gqDirs(l gast.DirectiveList) []*sn {
	var out []*sn
	for _, d := range l {
		out = append(out, mk("dir", d.Name, gqArgs(d.Arguments)...))
	}
	return out
}

func gqSelSet(ss gast.SelectionSet) *sn {
	n := mk("sel", "")
	for _, s := range ss {
		switch x := s.(type) {
		case *gast.Field:
			f := mk("field", x.Name)
			if x.Alias != "" && x.Alias != x.Name {
				f.add(mk("alias", x.Alias))
			}
			f.add(gqArgs(x.Arguments)...)
			f.add(gqDirs(x.Directives)...)
			if len(x.SelectionSet) > 0 {
				f.add(gqSelSet(x.SelectionSet))
			}
			n.add(f)
		case *gast.FragmentSpread:
			n.add(mk("spread", x.Name, gqDirs(x.Directives)...))
		case *gast.InlineFragment:
			in := mk("inline", "")
			if x.TypeCondition != "" {
				in.add(mk("typecond", "", mk("named", x.TypeCondition)))
			}
			in.add(gqDirs(x.Directives)...)
			if len(x.SelectionSet) > 0 {
				in.add(gqSelSet(x.SelectionSet))
			}
			n.add(in)
		}
	}
	return n
}

func gqQueryShape(qd *gast.QueryDocument) *sn {
	doc := mk("doc", "")
	for _, o := range qd.Operations {
		n := mk("op", string(o.Operation))
		if o.Name != "" {
			n.add(mk("name", o.Name))
		}
		for _, v := range o.VariableDefinitions {
			vn := mk("vardef", v.Variable, gqType(v.Type))
			if v.DefaultValue != nil {
				vn.add(mk("default", "", gqValue(v.DefaultValue)))
			}
			vn.add(gqDirs(v.Directives)...)
			n.add(vn)
		}
		n.add(gqDirs(o.Directives)...)
		n.add(gqSelSet(o.SelectionSet))
		doc.add(n)
	}
	for _, f := range qd.Fragments {
		n := mk("fragment", f.Name, mk("typecond", "", mk("named", f.TypeCondition)))
		n.add(gqDirs(f.Directives)...)
		n.add(gqSelSet(f.SelectionSet))
		doc.add(n)
	}
	return doc
}

func gqInputVals(l gast.ArgumentDefinitionList) []*sn {
	var out []*sn
	for _, a := range l {
		n := mk("inputval", a.Name, gqDesc(a.Description), gqType(a.Type))
		if a.DefaultValue != nil {
			n.add(mk("default", "", gqValue(a.DefaultValue)))
		}
		n.add(gqDirs(a.Directives)...)
		out = append(out, n)
	}
	return out
}

func gqDefinition(prefix string, d *gast.Definition) *sn {
	switch d.Kind {
	case gast.Scalar:
		return mk(prefix+"scalar", d.Name, gqDesc(d.Description)).add(gqDirs(d.Directives)...)
	case gast.Object, gast.Interface:
		kind := "type"
		if d.Kind == gast.Interface {
			kind = "interface"
		}
		n := mk(prefix+kind, d.Name, gqDesc(d.Description))
		if len(d.Interfaces) > 0 {
			im := mk("implements", "")
			for _, i := range d.Interfaces {
				im.add(mk("named", i))
			}
			n.add(im)
		}
		n.add(gqDirs(d.Directives)...)
		for _, f := range d.Fields {
			fn := mk("fielddef", f.Name, gqDesc(f.Description))
			fn.add(gqInputVals(f.Arguments)...)
			fn.add(gqType(f.Type))
			fn.add(gqDirs(f.Directives)...)
			n.add(fn)
		}
		return n
	case gast.Union:
		n := mk(prefix+"union", d.Name, gqDesc(d.Description)).add(gqDirs(d.Directives)...)
		for _, t := range d.Types {
			n.add(mk("member", t))
		}
		return n
	case gast.Enum:
		n := mk(prefix+"enum", d.Name, gqDesc(d.Description)).add(gqDirs(d.Directives)...)
		for _, e := range d.EnumValues {
			n.add(mk("enumval", e.Name, gqDesc(e.Description)).add(gqDirs(e.Directives)...))
		}
		return n
	case gast.InputObject:
		n := mk(prefix+"input", d.Name, gqDesc(d.Description)).add(gqDirs(d.Directives)...)
		for _, f := range d.Fields {
			fn := mk("inputval", f.Name, gqDesc(f.Description), gqType(f.Type))
			if f.DefaultValue != nil {
				fn.add(mk("default", "", gqValue(f.DefaultValue)))
			}
			fn.add(gqDirs(f.Directives)...)
			n.add(fn)
		}
		return n
	}
	return mk("unknown-definition", string(d.Kind))
}

func gqSchemaDef(kind string, s *gast.SchemaDefinition) *sn {
	n := mk(kind, "", gqDesc(s.Description)).add(gqDirs(s.Directives)...)
	for _, o := range s.OperationTypes {
		n.add(mk("rootop", string(o.Operation), mk("named", o.Type)))
	}
	return n
}

func gqSchemaShape(sd *gast.SchemaDocument) *sn {
	doc := mk("doc", "")
	for _, s := range sd.Schema {
		doc.add(gqSchemaDef("schema", s))
	}
	for _, s := range sd.SchemaExtension {
		doc.add(gqSchemaDef("extend-schema", s))
	}
	for _, d := range sd.Directives {
		n := mk("directivedef", d.Name, gqDesc(d.Description))
		n.add(gqInputVals(d.Arguments)...)
		if d.IsRepeatable {
			n.add(mk("repeatable", ""))
		}
		locs := make([]string, 0, len(d.Locations))
		for _, l := range d.Locations {
			locs = append(locs, string(l))
		}
		sort.Strings(locs)
		for _, l := range locs {
			n.add(mk("loc", l))
		}
		doc.add(n)
	}
	for _, d := range sd.Definitions {
		doc.add(gqDefinition("", d))
	}
	for _, d := range sd.Extensions {
		doc.add(gqDefinition("extend-", d))
	}
	return doc
}
