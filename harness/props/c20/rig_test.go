package c20

import (
	"bytes"
	"context"
	"encoding/json"
	"fmt"
	"io"
	"net"
	"net/http"
	"runtime"
	"runtime/debug"
	"sort"
	"strings"
	"sync"
	"sync/atomic"

	"github.com/jensneuse/abstractlogger"
	"github.com/vektah/gqlparser/v2/ast"
	"github.com/vektah/gqlparser/v2/parser"
	"google.golang.org/grpc"
	"google.golang.org/grpc/credentials/insecure"
	"google.golang.org/grpc/test/bufconn"

	"github.com/wundergraph/graphql-go-tools/execution/engine"
	"github.com/wundergraph/graphql-go-tools/execution/graphql"
	"github.com/wundergraph/graphql-go-tools/v2/pkg/engine/datasource/graphql_datasource"
	grpcdatasource "github.com/wundergraph/graphql-go-tools/v2/pkg/engine/datasource/grpc_datasource"
	"github.com/wundergraph/graphql-go-tools/v2/pkg/engine/plan"
	"github.com/wundergraph/graphql-go-tools/v2/pkg/engine/resolve"
	"github.com/wundergraph/graphql-go-tools/v2/pkg/grpctest"
	"github.com/wundergraph/graphql-go-tools/v2/pkg/grpctest/mapping"
	"github.com/wundergraph/graphql-go-tools/v2/pkg/grpctest/productv1"
)

// recConn wraps the gRPC client connection and records the full method name of every unary
// call (the datasource issues calls concurrently, hence the mutex).
type recConn struct {
	grpc.ClientConnInterface
	mu     sync.Mutex
	calls  []string
	failed []string
}

func (r *recConn) Invoke(ctx context.Context, method string, args any, reply any, opts ...grpc.CallOption) error {
	name := method[strings.LastIndexByte(method, '/')+1:]
	err := r.ClientConnInterface.Invoke(ctx, method, args, reply, opts...)
	r.mu.Lock()
	r.calls = append(r.calls, name)
	if err != nil {
		r.failed = append(r.failed, name+": "+err.Error())
	}
	r.mu.Unlock()
	return err
}

func (r *recConn) take() (calls, failed []string) {
	r.mu.Lock()
	calls, failed = r.calls, r.failed
	r.calls, r.failed = nil, nil
	r.mu.Unlock()
	sort.Strings(calls)
	sort.Strings(failed)
	return calls, failed
}

// rig is one execution engine over the gRPC datasource (and, for the federated rig, an
// "owning" GraphQL subgraph answered in-process) plus the recording connection.
type rig struct {
	name string
	eng  *engine.ExecutionEngine
	conn *recConn
	sdl  string // engine (supergraph) schema text
	sch  *graphql.Schema
	mu   sync.Mutex
}

// engineRejects runs the engine's own normalisation + validation (what Execute does first)
// and returns the reason when the engine refuses the operation before planning.
func (g *rig) engineRejects(query string) string {
	req := graphql.Request{Query: query}
	// (variable values are validated by Execute itself; only the document is checked here)
	if res, err := req.Normalize(g.sch); err != nil {
		return err.Error()
	} else if !res.Successful {
		return res.Errors.Error()
	}
	if res, err := req.ValidateForSchema(g.sch); err != nil {
		return err.Error()
	} else if !res.Valid {
		return res.Errors.Error()
	}
	return ""
}

type execResult struct {
	Body      string   // raw response
	Err       string   // engine.Execute error (operation rejected / planning failed), "" if none
	RPCs      []string // sorted method names issued during this execution
	RPCErrors []string // RPCs the service answered with an error
	Stack     string   // stack of a recovered panic
}

// exec runs one operation. Executions are serialised per rig so that the recorded RPC list
// belongs to exactly this operation.
func (g *rig) exec(query string) execResult { return g.execVars(query, "") }

// execVars runs one operation with a JSON object of variables ("" = none).
func (g *rig) execVars(query, vars string) (res execResult) {
	g.mu.Lock()
	defer g.mu.Unlock()
	g.conn.take()
	req := graphql.Request{Query: query}
	if vars != "" {
		req.Variables = json.RawMessage(vars)
	}
	wr := graphql.NewEngineResultWriter()
	func() {
		defer func() {
			if p := recover(); p != nil {
				res.Err = fmt.Sprintf("PANIC: %v", p)
				res.Stack = string(debug.Stack())
			}
		}()
		if err := g.eng.Execute(context.Background(), &req, &wr); err != nil {
			res.Err = err.Error()
		}
	}()
	res.Body = wr.String()
	res.RPCs, res.RPCErrors = g.conn.take()
	// Planning a fresh operation allocates 2-6 MB of short-lived memory. On a machine loaded
	// far beyond its cores the concurrent collector is starved and the heap of a shard was
	// seen to overshoot to several GB (fatal "out of memory" under the driver's address-space
	// limit). A forced collection every few executions bounds the garbage between two
	// collections; it costs about a millisecond with the ~25 MB live heap of the rigs.
	if n := execCount.Add(1); n%96 == 0 {
		runtime.GC()
	}
	return res
}

var execCount atomic.Int64

var (
	rigOnce  sync.Once
	rigPlain *rig
	rigFed   *rig
	rigErr   error
)

func rigs() (*rig, *rig, error) {
	rigOnce.Do(func() {
		conn, err := newMockConn()
		if err != nil {
			rigErr = err
			return
		}
		if rigPlain, err = newPlainRig(conn); err != nil {
			rigErr = fmt.Errorf("plain rig: %w", err)
			return
		}
		conn2, err := newMockConn()
		if err != nil {
			rigErr = err
			return
		}
		if rigFed, err = newFedRig(conn2); err != nil {
			rigErr = fmt.Errorf("federated rig: %w", err)
		}
	})
	return rigPlain, rigFed, rigErr
}

func rigByName(name string) (*rig, error) {
	p, f, err := rigs()
	if err != nil {
		return nil, err
	}
	if name == "fed" {
		return f, nil
	}
	return p, nil
}

func newMockConn() (*recConn, error) {
	lis := bufconn.Listen(1 << 20)
	server := grpc.NewServer()
	productv1.RegisterProductServiceServer(server, &grpctest.MockService{})
	go func() { _ = server.Serve(lis) }()
	conn, err := grpc.NewClient("passthrough:///bufnet",
		grpc.WithTransportCredentials(insecure.NewCredentials()),
		grpc.WithContextDialer(func(context.Context, string) (net.Conn, error) { return lis.Dial() }),
		grpc.WithLocalDNSResolution())
	if err != nil {
		return nil, err
	}
	return &recConn{ClientConnInterface: conn}, nil
}

func productsSDL() (string, error) {
	doc, err := grpctest.GraphQLSchemaWithoutBaseDefinitions()
	if err != nil {
		return "", err
	}
	return string(doc.Input.RawBytes), nil
}

// grpcDataSource builds the gRPC datasource exactly as execution_engine_grpc_test.go /
// execution_engine_grpc_requires_test.go do.
func grpcDataSource(id string, conn grpc.ClientConnInterface, federated bool) (plan.DataSource, error) {
	factory, err := graphql_datasource.NewFactoryGRPC(context.Background(), conn)
	if err != nil {
		return nil, err
	}
	sdl, err := productsSDL()
	if err != nil {
		return nil, err
	}
	proto, err := grpctest.ProtoSchema()
	if err != nil {
		return nil, err
	}
	m := mapping.DefaultGRPCMapping()
	compiler, err := grpcdatasource.NewProtoCompiler(proto, m)
	if err != nil {
		return nil, err
	}
	var fedCfg *graphql_datasource.FederationConfiguration
	if federated {
		fedCfg = &graphql_datasource.FederationConfiguration{Enabled: true, ServiceSDL: sdl}
	}
	sc, err := graphql_datasource.NewSchemaConfiguration(sdl, fedCfg)
	if err != nil {
		return nil, err
	}
	cfg, err := graphql_datasource.NewConfiguration(graphql_datasource.ConfigurationInput{
		GRPC:                &grpcdatasource.GRPCConfiguration{Mapping: m, Compiler: compiler},
		SchemaConfiguration: sc,
	})
	if err != nil {
		return nil, err
	}
	return plan.NewDataSourceConfiguration[graphql_datasource.Configuration](id, factory, grpctest.GetDataSourceMetadata(), cfg)
}

func newEngine(sdl string, dss []plan.DataSource, fcs plan.FieldConfigurations) (*engine.ExecutionEngine, *graphql.Schema, error) {
	schema, err := graphql.NewSchemaFromString(sdl)
	if err != nil {
		return nil, nil, err
	}
	conf := engine.NewConfiguration(schema)
	conf.SetDataSources(dss)
	conf.SetFieldConfigurations(fcs)
	eng, err := engine.NewExecutionEngine(context.Background(), abstractlogger.Noop{}, conf, resolve.ResolverOptions{
		MaxConcurrency:               1024,
		PropagateSubgraphErrors:      true,
		SubgraphErrorPropagationMode: resolve.SubgraphErrorPropagationModeWrapped,
	})
	return eng, schema, err
}

func newPlainRig(conn *recConn) (*rig, error) {
	ds, err := grpcDataSource("id", conn, false)
	if err != nil {
		return nil, err
	}
	sdl, err := productsSDL()
	if err != nil {
		return nil, err
	}
	eng, sch, err := newEngine(sdl, []plan.DataSource{ds}, grpctest.GetFieldConfigurations())
	if err != nil {
		return nil, err
	}
	return &rig{name: "plain", eng: eng, conn: conn, sdl: sdl, sch: sch}, nil
}

// ---- federated rig: an owning subgraph (in-process) + the gRPC subgraph --------------------

// The owning subgraph owns the entity root fields and every field the gRPC subgraph marks
// @external; the gRPC subgraph contributes name/location, the @requires fields and the field
// resolvers through entity lookups (LookupStorageById, RequireStorage…ById, ResolveStorage…).
const fedQueryFields = `
  storage(id: ID!): Storage
  storages: [Storage!]!
  warehouse(id: ID!): Warehouse
  product(id: ID!): Product
  products: [Product!]!
`

const owningSDL = `
type Query {` + fedQueryFields + `}
type Storage @key(fields: "id") {
  id: ID!
  itemCount: Int!
  restockData: RestockData!
  tags: [String!]!
  optionalTags: [String!]
  metadata: StorageMetadata!
  metadataHistory: [StorageMetadata!]!
  storageKind: CategoryKind!
  categoryInfo: StorageCategoryInfo!
  primaryItem: StorageItem!
  lastStorageOperation: StorageOperationResult!
  securitySetup: SecuritySetup!
}
type Warehouse @key(fields: "id") {
  id: ID!
  inventoryCount: Int!
  restockData: RestockData!
}
type Product @key(fields: "id") {
  id: ID!
}
type RestockData { lastRestockDate: String! }
type StorageMetadata { capacity: Int! zone: String! priority: Int! }
type StorageCategoryInfo { kind: CategoryKind! name: String! }
enum CategoryKind { BOOK ELECTRONICS FURNITURE OTHER }
interface StorageItem { id: ID! name: String! weight: Float! }
type PalletItem implements StorageItem { id: ID! name: String! weight: Float! palletCount: Int! handler: ItemHandler! specs: PalletSpecs! }
type ContainerItem implements StorageItem { id: ID! name: String! weight: Float! containerSize: String! handler: ItemHandler! specs: ContainerSpecs! }
type ItemHandler { id: ID! name: String! assignedItem: StorageItem! }
type PalletSpecs { name: String! maxWeight: Float! dimensions: Dimensions! }
type ContainerSpecs { name: String! volume: Float! dimensions: Dimensions! }
type Dimensions { length: Float! width: Float! height: Float! }
union StorageOperationResult = StorageSuccess | StorageFailure
type StorageSuccess { message: String! completedAt: String! }
type StorageFailure { message: String! errorCode: String! }
type SecuritySetup { securityLevel: String! primaryItem: StorageItem! }
`

func owningMetadata() *plan.DataSourceMetadata {
	return &plan.DataSourceMetadata{
		RootNodes: []plan.TypeField{
			{TypeName: "Query", FieldNames: []string{"storage", "storages", "warehouse", "product", "products"}},
			{TypeName: "Storage", FieldNames: []string{"id", "itemCount", "restockData", "tags", "optionalTags", "metadata", "metadataHistory", "storageKind", "categoryInfo", "primaryItem", "lastStorageOperation", "securitySetup"}},
			{TypeName: "Warehouse", FieldNames: []string{"id", "inventoryCount", "restockData"}},
			{TypeName: "Product", FieldNames: []string{"id"}},
		},
		ChildNodes: []plan.TypeField{
			{TypeName: "RestockData", FieldNames: []string{"lastRestockDate"}},
			{TypeName: "StorageMetadata", FieldNames: []string{"capacity", "zone", "priority"}},
			{TypeName: "StorageCategoryInfo", FieldNames: []string{"kind", "name"}},
			{TypeName: "StorageItem", FieldNames: []string{"id", "name", "weight"}},
			{TypeName: "PalletItem", FieldNames: []string{"id", "name", "weight", "palletCount", "handler", "specs"}},
			{TypeName: "ContainerItem", FieldNames: []string{"id", "name", "weight", "containerSize", "handler", "specs"}},
			{TypeName: "ItemHandler", FieldNames: []string{"id", "name", "assignedItem"}},
			{TypeName: "PalletSpecs", FieldNames: []string{"name", "maxWeight", "dimensions"}},
			{TypeName: "ContainerSpecs", FieldNames: []string{"name", "volume", "dimensions"}},
			{TypeName: "Dimensions", FieldNames: []string{"length", "width", "height"}},
			{TypeName: "StorageSuccess", FieldNames: []string{"message", "completedAt"}},
			{TypeName: "StorageFailure", FieldNames: []string{"message", "errorCode"}},
			{TypeName: "SecuritySetup", FieldNames: []string{"securityLevel", "primaryItem"}},
		},
		FederationMetaData: plan.FederationMetaData{
			Keys: plan.FederationFieldConfigurations{
				{TypeName: "Storage", SelectionSet: "id"},
				{TypeName: "Warehouse", SelectionSet: "id"},
				{TypeName: "Product", SelectionSet: "id"},
			},
		},
	}
}

func newFedRig(conn *recConn) (*rig, error) {
	grpcDS, err := grpcDataSource("grpc-subgraph", conn, true)
	if err != nil {
		return nil, err
	}
	sc, err := graphql_datasource.NewSchemaConfiguration(owningSDL, &graphql_datasource.FederationConfiguration{Enabled: true, ServiceSDL: owningSDL})
	if err != nil {
		return nil, err
	}
	cfg, err := graphql_datasource.NewConfiguration(graphql_datasource.ConfigurationInput{
		Fetch:               &graphql_datasource.FetchConfiguration{URL: "http://owning.invalid/graphql"},
		SchemaConfiguration: sc,
	})
	if err != nil {
		return nil, err
	}
	hc := &http.Client{Transport: owningTransport{}}
	factory, err := graphql_datasource.NewFactory(context.Background(), hc, graphql_datasource.NewGraphQLSubscriptionClient(context.Background(),
		graphql_datasource.WithUpgradeClient(hc), graphql_datasource.WithStreamingClient(hc)))
	if err != nil {
		return nil, err
	}
	owningDS, err := plan.NewDataSourceConfiguration[graphql_datasource.Configuration]("owning-subgraph", factory, owningMetadata(), cfg)
	if err != nil {
		return nil, err
	}
	sdl, err := productsSDL()
	if err != nil {
		return nil, err
	}
	// supergraph schema: the products schema with the owning subgraph's root fields instead
	// of the gRPC root fields
	i := strings.Index(sdl, "type Query {")
	j := strings.Index(sdl[i:], "\n}")
	if i < 0 || j < 0 {
		return nil, fmt.Errorf("cannot locate type Query in products.graphqls")
	}
	super := sdl[:i] + "type Query {" + fedQueryFields + sdl[i+j:]
	fcs := append(plan.FieldConfigurations{}, grpctest.GetFieldConfigurations()...)
	for _, f := range []string{"storage", "warehouse", "product"} {
		fcs = append(fcs, plan.FieldConfiguration{TypeName: "Query", FieldName: f,
			Arguments: []plan.ArgumentConfiguration{{Name: "id", SourceType: plan.FieldArgumentSource}}})
	}
	eng, sch, err := newEngine(super, []plan.DataSource{owningDS, grpcDS}, fcs)
	if err != nil {
		return nil, err
	}
	return &rig{name: "fed", eng: eng, conn: conn, sdl: super, sch: sch}, nil
}

// owningTransport answers the owning subgraph's requests in-process: it projects the fixed
// data below through the selection of the incoming operation (aliases, inline fragments,
// __typename, the id argument of the root fields).
type owningTransport struct{}

func (owningTransport) RoundTrip(req *http.Request) (*http.Response, error) {
	body, _ := io.ReadAll(req.Body)
	var in struct {
		Query     string         `json:"query"`
		Variables map[string]any `json:"variables"`
	}
	out := map[string]any{}
	if err := json.Unmarshal(body, &in); err != nil {
		out["errors"] = []any{map[string]any{"message": "owning subgraph: bad request: " + err.Error()}}
	} else if data, err := owningExecute(in.Query, in.Variables); err != nil {
		out["errors"] = []any{map[string]any{"message": "owning subgraph: " + err.Error()}}
	} else {
		out["data"] = data
	}
	b, _ := json.Marshal(out)
	return &http.Response{StatusCode: 200, Status: "200 OK", Proto: "HTTP/1.1", ProtoMajor: 1, ProtoMinor: 1,
		Header: http.Header{"Content-Type": []string{"application/json"}}, Body: io.NopCloser(bytes.NewReader(b)),
		ContentLength: int64(len(b)), Request: req}, nil
}

func palletItem(n int) map[string]any {
	return map[string]any{"__typename": "PalletItem", "id": fmt.Sprintf("pallet-%d", n), "name": fmt.Sprintf("Pallet %d", n), "weight": 10.5 * float64(n), "palletCount": 3 * n,
		"handler": map[string]any{"__typename": "ItemHandler", "id": fmt.Sprintf("handler-p%d", n), "name": fmt.Sprintf("Pallet crew %d", n),
			"assignedItem": map[string]any{"__typename": "ContainerItem", "id": fmt.Sprintf("assigned-c%d", n), "name": fmt.Sprintf("Assigned container %d", n), "weight": 2.5, "containerSize": "20ft",
				"handler": nil, "specs": nil}},
		"specs": map[string]any{"__typename": "PalletSpecs", "name": fmt.Sprintf("EUR-%d", n), "maxWeight": 1500.0, "dimensions": map[string]any{"__typename": "Dimensions", "length": 120.0, "width": 80.0, "height": 14.4}}}
}

func containerItem(n int) map[string]any {
	return map[string]any{"__typename": "ContainerItem", "id": fmt.Sprintf("container-%d", n), "name": fmt.Sprintf("Container %d", n), "weight": 100.25 * float64(n), "containerSize": fmt.Sprintf("%dft", 20*n),
		"handler": map[string]any{"__typename": "ItemHandler", "id": fmt.Sprintf("handler-c%d", n), "name": fmt.Sprintf("Dock crew %d", n),
			"assignedItem": map[string]any{"__typename": "PalletItem", "id": fmt.Sprintf("assigned-p%d", n), "name": fmt.Sprintf("Assigned pallet %d", n), "weight": 7.0, "palletCount": 7,
				"handler": nil, "specs": nil}},
		"specs": map[string]any{"__typename": "ContainerSpecs", "name": fmt.Sprintf("ISO-%d", n), "volume": 33.2, "dimensions": map[string]any{"__typename": "Dimensions", "length": 606.0, "width": 244.0, "height": 259.0}}}
}

func owningStorage(id string) map[string]any {
	n := 0
	for _, c := range id {
		n = (n*31 + int(c)) % 7
	}
	n++
	kinds := []string{"BOOK", "ELECTRONICS", "FURNITURE", "OTHER"}
	zones := []string{"A", "B", "C", "D"}
	var optionalTags any
	if n%3 != 0 {
		optionalTags = []any{"opt-" + id, "extra"}[:1+n%2]
	}
	tags := []any{"alpha-" + id, "beta", "apricot"}[:1+n%3]
	var item, item2 map[string]any
	var op map[string]any
	if n%2 == 0 {
		item, item2 = palletItem(n), containerItem(n+1)
		op = map[string]any{"__typename": "StorageSuccess", "message": "stored " + id, "completedAt": "2024-02-01T00:00:00Z"}
	} else {
		item, item2 = containerItem(n), palletItem(n+1)
		op = map[string]any{"__typename": "StorageFailure", "message": "Disk full " + id, "errorCode": "E_DISK"}
	}
	return map[string]any{"__typename": "Storage", "id": id, "itemCount": 40 * n,
		"restockData": map[string]any{"__typename": "RestockData", "lastRestockDate": fmt.Sprintf("2021-01-%02d", n)},
		"tags":        tags, "optionalTags": optionalTags,
		"metadata": map[string]any{"__typename": "StorageMetadata", "capacity": 60 * n, "zone": zones[n%4], "priority": n},
		"metadataHistory": []any{
			map[string]any{"__typename": "StorageMetadata", "capacity": 10 * n, "zone": zones[(n+1)%4], "priority": 1},
			map[string]any{"__typename": "StorageMetadata", "capacity": 20 * n, "zone": zones[(n+2)%4], "priority": 2}},
		"storageKind":          kinds[n%4],
		"categoryInfo":         map[string]any{"__typename": "StorageCategoryInfo", "kind": kinds[(n+1)%4], "name": "Info " + id},
		"primaryItem":          item,
		"lastStorageOperation": op,
		"securitySetup":        map[string]any{"__typename": "SecuritySetup", "securityLevel": []string{"LOW", "HIGH"}[n%2], "primaryItem": item2},
	}
}

func owningWarehouse(id string) map[string]any {
	return map[string]any{"__typename": "Warehouse", "id": id, "inventoryCount": 200 + len(id),
		"restockData": map[string]any{"__typename": "RestockData", "lastRestockDate": "2021-01-02"}}
}

func owningProduct(id string) map[string]any {
	return map[string]any{"__typename": "Product", "id": id}
}

var owningAbstract = map[string][]string{
	"StorageItem":            {"PalletItem", "ContainerItem"},
	"StorageOperationResult": {"StorageSuccess", "StorageFailure"},
}

func owningExecute(query string, vars map[string]any) (map[string]any, error) {
	doc, err := parser.ParseQuery(&ast.Source{Input: query})
	if err != nil {
		return nil, err
	}
	if len(doc.Operations) != 1 {
		return nil, fmt.Errorf("expected one operation")
	}
	argID := func(f *ast.Field) (string, error) {
		a := f.Arguments.ForName("id")
		if a == nil {
			return "", fmt.Errorf("%s: missing id", f.Name)
		}
		v, err := a.Value.Value(vars)
		if err != nil {
			return "", err
		}
		return fmt.Sprint(v), nil
	}
	out := map[string]any{}
	for _, s := range doc.Operations[0].SelectionSet {
		f, ok := s.(*ast.Field)
		if !ok {
			return nil, fmt.Errorf("owning subgraph: unsupported root selection %T", s)
		}
		var val any
		switch f.Name {
		case "__typename":
			out[f.Alias] = "Query"
			continue
		case "storage":
			id, err := argID(f)
			if err != nil {
				return nil, err
			}
			if id != "missing" {
				val = owningStorage(id)
			}
		case "warehouse":
			id, err := argID(f)
			if err != nil {
				return nil, err
			}
			val = owningWarehouse(id)
		case "product":
			id, err := argID(f)
			if err != nil {
				return nil, err
			}
			val = owningProduct(id)
		case "storages":
			val = []any{owningStorage("s1"), owningStorage("s2"), owningStorage("s3"), owningStorage("s4")}
		case "products":
			val = []any{owningProduct("p1"), owningProduct("p2"), owningProduct("p3")}
		case "_entities":
			// the planner may ask the owning subgraph for @external inputs by key
			reps, _ := vars["representations"].([]any)
			var l []any
			for _, r := range reps {
				m, _ := r.(map[string]any)
				id := fmt.Sprint(m["id"])
				switch m["__typename"] {
				case "Storage":
					l = append(l, owningStorage(id))
				case "Warehouse":
					l = append(l, owningWarehouse(id))
				case "Product":
					l = append(l, owningProduct(id))
				default:
					l = append(l, nil)
				}
			}
			val = l
		default:
			return nil, fmt.Errorf("owning subgraph: unknown root field %s", f.Name)
		}
		p, err := owningProject(val, f.SelectionSet)
		if err != nil {
			return nil, err
		}
		out[f.Alias] = p
	}
	return out, nil
}

func owningProject(v any, sel ast.SelectionSet) (any, error) {
	switch x := v.(type) {
	case nil:
		return nil, nil
	case []any:
		if len(sel) == 0 {
			return x, nil
		}
		out := make([]any, len(x))
		for i := range x {
			p, err := owningProject(x[i], sel)
			if err != nil {
				return nil, err
			}
			out[i] = p
		}
		return out, nil
	case map[string]any:
		out := map[string]any{}
		if err := owningCollect(x, sel, out); err != nil {
			return nil, err
		}
		return out, nil
	default:
		return x, nil
	}
}

func owningCollect(obj map[string]any, sel ast.SelectionSet, out map[string]any) error {
	tn, _ := obj["__typename"].(string)
	for _, s := range sel {
		switch x := s.(type) {
		case *ast.Field:
			val, ok := obj[x.Name]
			if !ok {
				return fmt.Errorf("owning subgraph: %s has no field %s", tn, x.Name)
			}
			p, err := owningProject(val, x.SelectionSet)
			if err != nil {
				return err
			}
			out[x.Alias] = p
		case *ast.InlineFragment:
			applies := x.TypeCondition == "" || x.TypeCondition == tn
			for _, m := range owningAbstract[x.TypeCondition] {
				if m == tn {
					applies = true
				}
			}
			if applies {
				if err := owningCollect(obj, x.SelectionSet, out); err != nil {
					return err
				}
			}
		default:
			return fmt.Errorf("owning subgraph: unsupported selection %T", s)
		}
	}
	return nil
}
