#!/bin/bash
# sweep.sh <tier> <seed> <outdir> [--scale F] <ids...>: runs ./check for each id on the current trees with
# evidence and replays in <outdir> (never in /verif/evidence) and appends one line per check to <outdir>/summary.txt
tier=$1; seed=$2; out=$3; shift 3
extra=""
if [ "$1" = "--scale" ]; then extra="--scale $2"; shift 2; fi
mkdir -p $out
export GOFLAGS=-mod=mod GOPROXY=off
cd /verif
for c in "$@"; do
  VERIF_SEED=$seed VERIF_EVIDENCE_DIR=$out/ev VERIF_REPLAYS_DIR=$out/rp-$c ./check $c $tier $extra > $out/$c.log 2>&1
  echo "$c exit=$? $(grep -v '^KNOWN' $out/$c.log | tail -1)" >> $out/summary.txt
done
echo ALLDONE >> $out/summary.txt
