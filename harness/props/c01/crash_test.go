package c01

import (
	"context"
	"encoding/json"
	"fmt"
	"os"
	"os/exec"
	"runtime/debug"
	"strings"
	"testing"
	"time"

	"verif/harness/internal/fedgen"
	"verif/harness/internal/kit"
	"verif/harness/internal/opgen"
	"verif/harness/pbt"
)

const fRequiresCycle = "C01-requires-cycle-between-subgraphs"

// TestCrashChild executes one saved case in this process; it is only run as a child of
// probeRequiresCycle, because the recorded defect is a fatal stack overflow.
func TestCrashChild(t *testing.T) {
	f := os.Getenv("C01_CRASH_CHILD")
	if f == "" {
		t.Skip("child of the crash probe only")
	}
	debug.SetMaxStack(64 << 20)
	raw, err := os.ReadFile(f)
	if err != nil {
		t.Fatal(err)
	}
	var c struct {
		Layout *fedgen.Layout `json:"layout"`
		Seed   uint64         `json:"seed"`
		Query  string         `json:"query"`
	}
	if err := json.Unmarshal(raw, &c); err != nil {
		t.Fatal(err)
	}
	gw, err := kit.New(c.Layout, c.Seed, kit.EngineOptions{})
	if err != nil {
		t.Fatal(err)
	}
	defer gw.Close()
	res := gw.Execute(opgen.Op{Query: c.Query})
	fmt.Println("CHILD-DONE err:", res.Err, "panic:", res.Panic != "", "body:", res.Body)
}

// probeRequiresCycle runs the saved case in a child process and reports how it died.
func probeRequiresCycle() string {
	exe, err := os.Executable()
	if err != nil {
		return ""
	}
	ctx, cancel := context.WithTimeout(context.Background(), 120*time.Second)
	defer cancel()
	cmd := exec.CommandContext(ctx, exe, "-test.run", "^TestCrashChild$", "-test.count=1")
	cmd.Env = append(os.Environ(), "C01_CRASH_CHILD=known/requires-cycle-between-subgraphs.crashcase")
	out, err := cmd.CombinedOutput()
	s := string(out)
	switch {
	case strings.Contains(s, "fatal error: stack overflow") || strings.Contains(s, "goroutine stack exceeds"):
		return "planning '{ e1 { chain_f3 req_f4 } }' kills the process: fatal error: stack overflow in postprocess.(*orderSequenceByDependencies).nodeDependsOn (cyclic fetch dependencies)"
	case strings.Contains(s, "CHILD-DONE"):
		return ""
	case err != nil:
		first := s
		if len(first) > 300 {
			first = first[:300]
		}
		return "child process failed: " + err.Error() + ": " + first
	}
	return ""
}

func crashProbes() pbt.Probes {
	return pbt.Probes{fRequiresCycle: {Input: "known/requires-cycle-between-subgraphs.crashcase", Fn: probeRequiresCycle}}
}
