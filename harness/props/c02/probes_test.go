package c02

import (
	"fmt"
	"strings"

	"verif/harness/pbt"
)

const probeSDL = `schema { query: Query }
type Query { me: User users: [User] m: [[String!]] }
type User { name: String friend: User }
`

type probeInput struct {
	SDL  string `json:"sdl"`
	Op   string `json:"op"`
	Data string `json:"data"`
}

func probeRender(in probeInput) (rendered, error) {
	w, err := getWorld(in.SDL)
	if err != nil {
		return rendered{}, err
	}
	pl := w.planTree(in.Op)
	if pl.err != "" {
		return rendered{}, fmt.Errorf("%s", pl.err)
	}
	return renderResolvable(pl.resp, []byte(in.Data)), nil
}

var dupPathProbes = []struct {
	in   probeInput
	want string // the response path of the offending position
	got  string // what the defect produces
}{
	{probeInput{probeSDL, `{ me { name } }`, `{"me":"str"}`}, "/me", "/me/me"},
	{probeInput{probeSDL, `{ users { name } }`, `{"users":{}}`}, "/users", "/users/users"},
	{probeInput{probeSDL, `{ me { friend { name } } }`, `{"me":{"friend":[]}}`}, "/me/friend", "/me/friend/friend"},
}

func probes() pbt.Probes {
	return pbt.Probes{
		findingDupPath: {
			Input: dupPathProbes[0].in,
			Fn: func() string {
				var hits []string
				for _, p := range dupPathProbes {
					r, err := probeRender(p.in)
					if err != nil {
						return "" // cannot run the probe: say nothing
					}
					_, _, errs, problem := envelope(r.out)
					if problem != "" {
						continue
					}
					for _, e := range errs {
						if e.hasPath && pathKey(e.path) == p.got {
							hits = append(hits, fmt.Sprintf("%s with %s -> error %q has path %s, offending position is %s", p.in.Op, p.in.Data, e.message, p.got, p.want))
						}
					}
				}
				return strings.Join(hits, "; ")
			},
		},
		findingPanic: {
			Input: probeInput{probeSDL, `{ m }`, `{"m":[["a",null]]}`},
			Fn: func() string {
				r, err := probeRender(probeInput{probeSDL, `{ m }`, `{"m":[["a",null]]}`})
				if err != nil {
					return ""
				}
				if r.panicked != "" {
					return fmt.Sprintf("{ m } (m: [[String!]]) with {\"m\":[[\"a\",null]]} -> Resolvable.Resolve panics: %s", r.panicked)
				}
				return ""
			},
		},
	}
}
