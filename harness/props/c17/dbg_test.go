package c17

import (
	"fmt"
	"os"
	"testing"

	"verif/harness/pbt"
)

func TestDbg(t *testing.T) {
	sdl := os.Getenv("DBG_SDL")
	l, why := load(sdl, &pbt.Rec{})
	if l == nil {
		t.Fatal(why)
	}
	eng, err := newEngine(l.schema, l.truth)
	if err != nil {
		t.Fatal(err)
	}
	defer eng.close()
	_, raw, err := eng.run(os.Getenv("DBG_Q"), os.Getenv("DBG_V"))
	fmt.Println("ERR", err)
	fmt.Println("RAW", raw)
}

