package c05

import (
	"fmt"
	"sort"
	"strconv"
	"strings"
	"unicode/utf8"
)

// sn is one node of a document *shape*: the kind tree with names and literal bytes, positions
// ignored (DESIGN §4 C05). Three independent producers build shapes: the grammar generator
// (expected shape of what it wrote), shapeAST (walk over the astparser document) and shapeGQ
// (walk over gqlparser's AST).
//
// Conventions shared by all producers:
//   - kinds are the short strings used below ("op", "field", "arg", "int", …);
//   - a regular string value / description carries its *raw* content (escape sequences
//     undecoded) under kind "string"/"desc"; a block string carries its BlockStringValue()
//     under kind "blockstring"/"descblock" (the printer is allowed to re-indent block strings,
//     so raw bytes are not a round-trip invariant, the value is);
//   - directive locations are a sorted set; everything else is ordered.
type sn struct {
	K string `json:"k"`
	V string `json:"v,omitempty"`
	C []*sn  `json:"c,omitempty"`
}

func mk(k, v string, c ...*sn) *sn {
	n := &sn{K: k, V: v}
	for _, x := range c {
		if x != nil {
			n.C = append(n.C, x)
		}
	}
	return n
}

func (n *sn) add(c ...*sn) *sn {
	for _, x := range c {
		if x != nil {
			n.C = append(n.C, x)
		}
	}
	return n
}

func (n *sn) write(b *strings.Builder) {
	b.WriteString(n.K)
	if n.V != "" {
		b.WriteByte(':')
		b.WriteString(strconv.QuoteToASCII(n.V))
	}
	if len(n.C) > 0 {
		b.WriteByte('(')
		for i, c := range n.C {
			if i > 0 {
				b.WriteByte(' ')
			}
			c.write(b)
		}
		b.WriteByte(')')
	}
}

func (n *sn) String() string {
	if n == nil {
		return "<nil>"
	}
	var b strings.Builder
	n.write(&b)
	return b.String()
}

// diffShape returns "" when a and b are equal, otherwise a short description of the first
// difference (path + both sides, truncated).
func diffShape(a, b *sn) string {
	return diffAt(a, b, "")
}

func trunc(s string, n int) string {
	if len(s) <= n {
		return s
	}
	return s[:n] + "…"
}

func diffAt(a, b *sn, path string) string {
	if a == nil || b == nil {
		if a == b {
			return ""
		}
		return fmt.Sprintf("at %s: %s vs %s", path, trunc(a.String(), 200), trunc(b.String(), 200))
	}
	p := path + "/" + a.K
	if a.K != b.K || a.V != b.V {
		return fmt.Sprintf("at %s: %s:%q vs %s:%q", p, a.K, a.V, b.K, b.V)
	}
	for i := 0; i < len(a.C) && i < len(b.C); i++ {
		if d := diffAt(a.C[i], b.C[i], fmt.Sprintf("%s[%d]", p, i)); d != "" {
			return d
		}
	}
	if len(a.C) != len(b.C) {
		var extra *sn
		if len(a.C) > len(b.C) {
			extra = a.C[len(b.C)]
		} else {
			extra = b.C[len(a.C)]
		}
		return fmt.Sprintf("at %s: %d vs %d children (first unmatched: %s)", p, len(a.C), len(b.C), trunc(extra.String(), 200))
	}
	return ""
}

// census counts nodes and distinct kinds (non-triviality rule: >=5 nodes of >=3 kinds).
func (n *sn) census(kinds map[string]int) int {
	if n == nil {
		return 0
	}
	kinds[n.K]++
	t := 1
	for _, c := range n.C {
		t += c.census(kinds)
	}
	return t
}

func nonTrivialShape(n *sn) bool {
	k := map[string]int{}
	total := n.census(k)
	delete(k, "doc")
	return total-1 >= 5 && len(k) >= 3
}

// ---- string semantics (own implementations; gqlparser and the repo are not consulted) ----

// blockStringValue implements BlockStringValue() of the GraphQL spec (October 2021 §2.9.4) on
// the raw text between the triple quotes, including the \""" escape.
func blockStringValue(raw string) string {
	raw = strings.ReplaceAll(raw, `\"""`, `"""`)
	// split on \r\n | \n | \r
	var lines []string
	cur := 0
	for i := 0; i < len(raw); i++ {
		switch raw[i] {
		case '\n':
			lines = append(lines, raw[cur:i])
			cur = i + 1
		case '\r':
			lines = append(lines, raw[cur:i])
			if i+1 < len(raw) && raw[i+1] == '\n' {
				i++
			}
			cur = i + 1
		}
	}
	lines = append(lines, raw[cur:])
	indentOf := func(s string) int {
		n := 0
		for n < len(s) && (s[n] == ' ' || s[n] == '\t') {
			n++
		}
		return n
	}
	common := -1
	for i, l := range lines {
		if i == 0 {
			continue
		}
		ind := indentOf(l)
		if ind < len(l) && (common == -1 || ind < common) {
			common = ind
		}
	}
	if common > 0 {
		for i := 1; i < len(lines); i++ {
			if len(lines[i]) >= common {
				lines[i] = lines[i][common:]
			} else {
				lines[i] = ""
			}
		}
	}
	for len(lines) > 0 && indentOf(lines[0]) == len(lines[0]) {
		lines = lines[1:]
	}
	for len(lines) > 0 && indentOf(lines[len(lines)-1]) == len(lines[len(lines)-1]) {
		lines = lines[:len(lines)-1]
	}
	return strings.Join(lines, "\n")
}

// decodeString decodes the raw content of a regular (quoted) string per the spec escapes.
// ok=false when the content is not a valid StringValue body.
func decodeString(raw string) (string, bool) {
	var b strings.Builder
	for i := 0; i < len(raw); {
		c := raw[i]
		if c == '"' || c == '\n' || c == '\r' {
			return "", false
		}
		if c != '\\' {
			b.WriteByte(c)
			i++
			continue
		}
		if i+1 >= len(raw) {
			return "", false
		}
		i++
		switch raw[i] {
		case '"':
			b.WriteByte('"')
		case '\\':
			b.WriteByte('\\')
		case '/':
			b.WriteByte('/')
		case 'b':
			b.WriteByte('\b')
		case 'f':
			b.WriteByte('\f')
		case 'n':
			b.WriteByte('\n')
		case 'r':
			b.WriteByte('\r')
		case 't':
			b.WriteByte('\t')
		case 'u':
			// raw[i] == 'u', four hex digits follow
			if i+5 > len(raw) {
				return "", false
			}
			v, err := strconv.ParseUint(raw[i+1:i+5], 16, 32)
			if err != nil {
				return "", false
			}
			i += 4 // raw[i] is now the last hex digit
			r := rune(v)
			if r >= 0xD800 && r < 0xDC00 && i+7 <= len(raw) && raw[i+1] == '\\' && raw[i+2] == 'u' {
				if lo, err := strconv.ParseUint(raw[i+3:i+7], 16, 32); err == nil && lo >= 0xDC00 && lo < 0xE000 {
					r = 0x10000 + (r-0xD800)<<10 + (rune(lo) - 0xDC00)
					i += 6
				}
			}
			var buf [4]byte
			n := utf8.EncodeRune(buf[:], r)
			b.Write(buf[:n])
		default:
			return "", false
		}
		i++
	}
	return b.String(), true
}

// leftTrimLines removes the indentation of every line. gqlparser 2.5.30 computes the common
// indentation of a block string over all lines including the first (the spec excludes the
// first), so its value depends on the layout of the literal; the differential therefore
// compares block strings and descriptions modulo indentation. (The astparser-side shapes
// compare the exact BlockStringValue.)
func leftTrimLines(s string) string {
	lines := strings.Split(s, "\n")
	for i, l := range lines {
		lines[i] = strings.TrimLeft(l, " \t")
	}
	return strings.Join(lines, "\n")
}

// ---- view of a shape that gqlparser can be compared with ----

// rootGroup orders root nodes the way gqlparser groups them.
func rootGroup(k string) int {
	switch k {
	case "op":
		return 0
	case "fragment":
		return 1
	case "schema":
		return 2
	case "extend-schema":
		return 3
	case "directivedef":
		return 4
	}
	if strings.HasPrefix(k, "extend-") {
		return 6
	}
	return 5
}

// gview maps a shape to the form comparable with gqlparser's AST: root nodes grouped by
// category (gqlparser keeps one list per category), descriptions reduced to their decoded value
// (gqlparser does not keep the quoting style and cannot tell "" from none), regular strings
// decoded. ok=false when a string does not decode (then no comparison is attempted).
func gview(n *sn) (*sn, bool) {
	ok := true
	var rec func(n *sn) *sn
	rec = func(n *sn) *sn {
		out := &sn{K: n.K, V: n.V}
		switch n.K {
		case "desc":
			v, good := decodeString(n.V)
			if !good {
				ok = false
			}
			if v == "" {
				return nil
			}
			out.V = leftTrimLines(v)
		case "descblock":
			if n.V == "" {
				return nil
			}
			out.K = "desc"
			out.V = leftTrimLines(n.V)
		case "blockstring":
			out.V = leftTrimLines(n.V)
		case "string":
			v, good := decodeString(n.V)
			if !good {
				ok = false
			}
			out.V = v
		}
		for _, c := range n.C {
			if n.K == "field" && c.K == "alias" && c.V == n.V {
				continue // gqlparser cannot tell `a: a` from `a`
			}
			if x := rec(c); x != nil {
				out.C = append(out.C, x)
			}
		}
		return out
	}
	out := rec(n)
	if out != nil && out.K == "doc" {
		sort.SliceStable(out.C, func(i, j int) bool { return rootGroup(out.C[i].K) < rootGroup(out.C[j].K) })
	}
	return out, ok
}
