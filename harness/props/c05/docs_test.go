package c05

import (
	"sync/atomic"

	"verif/harness/pbt"
)

// docs part (DESIGN §4 C05 clauses 3 and 4): grammar-generated documents.
//
//   0. second opinion on the generator: gqlparser must accept the source and read it as the
//      generator's expected shape; otherwise the case is an *oracle disagreement* — dropped and
//      counted (target < 1 %, the run is inconclusive above 5 %);
//   1. the document is spec-valid by construction, so astparser must accept it;
//   2. bounds; the parsed shape must equal the expected shape;
//   3. for compact and indented printing: the print parses, to the same shape, and printing is
//      a fixed point;
//   4. gqlparser reads every print exactly as it read the source.
//
// Skipping steps 0 and 4 (label "no-differential"): mixed documents (gqlparser reads
// executable and type-system documents through different entry points), the September-2025
// descriptions on executable definitions and `extend interface … implements` (both unknown to
// gqlparser 2.5.30), \uD83D\uDE00-style surrogate pairs (gqlparser decodes each half on its own)
// and a leading BOM.

var docsPart = pbt.Part[docCase]{Name: "docs-roundtrip", Quick: 120000, Thorough: 2400000, Gen: genDoc, Check: checkDoc}

var debugDiscard func(reason, detail string) // development aid (TestExplore)

var (
	docsChecked   atomic.Int64 // cases that reached the differential pre-check
	docsDiscarded atomic.Int64 // dropped as oracle disagreement
)

func featSet(f []string) map[string]bool {
	m := make(map[string]bool, len(f))
	for _, x := range f {
		m[x] = true
	}
	return m
}

func checkDoc(c docCase, o *pbt.Rec) pbt.Verdict {
	defer enter("docs-roundtrip", []byte(c.Src))()
	feat := featSet(c.Feat)
	o.Label("docs:kind:" + c.Kind)
	for _, f := range c.Feat {
		o.Label("docs:" + f)
	}
	if c.Exp == nil {
		return pbt.Bad("case has no expected shape")
	}
	if nonTrivialShape(c.Exp) {
		o.NonTrivial(c.Src)
	}
	in := []byte(c.Src)

	var gq *gqExpect
	if c.Kind != "mixed" && !feat["exec-description"] && !feat["bom"] && !feat["string-surrogate-pair"] && !feat["implements:extend-interface"] {
		docsChecked.Add(1)
		expG, ok := gview(c.Exp)
		if !ok {
			docsDiscarded.Add(1)
			o.Discard("expected-shape-has-undecodable-string")
			return pbt.OK
		}
		g, err := gqParse(c.Src, c.Kind == "schema")
		if err != nil {
			docsDiscarded.Add(1)
			o.Discard("gqlparser-rejects-generated-source")
			if debugDiscard != nil {
				debugDiscard("rejects", err.Error()+" :: "+q(in))
			}
			return pbt.OK
		}
		if df := diffShape(expG, g); df != "" {
			docsDiscarded.Add(1)
			o.Discard("gqlparser-reads-source-differently-from-generator")
			if debugDiscard != nil {
				debugDiscard("differs", df+" :: "+q(in))
			}
			return pbt.OK
		}
		gq = &gqExpect{shape: expG, typeSystem: c.Kind == "schema"}
		o.Label("docs:differential")
	} else {
		o.Label("docs:no-differential")
	}

	d, rep := parseBytes(in)
	if rep.HasErrors() {
		msg := "spec-valid (grammar-generated"
		if gq != nil {
			msg += ", accepted by gqlparser"
		}
		msg += ") document is rejected: " + rep.Error() + ": " + q(in)
		if f := classifyRejected(c.Src, feat); f != "" {
			return pbt.BadKnown(f, "%s", msg)
		}
		return pbt.Bad("%s", msg)
	}
	_, shape, bmsg := bounds(d)
	if bmsg != "" {
		return pbt.Bad("accepted document has an out-of-bounds reference: %s (input %s)", bmsg, q(in))
	}
	if df := diffShape(c.Exp, shape); df != "" {
		return verdict(d, kShape, df, "", "document is parsed to a shape other than the one written (expected vs parsed): %s (input %s)", df, q(in))
	}
	v, _, _ := checkAccepted(d, in, o, gq)
	return v
}
