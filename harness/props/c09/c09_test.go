package c09

import (
	"bytes"
	"fmt"
	"os"
	"sort"
	"strings"

	"github.com/vektah/gqlparser/v2/ast"
	"github.com/vektah/gqlparser/v2/formatter"
	"github.com/vektah/gqlparser/v2/parser"
	"pgregory.net/rapid"

	"github.com/wundergraph/graphql-go-tools/v2/pkg/engine/plan"

	"verif/harness/internal/fedgen"
	"verif/harness/internal/ftree"
	"verif/harness/internal/kit"
	"verif/harness/internal/opgen"
	"verif/harness/internal/ref"
	"verif/harness/internal/sim"
	"verif/harness/pbt"
)

func allowFromEnv() map[string]bool {
	m := map[string]bool{}
	for _, c := range strings.Split(os.Getenv("C09_ALLOW"), ",") {
		if c != "" {
			m[c] = true
		}
	}
	return m
}

// ---------------------------------------------------------------- determinism

type detCase struct {
	Layout *fedgen.Layout `json:"layout"`
	Ops    []opgen.Op     `json:"ops"`
	// Reps is the number of further fresh planners compared with the first one (0: three);
	// saved regression cases of an order that depended on map iteration use more
	Reps int `json:"reps,omitempty"`
}

var detPart = pbt.Part[detCase]{Name: "plan-determinism", Journal: true, Quick: 1200, Thorough: 24000, Check: checkDet,
	Gen: func(t *rapid.T) detCase {
		l := fedgen.Gen(t, fedgen.Options{Allow: allowFromEnv()})
		super, err := sim.LoadSuper(l.Super)
		if err != nil {
			t.Fatalf("generator produced an invalid supergraph: %v", err)
		}
		c := detCase{Layout: l}
		n := rapid.IntRange(2, 6).Draw(t, "nops")
		for i := 0; i < n; i++ {
			c.Ops = append(c.Ops, opgen.Gen(t, super, opgen.Options{Mutations: true, Allow: allowFromEnv(), MaxDepth: 6, Budget: 30}))
		}
		return c
	}}

// fingerprint renders everything of a plan that decides requests and response shape.
func fingerprint(p plan.Plan) (string, int) {
	sp, ok := p.(*plan.SynchronousResponsePlan)
	if !ok || sp.Response == nil {
		return fmt.Sprintf("%T", p), 0
	}
	var sb strings.Builder
	sb.WriteString(ftree.Dump(sp.Response.Fetches))
	sb.WriteString("\n")
	leaves, _, _ := ftree.Leaves(sp.Response.Fetches)
	ids := make([]int, 0, len(leaves))
	for id := range leaves {
		ids = append(ids, id)
	}
	sort.Ints(ids)
	for _, id := range ids {
		l := leaves[id]
		fmt.Fprintf(&sb, "#%d path=%s ", id, l.Item.ResponsePath)
		if info := l.Item.Fetch.FetchInfo(); info != nil {
			fmt.Fprintf(&sb, "ds=%s ", info.DataSourceID)
		}
		sb.WriteString(ref.Dump(l.Item.Fetch))
		sb.WriteString("\n")
	}
	if sp.Response.Fetches != nil {
		if qp := sp.Response.Fetches.QueryPlan(); qp != nil {
			sb.WriteString(qp.PrettyPrint())
		}
	}
	sb.WriteString(ref.Dump(sp.Response.Data))
	return sb.String(), len(leaves)
}

func checkDet(c detCase, o *pbt.Rec) pbt.Verdict {
	gw, err := kit.New(c.Layout, 1, kit.EngineOptions{})
	if err != nil {
		return pbt.Bad("engine construction failed: %v", err)
	}
	defer gw.Close()
	// Planner instances are single use in every caller (ExecutionEngine.getCachedPlan builds a
	// new plan.Planner per plan; nothing documents reuse, and a reused instance panics in the
	// data source planner), so "independent of planner instance" is checked over fresh
	// instances with the other operations planned in between, and "previous plans" through
	// the engine's plan cache in the transparency part.
	for i, op := range c.Ops {
		if _, err := gw.World.Reference(op); err != nil {
			o.Label("oracle-disagreement:generator-vs-gqlparser")
			continue
		}
		p0, err := gw.Plan(op)
		if err != nil {
			o.Label("planning-failed(C01)")
			continue
		}
		fp0, nfetch := fingerprint(p0)
		for k := 0; k < max(c.Reps, 3); k++ {
			for j, other := range c.Ops {
				if j != i && k > 0 {
					_, _ = gw.Plan(other)
				}
			}
			p, err := gw.Plan(op)
			if err != nil {
				return pbt.Bad("planning the same operation again fails although it succeeded before: %v\noperation[%d]: %s", err, i, op.Query)
			}
			if fp, _ := fingerprint(p); fp != fp0 {
				return pbt.Bad("two fresh planners produce different plans for the same operation\noperation[%d]: %s\n--- first\n%s\n--- other\n%s", i, op.Query, fp0, fp)
			}
		}
		key := ""
		if nfetch >= 2 {
			key = ref.JSON(c.Layout.Subs) + op.Query
		}
		o.Sub(key)
	}
	return pbt.OK
}

// ---------------------------------------------------------------- transparency

type step struct {
	Op   int    `json:"op"`             // index into Ops
	Alt  int    `json:"alt"`            // -1 = original variables, else Ops[op].Alt[alt % len]
	Ren  bool   `json:"ren,omitempty"`  // variables renamed
	Name string `json:"name,omitempty"` // operation renamed to this
}

type transCase struct {
	Layout *fedgen.Layout `json:"layout"`
	Seed   uint64         `json:"seed"`
	Ops    []opgen.Op     `json:"ops"`
	Steps  []step         `json:"steps"`
}

var transPart = pbt.Part[transCase]{Name: "cache-and-options-transparency", Journal: true, Quick: 2000, Thorough: 24000, Check: checkTrans,
	Gen: func(t *rapid.T) transCase {
		l := fedgen.Gen(t, fedgen.Options{Allow: allowFromEnv()})
		super, err := sim.LoadSuper(l.Super)
		if err != nil {
			t.Fatalf("generator produced an invalid supergraph: %v", err)
		}
		c := transCase{Layout: l, Seed: rapid.Uint64Range(1, 1<<20).Draw(t, "useed")}
		n := rapid.IntRange(1, 3).Draw(t, "nops")
		for i := 0; i < n; i++ {
			c.Ops = append(c.Ops, opgen.Gen(t, super, opgen.Options{Mutations: true, ForceName: true, AltVars: 2, Allow: allowFromEnv(), MaxDepth: 6, Budget: 30}))
		}
		k := rapid.IntRange(3, 8).Draw(t, "nsteps")
		for i := 0; i < k; i++ {
			s := step{Op: rapid.IntRange(0, n-1).Draw(t, "op"), Alt: rapid.IntRange(-1, 1).Draw(t, "alt"), Ren: rapid.IntRange(0, 3).Draw(t, "ren") == 0}
			if rapid.IntRange(0, 4).Draw(t, "rename") == 0 {
				s.Name = "Renamed" + fmt.Sprint(rapid.IntRange(0, 3).Draw(t, "newname"))
			}
			c.Steps = append(c.Steps, s)
		}
		return c
	}}

func format(doc *ast.QueryDocument) string {
	var b bytes.Buffer
	formatter.NewFormatter(&b, formatter.WithIndent(" ")).FormatQueryDocument(doc)
	return strings.Join(strings.Fields(b.String()), " ")
}

func renameInValue(v *ast.Value, suffix string) {
	if v == nil {
		return
	}
	if v.Kind == ast.Variable {
		v.Raw += suffix
	}
	for _, c := range v.Children {
		renameInValue(c.Value, suffix)
	}
}

// materialise derives the request of one history step.
func materialise(c transCase, s step) (opgen.Op, bool) {
	base := c.Ops[s.Op%len(c.Ops)]
	op := opgen.Op{Query: base.Query, OperationName: base.OperationName, Variables: base.Variables}
	if s.Alt >= 0 && len(base.Alt) > 0 {
		op.Variables = base.Alt[s.Alt%len(base.Alt)]
	}
	if !s.Ren && s.Name == "" {
		return op, true
	}
	doc, err := parser.ParseQuery(&ast.Source{Input: base.Query})
	if err != nil || len(doc.Operations) == 0 {
		return op, false
	}
	if s.Ren {
		var walk func(set ast.SelectionSet)
		dirs := func(ds ast.DirectiveList) {
			for _, d := range ds {
				for _, a := range d.Arguments {
					renameInValue(a.Value, "_r")
				}
			}
		}
		walk = func(set ast.SelectionSet) {
			for _, sel := range set {
				switch x := sel.(type) {
				case *ast.Field:
					for _, a := range x.Arguments {
						renameInValue(a.Value, "_r")
					}
					dirs(x.Directives)
					walk(x.SelectionSet)
				case *ast.InlineFragment:
					dirs(x.Directives)
					walk(x.SelectionSet)
				case *ast.FragmentSpread:
					dirs(x.Directives)
				}
			}
		}
		for _, o := range doc.Operations {
			for _, vd := range o.VariableDefinitions {
				vd.Variable += "_r"
			}
			walk(o.SelectionSet)
		}
		for _, f := range doc.Fragments {
			walk(f.SelectionSet)
		}
		nv := map[string]any{}
		for k, v := range op.Variables {
			nv[k+"_r"] = v
		}
		op.Variables = nv
	}
	if s.Name != "" {
		for _, o := range doc.Operations {
			if o.Name == base.OperationName || len(doc.Operations) == 1 {
				o.Name = s.Name
			}
		}
		if op.OperationName != "" {
			op.OperationName = s.Name
		}
	}
	op.Query = format(doc)
	return op, true
}

var optionSets = []struct {
	name string
	o    kit.EngineOptions
}{
	{"multifetch", kit.EngineOptions{MultiFetch: true}},
	{"schedule", kit.EngineOptions{ScheduleFetches: true}},
	{"multifetch+schedule", kit.EngineOptions{MultiFetch: true, ScheduleFetches: true}},
	{"minify", kit.EngineOptions{Minify: true}},
	{"nodedupe", kit.EngineOptions{DisableDedupe: true}},
	{"all", kit.EngineOptions{MultiFetch: true, ScheduleFetches: true, Minify: true}},
}

type answer struct {
	data  string
	errs  string
	nerrs int
	reqs  []string
	bad   string
}

func exec(gw *kit.Gateway, op opgen.Op) answer {
	res := gw.Execute(op)
	a := answer{}
	switch {
	case res.Panic != "":
		a.bad = "panic: " + res.Panic
	case res.TimedOut:
		a.bad = "watchdog"
	case res.Err != nil:
		a.bad = "error: " + res.Err.Error()
	}
	for _, r := range res.Requests {
		a.reqs = append(a.reqs, r.Subgraph+" "+r.Body)
		if len(r.Complaints) > 0 && a.bad == "" {
			a.bad = "invalid subgraph request to " + r.Subgraph + ": " + strings.Join(r.Complaints, "; ") + " :: " + r.Body
		}
	}
	// as a set: identical concurrent requests may or may not be merged by single flight
	sort.Strings(a.reqs)
	uniq := a.reqs[:0]
	for i, r := range a.reqs {
		if i == 0 || r != a.reqs[i-1] {
			uniq = append(uniq, r)
		}
	}
	a.reqs = uniq
	if a.bad != "" {
		return a
	}
	v, err := ref.Decode([]byte(res.Body))
	if err != nil {
		a.bad = "invalid JSON: " + res.Body
		return a
	}
	m, _ := v.(map[string]any)
	a.data = ref.Canon(m["data"])
	es, _ := m["errors"].([]any)
	a.nerrs = len(es)
	var msgs []string
	for _, e := range es {
		em, _ := e.(map[string]any)
		msgs = append(msgs, ref.Canon(map[string]any{"message": em["message"], "path": em["path"]}))
	}
	sort.Strings(msgs)
	a.errs = strings.Join(msgs, "\n")
	return a
}

func checkTrans(c transCase, o *pbt.Rec) pbt.Verdict {
	w, err := sim.NewWorld(c.Layout, c.Seed)
	if err != nil {
		return pbt.Bad("layout does not load: %v", err)
	}
	shared, err := kit.NewOnWorld(w, kit.EngineOptions{})
	if err != nil {
		return pbt.Bad("engine construction failed: %v", err)
	}
	defer shared.Close()
	var optGws []*kit.Gateway
	for _, os := range optionSets {
		g, err := kit.NewOnWorld(w, os.o)
		if err != nil {
			return pbt.Bad("engine construction failed with options %s: %v", os.name, err)
		}
		defer g.Close()
		optGws = append(optGws, g)
	}
	seenPrint := map[string]string{} // operation text (without variables) → first variables
	cacheHitWithOtherVars, optionChangedRequests := false, false
	for si, s := range c.Steps {
		op, ok := materialise(c, s)
		if !ok {
			o.Label("step-not-materialisable")
			continue
		}
		if _, err := w.Reference(op); err != nil {
			o.Label("oracle-disagreement:generator-vs-gqlparser")
			continue
		}
		fresh, err := kit.NewOnWorld(w, kit.EngineOptions{})
		if err != nil {
			return pbt.Bad("engine construction failed: %v", err)
		}
		want := exec(fresh, op)
		fresh.Close()
		if want.bad != "" {
			// a fresh default engine failing on a valid request is C01's business
			o.Label("fresh-engine-fails(C01)")
			continue
		}
		ctx := func(name string, got answer) string {
			return fmt.Sprintf("\nstep %d of the history: %s\nvariables: %s\noperationName: %q\nengine: %s\n got data:  %s\n want data: %s\n got errors:  %s\n want errors: %s\n got requests:\n   %s\n fresh default engine requests:\n   %s",
				si, op.Query, op.VarsJSON(), op.OperationName, name, got.data, want.data, got.errs, want.errs, strings.Join(got.reqs, "\n   "), strings.Join(want.reqs, "\n   "))
		}
		// two fetches on one response path see each other's merged items, so which of them finds
		// something to send depends on the completion order of that run
		twins := false
		if p, err := shared.Plan(op); err == nil {
			if sp, ok := p.(*plan.SynchronousResponsePlan); ok && sp.Response != nil && sp.Response.Fetches != nil {
				twins = ftree.PathTwins(sp.Response.Fetches)
			}
		}
		if s.Ren {
			// renaming the variables (alpha-equivalent request) never changes the response: the
			// renamed request on a fresh engine against the original spelling on a fresh engine
			if orig, ok := materialise(c, step{Op: s.Op, Alt: s.Alt, Name: s.Name}); ok {
				f2, err := kit.NewOnWorld(w, kit.EngineOptions{})
				if err != nil {
					return pbt.Bad("engine construction failed: %v", err)
				}
				base := exec(f2, orig)
				f2.Close()
				if base.bad == "" && base.data == want.data && base.nerrs != want.nerrs && twins {
					// same as below: two runs of a plan with path twins differ in a redundant
					// request and, with it, in a repeated error entry
					return pbt.BadKnown(fScheduledTwin, "the error list differs between the runs of a request and of its renamed spelling (same data, plan with path twins)\n original errors: %s\n renamed errors: %s\n renamed: %s", base.errs, want.errs, op.Query)
				}
				if base.bad == "" && (base.data != want.data || base.nerrs != want.nerrs) {
					return pbt.Bad("renaming the variables of a request changes its response\n original: %s\n variables: %s\n  data: %s\n  errors: %s\n  requests:\n   %s\n renamed: %s\n variables: %s\n  data: %s\n  errors: %s\n  requests:\n   %s",
						orig.Query, orig.VarsJSON(), base.data, base.errs, strings.Join(base.reqs, "\n   "), op.Query, op.VarsJSON(), want.data, want.errs, strings.Join(want.reqs, "\n   "))
				}
				o.Label("renamed-variables-compared")
			}
		}
		got := exec(shared, op)
		if got.bad != "" {
			return pbt.Bad("the long-lived engine fails on a request a fresh engine answers: %s%s", got.bad, ctx("shared default", got))
		}
		if got.data == want.data && got.errs != want.errs && twins {
			// the redundant request of a path twin selected an err_ field: the data is the same but
			// the error list differs from run to run (recorded with the twin finding)
			return pbt.BadKnown(fScheduledTwin, "the error list differs between two runs of the same request (same data)%s", ctx("shared default", got))
		}
		if got.data != want.data || got.errs != want.errs {
			return pbt.Bad("the long-lived engine (plan cache, earlier requests) answers differently from a fresh engine%s", ctx("shared default", got))
		}
		if twins {
			o.Label("plan-with-path-twins(request-sets-not-compared)")
		}
		// request sets are observed, not demanded: the statement pins the response a client
		// receives; which redundant entity requests are sent can depend on the completion
		// order of concurrent fetches even without such twins (first seen as a flaky alarm)
		if fmt.Sprint(got.reqs) != fmt.Sprint(want.reqs) {
			o.Label("requests-differ-from-fresh-engine(observed)")
		}
		if first, seen := seenPrint[op.Query]; seen && first != op.VarsJSON() {
			cacheHitWithOtherVars = true
		} else if !seen {
			seenPrint[op.Query] = op.VarsJSON()
		}
		for oi, g := range optGws {
			name := optionSets[oi].name
			a := exec(g, op)
			if a.bad != "" {
				return pbt.Bad("with options %s the engine fails on a request the default engine answers: %s%s", name, a.bad, ctx(name, a))
			}
			if a.data != want.data {
				if twins && optionSets[oi].o.ScheduleFetches {
					return pbt.BadKnown("C09-scheduled-twin-fetch-runs-before-sibling-producer", "option set %s changes the response data%s", name, ctx(name, a))
				}
				return pbt.Bad("option set %s changes the response data%s", name, ctx(name, a))
			}
			if (a.nerrs == 0) != (want.nerrs == 0) {
				if twins {
					return pbt.BadKnown(fScheduledTwin, "option set %s changes whether the response reports errors (plan with path twins)%s", name, ctx(name, a))
				}
				return pbt.Bad("option set %s changes whether the response reports errors%s", name, ctx(name, a))
			}
			if fmt.Sprint(a.reqs) != fmt.Sprint(want.reqs) {
				optionChangedRequests = true
				o.Label("option-changed-requests:" + name)
			}
		}
	}
	if cacheHitWithOtherVars {
		o.Label("cache-hit-with-other-variables")
	}
	if cacheHitWithOtherVars || optionChangedRequests {
		o.NonTrivial(ref.JSON(c.Layout.Subs) + ref.JSON(c.Ops) + ref.JSON(c.Steps) + fmt.Sprint(c.Seed))
	}
	return pbt.OK
}
