package c19

import (
	"context"
	"os"
	"strconv"
	"testing"
	"time"

	"github.com/wundergraph/graphql-go-tools/execution/subscription"
	"github.com/wundergraph/graphql-go-tools/execution/subscription/websocket"
)

func TestTmpTeardownRace(t *testing.T) {
	n, _ := strconv.Atoi(os.Getenv("N"))
	if n == 0 {
		t.Skip()
	}
	q := Script{Op: "query", End: "ok", Gate: 0, OnCancel: "ignore", Rel: -1}
	c := Case{Proto: protoTWS, Msgs: []Msg{{K: "init"}, sub("1", q), sub("2", q), sub("3", q)}}
	for it := 0; it < n; it++ {
		r := newRig(c)
		ctx, cancel := context.WithCancel(context.Background())
		proto, _ := websocket.NewProtocolGraphQLTransportWSHandlerWithOptions(r, websocket.ProtocolGraphQLTransportWSHandlerOptions{CustomKeepAliveInterval: time.Hour, CustomInitTimeOutDuration: time.Hour})
		h, _ := subscription.NewUniversalProtocolHandlerWithOptions(r, proto, r, subscription.UniversalProtocolHandlerOptions{CustomSubscriptionUpdateInterval: time.Hour, CustomReadErrorTimeOut: time.Hour})
		done := make(chan struct{})
		go func() { defer close(done); h.Handle(ctx) }()
		cnt := func(k string) int {
			x := 0
			for _, e := range r.hist {
				if e.K == k {
					x++
				}
			}
			return x
		}
		for i, m := range c.Msgs {
			r.wait(wdReady, func() bool { return cnt(evRQ) > i })
			raw := wire(c.Proto, i, m)
			r.mu.Lock()
			r.cur = i
			r.logLocked(event{K: evR, M: i, Raw: string(raw), ID: m.ID})
			r.mu.Unlock()
			r.next <- raw
		}
		r.wait(wdReady, func() bool { return cnt(evRQ) > len(c.Msgs) && cnt(evXWAIT) == 3 })
		// client goes away and the queries finish at the same moment
		go func() {
			r.mu.Lock()
			r.connected = false
			close(r.closedCh)
			r.mu.Unlock()
		}()
		for _, x := range []int{1, 2, 3} {
			go r.execs[x].release()
		}
		<-done
		r.wait(wdDone, func() bool { return cnt(evXP) == 3 })
		cancel()
	}
}
