package c02

// The two drivers of the code under test. Only exported API of /repo is used.
//
//   (i)  planTree + renderResolvable: the exported pipeline the engine itself runs
//        (Request.Normalize / ValidateForSchema / Normalize(extract) / plan.NewPlanner.Plan /
//        postprocess.Process) followed by resolve.NewResolvable(nil, opts).Init + Resolve.
//   (ii) renderEngine: execution/engine with one GraphQL data source whose http.RoundTripper
//        answers every request with {"data": j}.

import (
	"bytes"
	"context"
	"fmt"
	"io"
	"net/http"
	"sort"
	"sync"

	"github.com/jensneuse/abstractlogger"
	"github.com/vektah/gqlparser/v2"
	gast "github.com/vektah/gqlparser/v2/ast"

	"github.com/wundergraph/graphql-go-tools/execution/engine"
	"github.com/wundergraph/graphql-go-tools/execution/graphql"
	"github.com/wundergraph/graphql-go-tools/v2/pkg/ast"
	"github.com/wundergraph/graphql-go-tools/v2/pkg/astnormalization"
	"github.com/wundergraph/graphql-go-tools/v2/pkg/engine/datasource/graphql_datasource"
	"github.com/wundergraph/graphql-go-tools/v2/pkg/engine/plan"
	"github.com/wundergraph/graphql-go-tools/v2/pkg/engine/postprocess"
	"github.com/wundergraph/graphql-go-tools/v2/pkg/engine/resolve"
	"github.com/wundergraph/graphql-go-tools/v2/pkg/operationreport"
)

type roundTripper struct {
	mu       sync.Mutex
	body     []byte
	requests int
	lastReq  []byte
}

func (r *roundTripper) RoundTrip(req *http.Request) (*http.Response, error) {
	var in []byte
	if req.Body != nil {
		in, _ = io.ReadAll(req.Body)
		_ = req.Body.Close()
	}
	r.mu.Lock()
	r.lastReq = in
	r.requests++
	b := append([]byte(nil), r.body...)
	r.mu.Unlock()
	return &http.Response{StatusCode: 200, Header: http.Header{"Content-Type": []string{"application/json"}},
		Body: io.NopCloser(bytes.NewReader(b)), Request: req}, nil
}

// world is everything derived from one SDL text (cached per process; a pure function of
// the SDL, so replays do not depend on the generator).
type world struct {
	sdl    string
	gs     *gast.Schema
	schema *graphql.Schema
	ds     plan.DataSource
	rt     *roundTripper
	eng    *engine.ExecutionEngine
	plans  map[string]*planned
	order  []string
}

type planned struct {
	resp *resolve.GraphQLResponse
	err  string // non-empty: the repo pipeline rejected the operation at this stage
}

var (
	worldMu sync.Mutex
	worlds  = map[string]*world{}
	bgCtx   = context.Background()
)

func getWorld(sdl string) (*world, error) {
	worldMu.Lock()
	defer worldMu.Unlock()
	if w, ok := worlds[sdl]; ok {
		return w, nil
	}
	gs, err := gqlparser.LoadSchema(&gast.Source{Name: "case", Input: sdl})
	if err != nil {
		return nil, fmt.Errorf("gqlparser rejects SDL: %v", err)
	}
	w := &world{sdl: sdl, gs: gs, rt: &roundTripper{}, plans: map[string]*planned{}}
	w.schema, err = graphql.NewSchemaFromString(sdl)
	if err != nil {
		return nil, fmt.Errorf("graphql.NewSchemaFromString: %v", err)
	}
	client := &http.Client{Transport: w.rt}
	factory, err := graphql_datasource.NewFactory(bgCtx, client, graphql_datasource.NewGraphQLSubscriptionClient(bgCtx,
		graphql_datasource.WithUpgradeClient(client), graphql_datasource.WithStreamingClient(client)))
	if err != nil {
		return nil, err
	}
	sc, err := graphql_datasource.NewSchemaConfiguration(sdl, nil)
	if err != nil {
		return nil, err
	}
	cfg, err := graphql_datasource.NewConfiguration(graphql_datasource.ConfigurationInput{
		Fetch:               &graphql_datasource.FetchConfiguration{URL: "http://sub/graphql", Method: "POST"},
		SchemaConfiguration: sc,
	})
	if err != nil {
		return nil, err
	}
	md := &plan.DataSourceMetadata{}
	var names []string
	for n := range gs.Types {
		names = append(names, n)
	}
	sort.Strings(names)
	for _, n := range names {
		def := gs.Types[n]
		if len(n) >= 2 && n[:2] == "__" {
			continue
		}
		if def.Kind != gast.Object && def.Kind != gast.Interface {
			continue
		}
		tf := plan.TypeField{TypeName: n}
		for _, fd := range def.Fields {
			if len(fd.Name) >= 2 && fd.Name[:2] == "__" {
				continue
			}
			tf.FieldNames = append(tf.FieldNames, fd.Name)
		}
		if gs.Query != nil && n == gs.Query.Name {
			md.RootNodes = append(md.RootNodes, tf)
		} else {
			md.ChildNodes = append(md.ChildNodes, tf)
		}
	}
	w.ds, err = plan.NewDataSourceConfiguration[graphql_datasource.Configuration]("sub", factory, md, cfg)
	if err != nil {
		return nil, err
	}
	worlds[sdl] = w
	return w, nil
}

// almost every case has a fresh operation; the cache only serves replays, probes and TestMinimize
const maxPlansPerWorld = 8

// planTree runs the exported pipeline exactly as ExecutionEngine.Execute does.
func (w *world) planTree(op string) *planned {
	if p, ok := w.plans[op]; ok {
		return p
	}
	p := w.planTreeUncached(op)
	if len(w.order) >= maxPlansPerWorld {
		delete(w.plans, w.order[0])
		w.order = w.order[1:]
	}
	w.plans[op] = p
	w.order = append(w.order, op)
	return p
}

func (w *world) planTreeUncached(op string) (out *planned) {
	defer func() {
		if p := recover(); p != nil {
			out = &planned{err: fmt.Sprintf("panic while planning: %v", p)}
		}
	}()
	req := graphql.Request{Query: op}
	res, err := req.Normalize(w.schema, astnormalization.WithRemoveFragmentDefinitions(), astnormalization.WithRemoveUnusedVariables(),
		astnormalization.WithInlineFragmentSpreads(), astnormalization.WithEnableDefer())
	if err != nil {
		return &planned{err: "normalize: " + err.Error()}
	}
	if !res.Successful {
		return &planned{err: "normalize: " + res.Errors.Error()}
	}
	v, err := req.ValidateForSchema(w.schema)
	if err != nil {
		return &planned{err: "validate: " + err.Error()}
	}
	if !v.Valid {
		return &planned{err: "validate: " + v.Errors.Error()}
	}
	res, err = req.Normalize(w.schema, astnormalization.WithExtractVariables())
	if err != nil {
		return &planned{err: "normalize2: " + err.Error()}
	}
	if !res.Successful {
		return &planned{err: "normalize2: " + res.Errors.Error()}
	}
	p, err := plan.NewPlanner(plan.Configuration{DataSources: []plan.DataSource{w.ds}, DisableResolveFieldPositions: true})
	if err != nil {
		return &planned{err: "planner: " + err.Error()}
	}
	var rep operationreport.Report
	pl := p.Plan(req.Document(), w.schema.Document(), "", &rep)
	if rep.HasErrors() {
		return &planned{err: "plan: " + rep.Error()}
	}
	postprocess.NewProcessor().Process(pl)
	sp, ok := pl.(*plan.SynchronousResponsePlan)
	if !ok {
		return &planned{err: fmt.Sprintf("plan: unexpected plan type %T", pl)}
	}
	return &planned{resp: sp.Response}
}

type rendered struct {
	out      []byte
	initErr  string // driver (i): Resolvable.Init refused the data (root not an object)
	err      string // error returned by Resolve / Execute
	panicked string
	requests int
}

// renderResolvable is driver (i).
func renderResolvable(resp *resolve.GraphQLResponse, data []byte, opts resolve.ResolvableOptions) (r rendered) {
	defer func() {
		if p := recover(); p != nil {
			r.panicked = fmt.Sprint(p)
		}
	}()
	res := resolve.NewResolvable(nil, opts)
	ctx := resolve.NewContext(context.Background())
	if err := res.Init(ctx, data, ast.OperationTypeQuery); err != nil {
		r.initErr = err.Error()
		return r
	}
	var buf bytes.Buffer
	if err := res.Resolve(context.Background(), resp.Data, nil, &buf); err != nil {
		r.err = err.Error()
	}
	r.out = buf.Bytes()
	return r
}

func (w *world) engine() (*engine.ExecutionEngine, error) {
	if w.eng != nil {
		return w.eng, nil
	}
	conf := engine.NewConfiguration(w.schema)
	conf.SetDataSources([]plan.DataSource{w.ds})
	eng, err := engine.NewExecutionEngine(bgCtx, abstractlogger.Noop{}, conf, resolve.ResolverOptions{MaxConcurrency: 8})
	if err != nil {
		return nil, err
	}
	w.eng = eng
	return eng, nil
}

// renderEngine is driver (ii).
func (w *world) renderEngine(op string, data []byte) (r rendered) {
	eng, err := w.engine()
	if err != nil {
		r.err = "engine: " + err.Error()
		return r
	}
	w.rt.mu.Lock()
	w.rt.body = append(append([]byte(`{"data":`), data...), '}')
	w.rt.requests = 0
	w.rt.mu.Unlock()
	defer func() {
		if p := recover(); p != nil {
			r.panicked = fmt.Sprint(p)
		}
		w.rt.mu.Lock()
		r.requests = w.rt.requests
		w.rt.mu.Unlock()
	}()
	req := graphql.Request{Query: op}
	wr := graphql.NewEngineResultWriter()
	if err := eng.Execute(context.Background(), &req, &wr); err != nil {
		r.err = err.Error()
	}
	r.out = wr.Bytes()
	return r
}

// treeStats describes the planner-built tree (labels only; the oracle never reads it).
type treeStats struct {
	nodes, depth              int
	onTypeNames, parentOnType int
	abstractObjects           int
	kinds                     map[string]int
}

func statsOf(resp *resolve.GraphQLResponse) treeStats {
	st := treeStats{kinds: map[string]int{}}
	var walk func(n resolve.Node, d int)
	walk = func(n resolve.Node, d int) {
		st.nodes++
		if d > st.depth {
			st.depth = d
		}
		switch x := n.(type) {
		case *resolve.Object:
			st.kinds["Object"]++
			if len(x.PossibleTypes) > 1 {
				st.abstractObjects++
			}
			for _, f := range x.Fields {
				if f.OnTypeNames != nil {
					st.onTypeNames++
				}
				if f.ParentOnTypeNames != nil {
					st.parentOnType++
				}
				walk(f.Value, d+1)
			}
		case *resolve.Array:
			st.kinds["Array"]++
			walk(x.Item, d)
		default:
			st.kinds[fmt.Sprintf("%T", n)]++
		}
	}
	if resp != nil && resp.Data != nil {
		walk(resp.Data, 0)
	}
	return st
}
