package c03

import (
	"encoding/json"

	"verif/harness/pbt"
)

func probes() pbt.Probes {
	return pbt.KnownCaseProbes("known", func(part string, raw json.RawMessage) pbt.Verdict {
		if part == canonPart.Name {
			return canonPart.CheckRaw(raw)
		}
		return semPart.CheckRaw(raw)
	})
}
