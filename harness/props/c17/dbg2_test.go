package c17

import (
	"fmt"
	"testing"

	gast "github.com/vektah/gqlparser/v2/ast"
	gparser "github.com/vektah/gqlparser/v2/parser"
	gvalidator "github.com/vektah/gqlparser/v2/validator"
	"pgregory.net/rapid"

	"github.com/wundergraph/graphql-go-tools/execution/graphql"
)

func TestDbgDiscards(t *testing.T) {
	seen := map[string]int{}
	n := 0
	rapid.Check(t, func(rt *rapid.T) {
		sdl, _ := genSDL(rt)
		if _, err := loadTruth(sdl); err != nil {
			fmt.Println("GQLPARSER REJECTS:", err, "\n", sdl)
			return
		}
		schema, err := graphql.NewSchemaFromString(sdl)
		if err != nil {
			fmt.Println("REPO PARSE REJECTS:", err, "\n", sdl)
			return
		}
		res, err := schema.Validate()
		if err != nil || !res.Valid {
			msg := ""
			for i := 0; i < res.Errors.Count(); i++ {
				msg += res.Errors.ErrorByIndex(i).Error() + " | "
			}
			
			seen[msg]++
			n++
			if n < 0 {
				fmt.Println("VALIDATION REJECTS:", res.Errors, "\n", sdl)
			}
		}
	})
	for k, v := range seen {
		fmt.Println(v, k)
	}
}

func TestDbgQueries(t *testing.T) {
	rapid.Check(t, func(rt *rapid.T) {
		c := genEngineCase(rt)
		truth2, err := loadTruthWithRepoBase(c.SDL)
		if err != nil {
			return
		}
		for _, q := range c.Queries {
			doc, perr := gparser.ParseQuery(&gast.Source{Input: q.Query})
			if perr != nil {
				fmt.Println("UNPARSABLE", perr, q.Query)
				continue
			}
			if errs := gvalidator.Validate(truth2, doc); len(errs) > 0 {
				fmt.Println("INVALID", errs, q.Query)
			}
		}
	})
}
