package c16

import (
	"context"
	"errors"
	"fmt"
	"hash/fnv"
	"net/http"
	"os"
	"sort"
	"strings"
	"sync"

	"pgregory.net/rapid"

	"github.com/wundergraph/graphql-go-tools/execution/engine"
	"github.com/wundergraph/graphql-go-tools/v2/pkg/caching"
	"github.com/wundergraph/graphql-go-tools/v2/pkg/engine/resolve"

	"verif/harness/internal/fedgen"
	"verif/harness/internal/kit"
	"verif/harness/internal/opgen"
	"verif/harness/internal/ref"
	"verif/harness/internal/sim"
	"verif/harness/pbt"
)

type cacheStep struct {
	Op     int    `json:"op"`
	Alt    int    `json:"alt"`
	H      Header `json:"header"`
	NoHdr  bool   `json:"no_header,omitempty"`
	Fault  string `json:"fault,omitempty"` // "", get-error, set-error, drop-keys, empty-values
	FaultN int    `json:"fault_n,omitempty"`
}

type cacheCase struct {
	Layout *fedgen.Layout `json:"layout"`
	Seed   uint64         `json:"seed"`
	Ops    []opgen.Op     `json:"ops"`
	Steps  []cacheStep    `json:"steps"`
	// NullEvery > 0: every subgraph answers null in _entities for the representations whose
	// hash is divisible by it (an entity the subgraph does not know), with and without cache
	NullEvery int `json:"null_every,omitempty"`
}

// nullEntities is a sim interceptor that makes some entities unknown to the subgraphs: the
// decision depends on the subgraph and on which entity the representation names (its type and
// the number inside whichever key it carries), so it is the same for every request. It must not
// depend on the rest of the representation: the engine may ask for one entity twice, by two
// different keys or with and without a required input, depending on the completion order of
// concurrent requests (finding C09-scheduled-twin-fetch-runs-before-sibling-producer), and a
// decision per representation would turn that into different responses with and without cache.
func nullEntities(every int, count *int) func(r *sim.Request, answer []byte) *sim.Response {
	return func(r *sim.Request, answer []byte) *sim.Response {
		reps, _ := r.Variables["representations"].([]any)
		if every <= 0 || len(reps) == 0 {
			return nil
		}
		v, err := ref.Decode(answer)
		if err != nil {
			return nil
		}
		m, _ := v.(map[string]any)
		d, _ := m["data"].(map[string]any)
		ents, _ := d["_entities"].([]any)
		if len(ents) != len(reps) {
			return nil
		}
		changed := false
		for i, rp := range reps {
			h := fnv.New32a()
			h.Write([]byte(r.Subgraph + "|" + entityIdentity(rp)))
			if h.Sum32()%uint32(every) == 0 && ents[i] != nil {
				ents[i] = nil
				changed = true
			}
		}
		if !changed {
			return nil
		}
		*count++
		return &sim.Response{Body: []byte(ref.JSON(m))}
	}
}

// entityIdentity names the entity of a representation: type and number of the first key scalar
// found (id, sku, info.kid - all carry the same number); the whole representation otherwise.
func entityIdentity(rp any) string {
	m, _ := rp.(map[string]any)
	tn, _ := m["__typename"].(string)
	cands := []any{m["id"], m["sku"]}
	if info, ok := m["info"].(map[string]any); ok {
		cands = append(cands, info["kid"])
	}
	for _, c := range cands {
		if s, ok := c.(string); ok {
			if _, _, n, ok := ref.ParseKeyScalar(s); ok {
				return fmt.Sprintf("%s#%d", tn, n)
			}
		}
	}
	return ref.Canon(rp)
}

func allowFromEnv() map[string]bool {
	m := map[string]bool{}
	for _, c := range strings.Split(os.Getenv("C16_ALLOW"), ",") {
		if c != "" {
			m[c] = true
		}
	}
	return m
}

var cachePart = pbt.Part[cacheCase]{Name: "entity-cache-transparency", Journal: true, Quick: 8000, Thorough: 160000, Check: checkCache,
	Gen: func(t *rapid.T) cacheCase {
		l := fedgen.Gen(t, fedgen.Options{Allow: allowFromEnv()})
		super, err := sim.LoadSuper(l.Super)
		if err != nil {
			t.Fatalf("generator produced an invalid supergraph: %v", err)
		}
		c := cacheCase{Layout: l, Seed: rapid.Uint64Range(1, 1<<20).Draw(t, "useed")}
		n := rapid.IntRange(1, 3).Draw(t, "nops")
		for i := 0; i < n; i++ {
			c.Ops = append(c.Ops, opgen.Gen(t, super, opgen.Options{AltVars: 1, Allow: allowFromEnv(), MaxDepth: 6, Budget: 30, NoOmittedVars: !allowFromEnv()["omitted-variables"]}))
		}
		c.NullEvery = rapid.SampledFrom([]int{0, 0, 0, 2, 3, 4}).Draw(t, "nullevery")
		k := rapid.IntRange(3, 8).Draw(t, "nsteps")
		for i := 0; i < k; i++ {
			s := cacheStep{Op: rapid.IntRange(0, n-1).Draw(t, "op"), Alt: rapid.IntRange(-1, 0).Draw(t, "alt")}
			switch rapid.IntRange(0, 9).Draw(t, "hk") {
			case 0:
				s.NoHdr = true
			case 1, 2, 3:
				s.H = genHeader(t)
			default:
				// mostly storable, so that hits happen
				s.H = Header{Sep: ", ", Dirs: []Directive{{Kind: "public", Text: "public"}, {Kind: "max-age", Text: "max-age=60", Age: 60}}}
			}
			if rapid.IntRange(0, 4).Draw(t, "fault") == 0 {
				s.Fault = rapid.SampledFrom([]string{"get-error", "set-error", "drop-keys", "empty-values"}).Draw(t, "faultkind")
				s.FaultN = rapid.IntRange(0, 3).Draw(t, "faultn")
			}
			c.Steps = append(c.Steps, s)
		}
		return c
	}}

// recCache is an in-memory caching.Cache that records every call and injects faults.
type recCache struct {
	mu     sync.Mutex
	m      map[string]caching.Item
	sets   [][]caching.Item
	hits   int
	fault  string
	faultN int
	fired  int
}

func (c *recCache) GetMany(_ context.Context, keys []string) (map[string]caching.Item, error) {
	c.mu.Lock()
	defer c.mu.Unlock()
	if c.fault == "get-error" {
		c.fired++
		return nil, errors.New("injected: cache get failed")
	}
	out := map[string]caching.Item{}
	for i, k := range keys {
		it, ok := c.m[k]
		if !ok {
			continue
		}
		if c.fault == "drop-keys" && i%2 == c.faultN%2 {
			c.fired++
			continue // partial hit
		}
		if c.fault == "empty-values" && i%2 == c.faultN%2 {
			c.fired++
			out[k] = caching.Item{Key: k, Value: nil, TTL: it.TTL}
			continue
		}
		out[k] = it
		c.hits++
	}
	return out, nil
}

func (c *recCache) SetMany(_ context.Context, items []caching.Item) error {
	c.mu.Lock()
	defer c.mu.Unlock()
	cp := make([]caching.Item, len(items))
	for i, it := range items {
		cp[i] = caching.Item{Key: it.Key, Value: append([]byte{}, it.Value...), TTL: it.TTL}
	}
	c.sets = append(c.sets, cp)
	if c.fault == "set-error" {
		c.fired++
		return errors.New("injected: cache set failed")
	}
	for _, it := range cp {
		c.m[it.Key] = it
	}
	return nil
}

type answer struct {
	data  string
	nerrs int
	bad   string
	nreq  int
}

func exec(gw *kit.Gateway, op opgen.Op, opts ...engine.ExecutionOptions) answer {
	res := gw.Execute(op, opts...)
	a := answer{nreq: len(res.Requests)}
	switch {
	case res.Panic != "":
		a.bad = "panic: " + res.Panic
	case res.TimedOut:
		a.bad = "watchdog"
	case res.Err != nil:
		a.bad = "error: " + res.Err.Error()
	}
	if a.bad != "" {
		return a
	}
	v, err := ref.Decode([]byte(res.Body))
	if err != nil {
		a.bad = "invalid JSON: " + res.Body
		return a
	}
	m, _ := v.(map[string]any)
	a.data = ref.Canon(m["data"])
	es, _ := m["errors"].([]any)
	a.nerrs = len(es)
	return a
}

func checkCache(c cacheCase, o *pbt.Rec) pbt.Verdict {
	w, err := sim.NewWorld(c.Layout, c.Seed)
	if err != nil {
		return pbt.Bad("layout does not load: %v", err)
	}
	cached, err := kit.NewOnWorld(w, kit.EngineOptions{})
	if err != nil {
		return pbt.Bad("engine construction failed: %v", err)
	}
	defer cached.Close()
	plain, err := kit.NewOnWorld(w, kit.EngineOptions{})
	if err != nil {
		return pbt.Bad("engine construction failed: %v", err)
	}
	defer plain.Close()
	rc := &recCache{m: map[string]caching.Item{}}
	var cacheErrs []error
	var mu sync.Mutex
	opt := engine.VerifWithResolveContext(func(ctx *resolve.Context) {
		ctx.SetResponseCache(rc, defaultTTL, func(err error) {
			mu.Lock()
			cacheErrs = append(cacheErrs, err)
			mu.Unlock()
		})
	})
	var cur *cacheStep
	hdrFn := func(r *sim.Request) http.Header {
		h := http.Header{}
		if cur != nil && !cur.NoHdr {
			for _, l := range cur.H.Lines() {
				h.Add("Cache-Control", l)
			}
		}
		return h
	}
	cached.Transport.ExtraHeader = hdrFn
	plain.Transport.ExtraHeader = hdrFn
	nulled := 0
	if c.NullEvery > 0 {
		var mu2 sync.Mutex
		ic := nullEntities(c.NullEvery, &nulled)
		locked := func(r *sim.Request, answer []byte) *sim.Response {
			mu2.Lock()
			defer mu2.Unlock()
			return ic(r, answer)
		}
		cached.Transport.Intercept = locked
		plain.Transport.Intercept = locked
	}
	anyHit, anyFault, refusalWithPublic := false, false, false
	var trace []string
	for si := range c.Steps {
		s := &c.Steps[si]
		base := c.Ops[s.Op%len(c.Ops)]
		op := opgen.Op{Query: base.Query, OperationName: base.OperationName, Variables: base.Variables}
		if s.Alt >= 0 && len(base.Alt) > 0 {
			op.Variables = base.Alt[s.Alt%len(base.Alt)]
		}
		if _, err := w.Reference(op); err != nil {
			o.Label("oracle-disagreement:generator-vs-gqlparser")
			continue
		}
		cur = s
		want := exec(plain, op)
		if want.bad != "" {
			o.Label("no-cache-engine-fails(C01)")
			continue
		}
		rc.mu.Lock()
		rc.fault, rc.faultN = s.Fault, s.FaultN
		nsets, hits0, fired0 := len(rc.sets), rc.hits, rc.fired
		rc.mu.Unlock()
		got := exec(cached, op, opt)
		rc.mu.Lock()
		newSets := append([][]caching.Item{}, rc.sets[nsets:]...)
		hits, fired := rc.hits-hits0, rc.fired-fired0
		rc.mu.Unlock()
		trace = append(trace, fmt.Sprintf("step %d: %s vars %s | Cache-Control %q fault %q | requests %d (no cache %d) hits %d sets %d", si, op.Query, op.VarsJSON(), s.H.Lines(), s.Fault, got.nreq, want.nreq, hits, len(newSets)))
		ctx := func() string {
			return "\nhistory:\n  " + strings.Join(trace, "\n  ") + fmt.Sprintf("\n got:  %s (errors %d) %s\n want: %s (errors %d)\ncache errors reported: %v", got.data, got.nerrs, got.bad, want.data, want.nerrs, cacheErrs)
		}
		if got.bad != "" {
			return pbt.Bad("with an entity cache attached the request fails: %s%s", got.bad, ctx())
		}
		if got.data != want.data {
			return pbt.Bad("the response with an entity cache differs from the response without%s", ctx())
		}
		if (got.nerrs == 0) != (want.nerrs == 0) {
			return pbt.Bad("the response with an entity cache differs in reporting errors%s", ctx())
		}
		storable, public, refuse, _, _ := s.H.Meaning()
		if s.NoHdr {
			storable = false
		}
		for _, set := range newSets {
			for _, it := range set {
				if s.NoHdr {
					return pbt.Bad("an entity was stored from a response without Cache-Control: key %s%s", it.Key, ctx())
				}
				if msg := s.H.judgeTTL(it.TTL, true); msg != "" {
					return pbt.Bad("entity cache write violates Cache-Control: %s (key %s ttl %v)%s", msg, it.Key, it.TTL, ctx())
				}
			}
		}
		if hits > 0 {
			anyHit = true
		}
		if fired > 0 {
			anyFault = true
			o.Label("fault-fired:" + s.Fault)
		}
		if public && refuse {
			refusalWithPublic = true
		}
		if got.nreq < want.nreq {
			o.Label("requests-saved-by-cache")
		}
		_ = storable
	}
	if anyHit {
		o.Label("cache-hit")
	}
	if nulled > 0 {
		o.Label("null-entity-in-entities-response")
		if anyHit {
			o.Label("null-entity-and-cache-hit")
		}
	}
	if refusalWithPublic {
		o.Label("refusal-with-public")
	}
	if anyHit || anyFault {
		o.NonTrivial(ref.JSON(c.Layout.Subs) + ref.JSON(c.Ops) + ref.JSON(c.Steps) + fmt.Sprint(c.Seed))
	}
	return pbt.OK
}

var _ = sort.Strings
