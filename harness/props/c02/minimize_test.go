package c02

// TestMinimize is the driver's post-processing hook for a violation file (VERIF_REPLAY ->
// VERIF_MIN_OUT). rapid shrinks the draws, which does not minimise operations well (one draw
// decides a whole sub-selection), so the case is reduced structurally here: selections are
// removed from the operation (unused fragments pruned) and members/items removed from j while
// the verdict keeps the same signature. The result is checked again before it is written.

import (
	"encoding/json"
	"os"
	"regexp"
	"strings"
	"testing"
	"time"

	"github.com/vektah/gqlparser/v2"
	gast "github.com/vektah/gqlparser/v2/ast"
	"github.com/vektah/gqlparser/v2/formatter"

	"verif/harness/pbt"
)

var reSigNoise = regexp.MustCompile(`[#/][A-Za-z0-9_#/]+|"[^"]*"|\[[^\]]*\]|\d+`)

// verdictSignature abstracts a failing verdict: finding id + first message line without
// paths, quoted values, lists and numbers.
func verdictSignature(v pbt.Verdict) string {
	if v.Msg == "" {
		return ""
	}
	first := strings.SplitN(v.Msg, "\n", 2)[0]
	if i := strings.Index(first, "disagrees with the operation"); i >= 0 {
		// keep the kind of the first disagreement only
		rest := first[i:]
		if j := strings.Index(rest, "["); j >= 0 {
			rest = rest[j+1:]
		}
		first = "unfaithful " + strings.SplitN(rest, "@", 2)[0]
	}
	s := reSigNoise.ReplaceAllString(first, "_")
	if len(s) > 160 {
		s = s[:160]
	}
	return v.Finding + "|" + s
}

func formatDoc(doc *gast.QueryDocument) string {
	var b strings.Builder
	formatter.NewFormatter(&b, formatter.WithIndent(" ")).FormatQueryDocument(doc)
	return strings.Join(strings.Fields(b.String()), " ")
}

func pruneUnusedFragments(doc *gast.QueryDocument) {
	for {
		used := map[string]bool{}
		var walk func(set gast.SelectionSet)
		walk = func(set gast.SelectionSet) {
			for _, sel := range set {
				switch x := sel.(type) {
				case *gast.Field:
					walk(x.SelectionSet)
				case *gast.InlineFragment:
					walk(x.SelectionSet)
				case *gast.FragmentSpread:
					used[x.Name] = true
				}
			}
		}
		for _, o := range doc.Operations {
			walk(o.SelectionSet)
		}
		for _, f := range doc.Fragments {
			walk(f.SelectionSet)
		}
		var keep gast.FragmentDefinitionList
		for _, f := range doc.Fragments {
			if used[f.Name] {
				keep = append(keep, f)
			}
		}
		if len(keep) == len(doc.Fragments) {
			return
		}
		doc.Fragments = keep
	}
}

func allSets(doc *gast.QueryDocument) []*gast.SelectionSet {
	var out []*gast.SelectionSet
	var walk func(set *gast.SelectionSet)
	walk = func(set *gast.SelectionSet) {
		out = append(out, set)
		for _, sel := range *set {
			switch x := sel.(type) {
			case *gast.Field:
				if len(x.SelectionSet) > 0 {
					walk(&x.SelectionSet)
				}
			case *gast.InlineFragment:
				walk(&x.SelectionSet)
			}
		}
	}
	for _, o := range doc.Operations {
		walk(&o.SelectionSet)
	}
	for _, f := range doc.Fragments {
		walk(&f.SelectionSet)
	}
	return out
}

type minimizer struct {
	engine   mode
	sig      string
	deadline time.Time
	checks   int
}

func (mz *minimizer) same(c Case) bool {
	if time.Now().After(mz.deadline) {
		return false
	}
	mz.checks++
	return verdictSignature(checkCase(c, &pbt.Rec{}, mz.engine)) == mz.sig
}

func (mz *minimizer) operation(c Case) Case {
	w, err := getWorld(c.SDL)
	if err != nil {
		return c
	}
	for changed := true; changed && time.Now().Before(mz.deadline); {
		changed = false
		doc, errs := gqlparser.LoadQuery(w.gs, c.Op)
		if errs != nil {
			return c
		}
		nsets := len(allSets(doc))
	outer:
		for si := 0; si < nsets; si++ {
			for idx := 0; ; idx++ {
				doc, errs := gqlparser.LoadQuery(w.gs, c.Op)
				if errs != nil {
					return c
				}
				sets := allSets(doc)
				if si >= len(sets) || idx >= len(*sets[si]) || len(*sets[si]) < 2 {
					break
				}
				ns := append(gast.SelectionSet{}, (*sets[si])[:idx]...)
				ns = append(ns, (*sets[si])[idx+1:]...)
				*sets[si] = ns
				pruneUnusedFragments(doc)
				cand := c
				cand.Op = formatDoc(doc)
				if _, errs := gqlparser.LoadQuery(w.gs, cand.Op); errs != nil {
					continue
				}
				if mz.same(cand) {
					c = cand
					changed = true
					continue outer
				}
			}
		}
	}
	return c
}

// data removes object members and list items from j greedily.
func (mz *minimizer) data(c Case) Case {
	for changed := true; changed && time.Now().Before(mz.deadline); {
		changed = false
		root, err := parseJSON([]byte(c.Data))
		if err != nil {
			return c
		}
		n := countNodes(root)
		for i := 0; i < n; i++ {
			root, _ := parseJSON([]byte(c.Data))
			k := 0
			if !removeNth(root, i, &k) {
				continue
			}
			cand := c
			cand.Data = root.String()
			if cand.Data != c.Data && mz.same(cand) {
				c = cand
				changed = true
				break
			}
		}
	}
	return c
}

func countNodes(v *jv) int {
	n := 0
	switch v.k {
	case jArr:
		for _, x := range v.arr {
			n += 1 + countNodes(x)
		}
	case jObj:
		for _, x := range v.vals {
			n += 1 + countNodes(x)
		}
	}
	return n
}

// removeNth deletes the n-th member/item (pre-order) of v.
func removeNth(v *jv, n int, k *int) bool {
	switch v.k {
	case jArr:
		for i, x := range v.arr {
			if *k == n {
				v.arr = append(v.arr[:i:i], v.arr[i+1:]...)
				return true
			}
			*k++
			if removeNth(x, n, k) {
				return true
			}
		}
	case jObj:
		for i, x := range v.vals {
			if *k == n {
				v.keys = append(v.keys[:i:i], v.keys[i+1:]...)
				v.vals = append(v.vals[:i:i], v.vals[i+1:]...)
				return true
			}
			*k++
			if removeNth(x, n, k) {
				return true
			}
		}
	}
	return false
}

func minimizeCase(c Case, engine mode, budget time.Duration) (Case, bool) {
	v0 := checkCase(c, &pbt.Rec{}, engine)
	if v0.Msg == "" {
		return c, false
	}
	mz := &minimizer{engine: engine, sig: verdictSignature(v0), deadline: time.Now().Add(budget)}
	for round := 0; round < 3; round++ {
		before := len(c.Op) + len(c.Data)
		c = mz.operation(c)
		c = mz.data(c)
		if len(c.Op)+len(c.Data) == before {
			break
		}
	}
	c.Muts = nil // positions no longer match; the document itself is the witness
	return c, verdictSignature(checkCase(c, &pbt.Rec{}, engine)) == mz.sig
}

func TestMinimize(t *testing.T) {
	in, out := os.Getenv("VERIF_REPLAY"), os.Getenv("VERIF_MIN_OUT")
	if in == "" || out == "" {
		t.Skip("VERIF_REPLAY / VERIF_MIN_OUT not set")
	}
	rf, err := pbt.LoadReplay(in)
	if err != nil {
		t.Skip(err)
	}
	if rf.Part != resolvablePart.Name && rf.Part != enginePart.Name && rf.Part != valueCompletionPart.Name {
		t.Skip("not a generated case")
	}
	var c Case
	if err := json.Unmarshal(rf.Case, &c); err != nil {
		t.Skip(err)
	}
	engine := partMode(rf.Part)
	m, ok := minimizeCase(c, engine, 120*time.Second)
	if !ok {
		t.Skip("minimised case does not keep the verdict")
	}
	v := checkCase(m, &pbt.Rec{}, engine)
	b, _ := json.Marshal(m)
	doc, _ := json.MarshalIndent(map[string]any{"property": "C02", "part": rf.Part, "case": json.RawMessage(b), "why": v.Msg, "minimized_from": in}, "", " ")
	if err := os.WriteFile(out, doc, 0o644); err != nil {
		t.Skip(err)
	}
}
