package c15

import (
	"regexp"
	"strings"

	ir "verif/harness/internal/inputref"
	"verif/harness/pbt"
)

// Known findings (see FINDINGS.json).
const (
	fIntMin   = "C15-int-min-literal-rejected"
	fExp      = "C15-exponent-sign-without-fraction-rejected"
	fBlockWs  = "C15-whitespace-only-block-string-not-empty"
	fBlockEsc = "C15-block-string-escaped-triple-quote-keeps-backslash"
	fVarDflt  = "C15-defaulted-variable-inside-literal-not-defaulted"
	fNullDflt = "C15-null-default-of-list-variable-wrapped"
	fShift    = "C15-input-list-element-shift"
	fSingle   = "C15-default-value-not-list-coerced"
	fBrace    = "C15-brace-unicode-escape-copied-into-json"
	fRawTab   = "C15-raw-tab-in-string-literal-invalid-json"
	fBlockQ   = "C15-block-string-edge-quote-lost"
	fBlockBs  = "C15-block-string-backslash-before-escaped-triple-quote-rejected"
)

var reEdgeQuote = regexp.MustCompile(`^[ \t\r\n\\]*"|"[ \t\r\n\\]*$`)

const intMin = "-2147483648"

var reExpSign = regexp.MustCompile(`^-?\d+[eE][+-]\d+$`)

// tokens lexes GraphQL text with the spec lexer of this harness.
func tokens(text string) []ir.Token {
	lx := ir.NewLexer(text, ir.LexOpts{})
	var out []ir.Token
	for {
		t, err := lx.Next()
		if err != nil || t.Kind == ir.TEOF {
			return out
		}
		out = append(out, t)
	}
}

func anyToken(c *Case, pred func(ir.Token) bool) bool {
	for _, t := range tokens(c.Query) {
		if pred(t) {
			return true
		}
	}
	return false
}

// substitute replaces variables inside a literal by their request value (or default).
func substitute(c *Case, lit *ir.Value, vars *ir.Value) *ir.Value {
	if lit == nil {
		return nil
	}
	switch lit.K {
	case ir.VVar:
		if v := vars.Get(lit.S); v != nil {
			return v
		}
		for _, d := range c.Decls {
			if d.Name == lit.S && d.Default != "" {
				if dv, err := ir.ParseLiteral(d.Default, ir.LexOpts{}); err == nil {
					return dv
				}
			}
		}
		return nil // no runtime value: dropped from objects, null in lists
	case ir.VList:
		out := &ir.Value{K: ir.VList}
		for _, x := range lit.L {
			y := substitute(c, x, vars)
			if y == nil {
				y = ir.Null()
			}
			out.L = append(out.L, y)
		}
		return out
	case ir.VObj:
		out := &ir.Value{K: ir.VObj}
		for _, m := range lit.O {
			if y := substitute(c, m.V, vars); y != nil {
				out.O = append(out.O, ir.Member{Key: m.Key, V: y})
			}
		}
		return out
	}
	return lit
}

// eachArgument calls f with (argument type, argument value with variables substituted) for
// every selected field that gives its argument.
func eachArgument(c *Case, vars *ir.Value, f func(t *ir.Type, v *ir.Value) bool) bool {
	for _, fu := range c.Fields {
		if fu.Arg == "" {
			continue
		}
		lit, err := ir.ParseLiteral(fu.Arg, ir.LexOpts{})
		if err != nil {
			continue
		}
		if f(c.Schema.Echo(fu.Echo).Arg.T(), substitute(c, lit, vars)) {
			return true
		}
	}
	return false
}

// omittedDefaultedVarInsideLiteral: a variable with a default and no request value is used
// inside (not as the whole of) an argument literal.
func omittedDefaultedVarInsideLiteral(c *Case, vars *ir.Value) bool {
	for _, d := range c.Decls {
		if d.Default == "" || vars.Get(d.Name) != nil {
			continue
		}
		for _, fu := range c.Fields {
			if fu.Arg == "$"+d.Name {
				continue
			}
			for _, t := range tokens(fu.Arg) {
				if t.Kind == ir.TName && t.Text == d.Name {
					return true
				}
			}
		}
	}
	return false
}

func omittedListVarWithNullDefault(c *Case, vars *ir.Value) bool {
	for _, d := range c.Decls {
		if d.Default == "null" && d.T().Elem != nil && vars.Get(d.Name) == nil {
			return true
		}
	}
	return false
}

func defaultNeedsListCoercion(c *Case, vars *ir.Value) bool {
	var roots []*ir.Type
	for _, fu := range c.Fields {
		roots = append(roots, c.Schema.Echo(fu.Echo).Arg.T())
	}
	for _, d := range c.Decls {
		roots = append(roots, d.T())
	}
	if ir.FieldDefaultNeedsListCoercion(&c.Schema, ir.ReachableInputs(&c.Schema, roots)) {
		return true
	}
	for _, d := range c.Decls {
		if d.Default != "" && vars.Get(d.Name) == nil {
			if lit, err := ir.ParseLiteral(d.Default, ir.LexOpts{}); err == nil && ir.LiteralNeedsListCoercion(&c.Schema, d.T(), lit, 0) {
				return true
			}
		}
	}
	return false
}

type recogniser struct {
	id    string
	where []string // which failure sites it may explain
	match func(c *Case, vars *ir.Value, msg string) bool
}

var (
	valueSites = []string{"normalized-value", "upstream-value"}
	anySite    = []string{"rejected", "normalized-value", "upstream-value", "normalized-eval", "upstream-eval"}
)

var recognisers = []recogniser{
	{fIntMin, []string{"rejected"}, func(c *Case, _ *ir.Value, msg string) bool {
		return strings.Contains(msg, "Int cannot represent non 32-bit signed integer value: "+intMin) && strings.Contains(c.Query, intMin)
	}},
	{fExp, []string{"rejected", "invalid-json"}, func(c *Case, _ *ir.Value, msg string) bool {
		// as an argument or object field the split literal is a parse error; as a list item it
		// becomes two items, the first of which ("1e") is not a JSON number
		if strings.Contains(msg, "not valid JSON") && !strings.Contains(msg, "bad exponent") {
			return false
		}
		return anyToken(c, func(t ir.Token) bool { return t.Kind == ir.TFloat && reExpSign.MatchString(t.Text) })
	}},
	{fBrace, []string{"invalid-json"}, func(c *Case, _ *ir.Value, msg string) bool {
		return anyToken(c, func(t ir.Token) bool { return t.Kind == ir.TString && strings.Contains(t.Text, `\u{`) })
	}},
	{fRawTab, []string{"invalid-json"}, func(c *Case, _ *ir.Value, msg string) bool {
		return strings.Contains(msg, "raw control character 0x09") && anyToken(c, func(t ir.Token) bool { return t.Kind == ir.TString && strings.Contains(t.Text, "\t") })
	}},
	{fBlockQ, valueSites, func(c *Case, _ *ir.Value, msg string) bool {
		return anyToken(c, func(t ir.Token) bool {
			return t.Kind == ir.TBlockString && len(t.Text) >= 6 && reEdgeQuote.MatchString(t.Text[3:len(t.Text)-3])
		})
	}},
	{fBlockBs, []string{"rejected"}, func(c *Case, _ *ir.Value, msg string) bool {
		return anyToken(c, func(t ir.Token) bool { return t.Kind == ir.TBlockString && strings.Contains(t.Text, `\\"""`) })
	}},
	{fBlockWs, valueSites, func(c *Case, _ *ir.Value, msg string) bool {
		return anyToken(c, func(t ir.Token) bool { return t.Kind == ir.TBlockString && t.Value == "" && len(t.Text) > 6 })
	}},
	{fBlockEsc, valueSites, func(c *Case, _ *ir.Value, msg string) bool {
		return anyToken(c, func(t ir.Token) bool { return t.Kind == ir.TBlockString && strings.Contains(t.Text, `\"""`) })
	}},
	{fNullDflt, anySite, func(c *Case, vars *ir.Value, msg string) bool { return omittedListVarWithNullDefault(c, vars) }},
	{fVarDflt, anySite, func(c *Case, vars *ir.Value, msg string) bool { return omittedDefaultedVarInsideLiteral(c, vars) }},
	{fSingle, anySite, func(c *Case, vars *ir.Value, msg string) bool { return defaultNeedsListCoercion(c, vars) }},
	{fShift, anySite, func(c *Case, vars *ir.Value, msg string) bool {
		return eachArgument(c, vars, func(t *ir.Type, v *ir.Value) bool { return ir.ShiftShape(&c.Schema, t, v, 0) })
	}},
}

// known attributes a violation to a recorded finding when a narrow recogniser matches.
func known(c *Case, vars *ir.Value, lits map[string]*ir.Value, where string, v pbt.Verdict) pbt.Verdict {
	for _, r := range recognisers {
		for _, w := range r.where {
			if w == where && pbt.IsKnown(r.id) && r.match(c, vars, v.Msg) {
				return pbt.BadKnown(r.id, "%s", v.Msg)
			}
		}
	}
	return v
}
