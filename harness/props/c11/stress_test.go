package c11

// Stress part: real concurrent goroutines, no scheduler. The same oracle runs on what each
// participant observed. A failure here cannot be replayed deterministically, so it is reported
// together with the printed history. Under the race detector (thorough tier, VERIF_RACE=1) every
// history runs inside its own subtest, so a data race report is attributed to the history that
// produced it.

import (
	"encoding/json"
	"fmt"
	"os"
	"runtime"
	"runtime/debug"
	"strings"
	"sync"
	"testing"
	"time"

	"pgregory.net/rapid"

	"verif/harness/pbt"
)

const stressName = "stress-real-goroutines"

// StressPart is one participant of a stress history; the spins are numbers of
// runtime.Gosched() calls (they widen overlaps, nothing depends on them).
type StressPart struct {
	Key        int    `json:"key"`
	Alt        bool   `json:"alt,omitempty"`
	Script     string `json:"script"`
	Spin       int    `json:"spin"`
	LoadSpin   int    `json:"load_spin"`
	CancelSpin int    `json:"cancel_spin,omitempty"`
	WriteFail  bool   `json:"write_fail,omitempty"`
}

// StressCase is a history of Rounds rounds of the same concurrent requests on one resolver
// (so arenas are recycled between and during rounds).
type StressCase struct {
	Layer      string       `json:"layer"`
	OpType     string       `json:"op_type"`
	HardCancel bool         `json:"hard_cancel,omitempty"`
	MaxConc    int          `json:"max_conc,omitempty"`
	Transport  string       `json:"transport,omitempty"`
	DataSources int         `json:"data_sources,omitempty"`
	HdrMode    string       `json:"hdr_mode,omitempty"`
	Keys       []Key        `json:"keys"`
	Parts      []StressPart `json:"parts"`
	Rounds     int          `json:"rounds"`
}

func genStress(t *rapid.T) StressCase {
	c := StressCase{}
	c.Layer = rapid.SampledFrom([]string{layerInbound, layerInbound, layerSubgraph, layerBoth, layerBoth}).Draw(t, "layer")
	c.OpType = rapid.SampledFrom([]string{"query", "query", "query", "query", "query", "query", "query", "mutation", "subscription"}).Draw(t, "optype")
	c.HardCancel = rapid.IntRange(0, 3).Draw(t, "hardcancel") == 0
	c.MaxConc = rapid.SampledFrom([]int{0, 0, 0, 0, 0, 1, 2}).Draw(t, "maxconc")
	if rapid.IntRange(0, 2).Draw(t, "opaque") == 0 {
		c.Transport = "opaque"
	}
	c.DataSources = rapid.SampledFrom([]int{0, 0, 1, 2, 2, 3, 4}).Draw(t, "datasources")
	if rapid.IntRange(0, 2).Draw(t, "rotate") == 0 {
		c.HdrMode = "rotate"
	}
	c.Keys = genKeys(t)
	n := rapid.IntRange(2, 6).Draw(t, "nparts")
	for i := 0; i < n; i++ {
		var p StressPart
		if len(c.Keys) > 1 && rapid.IntRange(0, 2).Draw(t, "otherkey") == 0 {
			p.Key = rapid.IntRange(1, len(c.Keys)-1).Draw(t, "key")
		}
		if c.Layer != layerInbound {
			p.Alt = rapid.Bool().Draw(t, "alt")
		}
		p.Script = rapid.SampledFrom([]string{scNormal, scNormal, scNormal, scNormal, scNormal, scCancel, scCancel, scDeadline, scFailLoad, scFailHard}).Draw(t, "script")
		p.WriteFail = rapid.IntRange(0, 5).Draw(t, "writefail") == 0
		p.Spin = rapid.SampledFrom([]int{0, 0, 0, 1, 2, 5, 20}).Draw(t, "spin")
		p.LoadSpin = rapid.SampledFrom([]int{0, 1, 5, 20, 50, 100}).Draw(t, "loadspin")
		if p.Script == scCancel || p.Script == scDeadline {
			p.CancelSpin = rapid.SampledFrom([]int{0, 1, 5, 20, 50, 100, 200}).Draw(t, "cancelspin")
		}
		c.Parts = append(c.Parts, p)
	}
	c.Rounds = rapid.IntRange(1, 4).Draw(t, "rounds")
	return c
}

func (c StressCase) asCase() Case {
	cc := Case{Layer: c.Layer, OpType: c.OpType, HardCancel: c.HardCancel, MaxConc: c.MaxConc, Transport: c.Transport, DataSources: c.DataSources, HdrMode: c.HdrMode, Keys: c.Keys}
	for _, p := range c.Parts {
		cc.Parts = append(cc.Parts, Participant{Key: p.Key, Alt: p.Alt, Script: p.Script, WriteFail: p.WriteFail})
	}
	return cc
}

func spinFn(n int) func() {
	return func() {
		for i := 0; i < n; i++ {
			runtime.Gosched()
		}
	}
}

// runStress executes the history and applies the oracle. hist is the printed history.
func runStress(sc StressCase, o rec, opts runOpts) (v pbt.Verdict, hist string) {
	c := sc.asCase()
	if msg := c.sanitize(); msg != "" {
		return pbt.Bad("invalid case: %s", msg), ""
	}
	if sc.Rounds < 1 || sc.Rounds > 16 {
		return pbt.Bad("invalid case: rounds"), ""
	}
	if opts.watchdog <= 0 {
		opts.watchdog = 20 * time.Second
	}
	if o.o != nil {
		o.o.Journal()
	}
	o.label("stress:layer:%s", c.Layer)
	o.label("stress:optype:%s", c.OpType)
	o.label("stress:maxconc:%d", c.MaxConc)
	for _, p := range c.Parts {
		k := c.Keys[p.Key]
		if ok := outAlone(c.Layer, c.OpType, k, p.Alt, scNormal); ok.Out != expectOK(k, p.Alt) || ok.err != nil {
			return pbt.Bad("harness: out_alone(%v alt=%v) = %q err=%v", k, p.Alt, ok.Out, ok.err), ""
		}
	}
	shares := c.OpType == "query"
	rg := acquireRig(c.MaxConc)
	before := goroutineSet()
	var log []string
	logf := func(f string, a ...any) { log = append(log, fmt.Sprintf(f, a...)) }
	history := func() string {
		b, _ := json.Marshal(sc)
		return "stress history (real goroutines, not replayable deterministically): " + string(b) + "\n  " + strings.Join(log, "\n  ")
	}
	sharedSeen, dedupSeen, excl18 := false, false, false
	var all []problem
	for round := 0; round < sc.Rounds; round++ {
		// observation-only scheduler: records arrivals at the yield points, never parks
		s := &sched{wake: make(chan struct{}, 1), byGID: map[int64]*pstate{}, rig: rg, c: &c, loads: &loadLog{}, draining: true, watchdog: opts.watchdog}
		current.Store(s)
		start := make(chan struct{})
		var wg sync.WaitGroup
		for i, sp := range sc.Parts {
			k := c.Keys[sp.Key]
			ctx, cancel := requestContext(sp.Script)
			p := &pstate{id: i, spec: c.Parts[i], key: k, ikey: fmt.Sprintf("%d/%s", clientOpID(k.Op, sp.Alt), k), ctx: ctx, cancel: cancel,
				want: map[string]bool{}, arrived: map[string]bool{}, started: true}
			p.w = &who{pid: i, script: sp.Script, hardCancel: c.HardCancel, opaque: c.Transport == "opaque", p: p, s: s, loads: s.loads, spin: spinFn(sp.LoadSpin)}
			p.wr = &pwriter{p: p, s: s, fail: sp.WriteFail}
			s.parts = append(s.parts, p)
			doCancel := sp.Script == scCancel || sp.Script == scDeadline
			if doCancel && shares && opts.steer18 {
				// known class C11-*-leader-cancel-leak: who leads is not controlled here, so a
				// participant that shares its key with another one is not cancelled
				for j, other := range sc.Parts {
					if j != i && other.Key == sp.Key {
						doCancel = false
					}
				}
				if !doCancel {
					s.excluded18++
				}
			}
			wg.Add(1)
			go func() {
				defer wg.Done()
				gid := curGID()
				s.mu.Lock()
				p.gid = gid
				s.byGID[gid] = p
				s.mu.Unlock()
				defer func() {
					if v := recover(); v != nil {
						p.out.Panic = fmt.Sprint(v)
						p.out.Stack = string(debug.Stack())
					}
					p.out.Out = string(p.wr.attempt)
					p.out.Delivered = string(p.wr.out)
					s.mu.Lock()
					p.finished = true
					delete(s.byGID, gid)
					s.mu.Unlock()
				}()
				<-start
				spinFn(sp.Spin)()
				rc := rg.request(p.ctx, c.Layer, c.OpType, c.HdrMode, p.key, sp.Alt, p.w)
				info, err := rg.resolver.ArenaResolveGraphQLResponse(rc, rg.plan(k.Op, sp.Alt, c.OpType, c.DataSources), p.wr)
				p.out.Returned = true
				p.out.err = err
				if err != nil {
					p.out.Err = err.Error()
				}
				if info != nil {
					p.out.Dedup = info.ResolveDeduplicated
				}
				p.out.subErr = rc.SubgraphErrors()
			}()
			if doCancel {
				wg.Add(1)
				go func() {
					defer wg.Done()
					<-start
					spinFn(sp.CancelSpin)()
					s.mu.Lock()
					fin := p.finished
					if !fin {
						p.cancelled = true
						p.cancelBeforeProduct = true
					}
					s.mu.Unlock()
					if !fin {
						p.cancel()
					}
				}()
			}
		}
		close(start)
		done := make(chan struct{})
		go func() { wg.Wait(); close(done) }()
		select {
		case <-done:
		case <-time.After(opts.watchdog):
			// liveness watchdog: only a participant in the same blocking call twice is a wedge
			g1 := allGoroutines()
			time.Sleep(500 * time.Millisecond)
			g2 := allGoroutines()
			var wedged []string
			progress := false // somebody can still run: a follower waiting for it is not wedged
			s.mu.Lock()
			for _, p := range s.parts {
				if p.finished {
					continue
				}
				a, ok1 := g1[p.gid]
				b, ok2 := g2[p.gid]
				if !ok1 || !ok2 || a.top != b.top || strings.HasPrefix(a.state, "run") || strings.HasPrefix(b.state, "run") {
					progress = true
					continue
				}
				wedged = append(wedged, fmt.Sprintf("p%d blocked [%s] in %s\n%s", p.id, b.state, b.top, b.text))
			}
			s.mu.Unlock()
			if progress {
				wedged = nil
			}
			for _, p := range s.parts {
				p.cancel()
			}
			current.Store(nil)
			discardRig(rg)
			if len(wedged) > 0 {
				return pbt.Bad("participant wedged (same blocking call in two samples after %v):\n%s\n%s", opts.watchdog, strings.Join(wedged, "\n"), history()), history()
			}
			if o.o != nil {
				o.o.Discard("watchdog-inconclusive")
			}
			return pbt.OK, history()
		}
		current.Store(nil)
		for _, p := range s.parts {
			p.finished = true
			p.lateRegister = p.arrived[ptBeforeAdd] // a follower that ends up in FinishOk saw Data == nil
			if p.arrived[ptBeforeAdd] || p.arrived[ptJoined] {
				sharedSeen = true
			}
			if p.out.Dedup {
				dedupSeen = true
			}
			if p.cancelled {
				o.label("stress:cancel-fired")
			}
			logf("round %d p%d key=%s %s: out=%q err=%v dedup=%v panic=%q cancelled=%v follower(inbound=%v subgraph=%v)", round, p.id, p.key, p.spec.Script,
				p.out.Out, p.out.Err, p.out.Dedup, p.out.Panic, p.cancelled, p.arrived[ptBeforeAdd], p.arrived[ptJoined])
			p.cancel()
		}
		if s.excluded18 > 0 {
			excl18 = true
		}
		loads, pre := s.loads.snapshot()
		logf("round %d upstream loads: %v", round, loads)
		all = append(all, oracle(&c, s.parts, loads, pre, rec{})...)
		if len(all) > 0 {
			break
		}
	}
	if excl18 {
		labelExcluded18(o, c.Layer)
	}
	if sharedSeen {
		o.label("stress:shared")
	}
	if dedupSeen {
		o.label("stress:inbound-deduplicated")
	}
	if len(all) == 0 {
		if desc, stable := leaked(before, 2*time.Second); len(desc) > 0 {
			if stable {
				all = append(all, problem{msg: "goroutines created by the history are still alive and blocked after every participant returned:\n  " + strings.Join(desc, "\n  ")})
			} else {
				o.label("goroutine-delta-inconclusive")
			}
		}
	}
	if sharedSeen && o.o != nil {
		b, _ := json.Marshal(sc)
		o.o.NonTrivial(string(b))
	}
	if len(all) == 0 {
		return pbt.OK, history()
	}
	discardRig(rg)
	finding := all[0].finding
	var msgs []string
	for _, p := range all {
		msgs = append(msgs, p.msg)
		if p.finding == "" {
			finding = ""
		}
	}
	msg := strings.Join(msgs, "\n") + "\n" + history()
	if finding != "" {
		return pbt.BadKnown(finding, "%s", msg), history()
	}
	return pbt.Bad("%s", msg), history()
}

// restrictForRace: while C11-late-follower-double-close is listed as known, a history with three
// or more requests on one inbound key can make two late followers touch the leader's
// InflightRequest concurrently (the pseudo-leader writes Data/SharedData in its second FinishOk
// while the other late follower reads them): the race detector then fails the test binary for a
// consequence of the known defect, and a Go test cannot be un-failed. Under -race such
// histories are therefore cut down to two requests per inbound key (counted as excluded).
func restrictForRace(sc StressCase) (StressCase, bool) {
	if sc.Layer == layerSubgraph || sc.OpType != "query" {
		return sc, false
	}
	seen := map[string]int{}
	out := sc
	out.Parts = nil
	cut := false
	for _, p := range sc.Parts {
		if p.Key < 0 || p.Key >= len(sc.Keys) {
			return sc, false
		}
		ik := fmt.Sprintf("%d/%v", clientOpID(sc.Keys[p.Key].Op, p.Alt), sc.Keys[p.Key])
		if seen[ik] >= 2 {
			cut = true
			continue
		}
		seen[ik]++
		out.Parts = append(out.Parts, p)
	}
	return out, cut
}

// stressRun draws histories from the generator (seeded from the shard seed) and runs each in
// its own subtest.
func stressRun(t *testing.T, r *pbt.Run, quick, thorough int) {
	n := r.Cases(quick, thorough)
	gen := rapid.Custom(genStress)
	opts := defaultOpts()
	for i := 0; i < n; i++ {
		sc := gen.Example(int(uint32(r.Seed>>1)) + i)
		cut := false
		if raceBuild() && opts.steer17 {
			sc, cut = restrictForRace(sc)
		}
		r.Direct(stressName, sc, "", func(rc *pbt.Rec) string {
			if cut {
				rc.Label("excluded:" + f17)
			}
			var v pbt.Verdict
			var hist string
			ok := t.Run("history", func(*testing.T) { v, hist = runStress(sc, rec{rc}, opts) })
			switch {
			case v.Msg != "" && v.Finding != "":
				rc.KnownOrFail(t, v.Finding, "%s", v.Msg)
			case v.Msg != "":
				rc.Fail(t, "%s", v.Msg)
			case !ok:
				rc.Fail(t, "the race detector reported a data race while this history ran (the report is in the shard log):\n%s", hist)
			}
			return ""
		})
		if t.Failed() {
			return
		}
	}
}

func raceBuild() bool { return os.Getenv("VERIF_RACE") == "1" }

func stressHandler(raw json.RawMessage) string {
	var sc StressCase
	if err := json.Unmarshal(raw, &sc); err != nil {
		return "cannot decode case: " + err.Error()
	}
	// a stress history is not deterministic: replay it a number of times
	for i := 0; i < 200; i++ {
		v, _ := runStress(sc, rec{}, defaultOpts())
		if v.Msg != "" && !(v.Finding != "" && pbt.IsKnown(v.Finding)) {
			return v.Msg
		}
	}
	return ""
}
