//go:build verif

package subrig

import (
	"context"
	"fmt"
	"runtime"
	"sort"
	"strings"
	"sync"
	"sync/atomic"
	"time"

	"github.com/wundergraph/graphql-go-tools/v2/pkg/engine/resolve"
	"github.com/wundergraph/graphql-go-tools/v2/pkg/verifhook"
)

// Violation is one oracle clause that did not hold.
type Violation struct {
	Prop   string // C12 or C13
	Clause string // short stable name of the clause
	Sub    int    // subscriber concerned (-1: none)
	Call   string // writer call kind (after-completion) or unexpected/missing item kind (delivery)
	Got    int    // counters: observed Inc-Dec
	Want   int    // counters: the model's value
	Step   int    // index of the top-level step during/after which it was detected (len(steps)+ for the implicit tail, -1 final)
	Msg    string
}

func (v Violation) String() string { return fmt.Sprintf("[%s %s] %s", v.Prop, v.Clause, v.Msg) }

// Result is what executing a history produced.
type Result struct {
	Violations   []Violation
	Inconclusive string // non-empty: a liveness watchdog expired and quiescence could not be established
	Expired      string // a wait expired during the history (the rest of the history was skipped)
	Labels       map[string]int
	SplitReached int
	RacedRemoval bool // a removal ran while an event/complete/error of a trigger with >= 2 subscribers was parked
	Trace        []string
	Model        *Model
}

// clause names
const (
	ClAfterCompletion = "write-after-completion"
	ClOverlap         = "overlapping-writer-calls"
	ClDelivery        = "delivery-not-exact"
	ClTerminalTwice   = "complete-or-error-twice"
	ClFanout          = "fan-out-interleaved"
	ClPanic           = "panic"
	ClRegistry        = "registry-size"
	ClSubCounter      = "subscription-counter"
	ClTrigCounter     = "trigger-counter"
	ClStartCount      = "start-count"
	ClStartArgs       = "start-arguments"
	ClCtxNotCancelled = "start-context-not-cancelled"
	ClCtxCancelled    = "start-context-cancelled-early"
	ClNotCompleted    = "subscriber-not-completed"
	ClSubscribeResult = "subscribe-result"
)

var clauseProp = map[string]string{
	ClAfterCompletion: "C12", ClOverlap: "C12", ClDelivery: "C12", ClTerminalTwice: "C12", ClFanout: "C12", ClPanic: "C12",
	ClRegistry: "C13", ClSubCounter: "C13", ClTrigCounter: "C13", ClStartCount: "C13", ClStartArgs: "C13", ClCtxNotCancelled: "C13",
	ClCtxCancelled: "C13", ClNotCompleted: "C13", ClSubscribeResult: "C13",
}

type rsub struct {
	idx          int
	w            *Writer
	id           resolve.SubscriptionIdentifier
	idKnown      bool
	ctx          context.Context
	cancelClient context.CancelFunc
	sync         bool
	returned     atomic.Int64 // sync: sequence number at the return of ResolveGraphQLSubscription
	retErr       error
	subErr       error
	signalSeq    int64
	signalBy     string
}

// Rig drives one resolver through one history.
type Rig struct {
	bus   *Bus
	clock *Clock
	rep   *Reporter
	src   *Source
	sched *Sched
	r     *resolve.Resolver

	cancelResolver context.CancelFunc
	subs           []*rsub
	conns          map[int]resolve.ConnectionID
	m              *Model
	res            *Result
	wg             sync.WaitGroup
	baseline       int
	lateShutdown   atomic.Bool // shutdownResolver's report did not show within the watchdog (set by the call goroutine)
	predicted      bool        // whether the model expects the open split subscribe to reach its window
	unsound        bool        // a wait expired while something was still running: the model no longer describes the run
	openGoroutines int         // goroutines of the open split: the parked call (and its worker), blocked nested calls
	stepNo         int
	t0             time.Time
	cfgMu          sync.Mutex
	cfgs           map[int]subCfg
}

// subCfg is what the fake source needs to know about a subscriber (read from resolver goroutines).
type subCfg struct{ hook, start string }

func (g *Rig) cfgOf(sub int) subCfg {
	g.cfgMu.Lock()
	defer g.cfgMu.Unlock()
	return g.cfgs[sub]
}

var (
	watchdogMu sync.Mutex
	watchdog   = 10 * time.Second
	soloBusy   atomic.Bool
	// Expiries counts watchdog expiries in this process.
	Expiries atomic.Int64
)

func currentWatchdog() time.Duration { watchdogMu.Lock(); defer watchdogMu.Unlock(); return watchdog }

func noteExpiry() {
	if Expiries.Add(1) >= 3 {
		watchdogMu.Lock()
		watchdog = 3 * time.Second // a process that keeps expiring does not pay the long grace every time
		watchdogMu.Unlock()
	}
}

// Quiescence is established by the number of goroutines of the process returning to what it
// was when the case started. lastBaseline/lastSettled carry that over to the next case: after a
// case that could not be brought to rest the next one first waits for the stragglers.
var (
	lastBaseline int
	lastSettled  = true
)

func (g *Rig) viol(clause string, sub int, call, format string, a ...any) {
	g.res.Violations = append(g.res.Violations, Violation{Prop: clauseProp[clause], Clause: clause, Sub: sub, Call: call, Step: g.stepNo, Msg: fmt.Sprintf(format, a...)})
}

func (g *Rig) trace(format string, a ...any) {
	g.res.Trace = append(g.res.Trace, fmt.Sprintf("%4d %8.3fms  ", g.clock.n.Load(), float64(time.Since(g.t0).Microseconds())/1000)+fmt.Sprintf(format, a...))
}

func (g *Rig) label(l string) { g.res.Labels[l]++ }

// Execute runs the history against a fresh resolver and evaluates every oracle clause.
func Execute(h History) *Result {
	// pure pass first: fills the cache of "alone" renders so that no second resolver has to be
	// created while the rig's yield handler is installed
	dry := NewModel()
	for _, st := range h.Steps {
		dry.ApplyFull(st)
	}
	for _, st := range dry.Tail() {
		dry.ApplyFull(st)
	}

	if !lastSettled && !settleGoroutines(lastBaseline, 30*time.Second) {
		noteExpiry()
		return &Result{Labels: map[string]int{"goroutines-of-earlier-case-still-running": 1}, Model: dry,
			Inconclusive: "goroutines of an earlier case are still running; the case was not executed"}
	}
	g := &Rig{bus: newBus(), clock: &Clock{}, conns: map[int]resolve.ConnectionID{}, cfgs: map[int]subCfg{}, m: NewModel(),
		res: &Result{Labels: map[string]int{}}, baseline: runtime.NumGoroutine()}
	g.res.Model = g.m
	g.t0 = time.Now()
	g.rep = &Reporter{bus: g.bus}
	g.sched = &Sched{bus: g.bus}
	g.src = &Source{bus: g.bus, clock: g.clock,
		startMode: func(creator int) string { return g.cfgOf(creator).start },
		hookMode:  func(sub int) string { return g.cfgOf(sub).hook }}
	prev := verifhook.SetHandler(g.sched.handler)
	defer verifhook.SetHandler(prev)
	ctx, cancel := context.WithCancel(context.Background())
	g.cancelResolver = cancel
	g.r = resolve.New(ctx, resolve.ResolverOptions{MaxConcurrency: 16, Reporter: g.rep, AsyncErrorWriter: errorWriter{},
		SubscriptionHeartbeatInterval: time.Hour})

	for i, st := range h.Steps {
		if g.res.Expired != "" {
			break
		}
		g.stepNo, g.m.StepNo = i, i
		g.runTop(st)
	}
	g.stepNo, g.m.StepNo = len(h.Steps), len(h.Steps)
	g.finish()
	return g.res
}

func (g *Rig) modelBegin(st Step, reached bool) { g.m.Begin(st, reached) }

// ---- running steps --------------------------------------------------------------------------

func (g *Rig) runTop(st Step) {
	g.trace("STEP %s", st)
	if st.Split == nil {
		tok := g.m.Open()
		c := g.perform(st)
		g.m.End(st, false)
		if !g.settle(false) {
			return
		}
		g.stamp(tok, st, c)
		g.checkQuiet("after " + st.String())
		return
	}
	g.arm(st)
	tok := g.m.Open()
	call := g.performAsync(st)
	done := call.done
	reached := g.waitPark(st, done)
	if g.res.Expired != "" {
		return
	}
	if !reached {
		g.sched.Disarm()
		g.label("split-not-reached:" + st.Split.Point)
	} else {
		g.res.SplitReached++
		g.label("split-reached:" + st.Split.Point)
		g.trace("  parked at %s", st.Split.Point)
	}
	if st.Op != OpSubscribe {
		// subscribe steps register their model part before the call (the fake source reads it)
		g.modelBegin(st, reached)
	}
	if reached {
		g.noteSplit(st)
		switch st.Split.Point {
		case PtUpdate, PtWFlush:
			g.openGoroutines = 2 // the calling goroutine waits for its fan-out worker, which is parked
			if st.Op != OpEvent {
				g.openGoroutines = 1 // UpdateSubscription delivers on the calling goroutine; start failures are written by the start goroutine
			}
		default:
			g.openGoroutines = 1
		}
	}
	ok := g.settle(reached)
	type pend struct {
		st   Step
		call *callRec
	}
	var blocked []pend
	for _, n := range st.Split.Nested {
		if !ok {
			break // a wait expired: skip the rest, but resume and account for the parent
		}
		if reached && g.m.Blocks(st, n) {
			g.trace("  nested (blocks until resume) %s", n)
			g.label("nested-blocked:" + n.Op)
			blocked = append(blocked, pend{n, g.performAsync(n)})
			if !(n.Op == OpUnsubscribe && g.subs[n.Sub].sync) { // (cancelling a client context returns at once)
				g.openGoroutines++
			}
			continue
		}
		g.trace("  nested %s", n)
		ntok := g.m.Open()
		nc := g.perform(n)
		g.m.End(n, false)
		if ok = g.settle(reached); !ok {
			break
		}
		g.stamp(ntok, n, nc)
		g.checkQuiet("after nested " + n.String() + " inside " + st.String())
	}
	g.openGoroutines = 0
	if reached {
		g.trace("  resume %s", st.Split.Point)
		g.sched.Resume()
	}
	if !g.waitDone(done, "return of "+st.String()) {
		return
	}
	g.m.SetOwner(tok)
	g.m.End(st, reached)
	var btoks []int
	for _, b := range blocked {
		if !g.waitDone(b.call.done, "return of blocked "+b.st.String()) {
			return
		}
		btoks = append(btoks, g.m.Open())
		g.modelBegin(b.st, false)
		g.m.End(b.st, false)
	}
	if !g.settle(false) {
		return
	}
	g.stamp(tok, st, call)
	for i, b := range blocked {
		g.stamp(btoks[i], b.st, b.call)
	}
	g.checkQuiet("after " + st.String())
}

func (g *Rig) arm(st Step) {
	switch st.Split.Point {
	case PtStart, PtInit:
		g.sched.Arm(st.Split.Point, func(any) bool { return !soloBusy.Load() })
	case PtWFlush, PtWComplete, PtWError, PtWHeartbeat:
		target := st.Split.Target
		g.sched.Arm(st.Split.Point, func(key any) bool { i, ok := key.(int); return ok && i == target })
	default:
		var want resolve.SubscriptionIdentifier
		known := false
		if t := st.Split.Target; t >= 0 && t < len(g.subs) {
			want, known = g.idOf(t)
		}
		g.sched.Arm(st.Split.Point, func(key any) bool {
			id, ok := key.(resolve.SubscriptionIdentifier)
			return ok && known && id == want
		})
	}
}

func (g *Rig) waitPark(st Step, done chan struct{}) bool {
	// Windows in a trigger's start goroutine: the call itself (subscribe, releaseStart) returns at
	// once, the goroutine gets to the window later. The model says whether it does.
	if st.Op == OpSubscribe || st.Op == OpReleaseStart {
		expect := g.predicted
		if st.Op == OpReleaseStart {
			expect = g.m.PredictReach(st)
		}
		if !g.waitDone(done, "return of "+st.String()) {
			return false
		}
		if !expect {
			return false
		}
		if !g.bus.Wait(currentWatchdog(), func() bool { return g.sched.Parked() != nil }) {
			g.expired("start goroutine never arrived at " + st.Split.Point)
			return false
		}
		return true
	}
	finished := func() bool {
		select {
		case <-done:
			return true
		default:
			return false
		}
	}
	if !g.bus.Wait(currentWatchdog(), func() bool { return g.sched.Parked() != nil || finished() }) {
		g.expired("neither parked at " + st.Split.Point + " nor returned: " + st.String())
		return false
	}
	return g.sched.Parked() != nil
}

func (g *Rig) waitDone(done chan struct{}, what string) bool {
	t := time.NewTimer(currentWatchdog())
	defer t.Stop()
	select {
	case <-done:
		return true
	case <-t.C:
		g.expired("waiting for " + what)
		return false
	}
}

func (g *Rig) expire(what string) {
	if g.res.Expired == "" {
		g.res.Expired = what
		g.trace("WATCHDOG %s", what)
		noteExpiry()
	}
}

// performAsync runs the step's call in its own goroutine (the model part of a subscribe step is
// applied first, in the calling goroutine).
func (g *Rig) performAsync(st Step) *callRec {
	c := &callRec{done: make(chan struct{})}
	call := g.prepare(st)
	g.wg.Add(1)
	go func() {
		defer g.wg.Done()
		defer close(c.done)
		defer g.recoverPanic(st)
		call()
		c.ret.Store(g.clock.Tick())
		g.bus.Notify()
	}()
	return c
}

// callRec is one call made on behalf of a step: done is closed when it has returned, ret is
// the sequence number taken right at its return (the moment a removing call signals completion).
type callRec struct {
	done chan struct{}
	ret  atomic.Int64
}

// perform runs an unsplit step: model first for subscribe (the fake source looks the subscriber
// up), call, then model for everything else. The call is made from a goroutine of its own so
// that a wedged resolver cannot wedge the harness.
func (g *Rig) perform(st Step) *callRec {
	c := g.performAsync(st)
	g.waitDone(c.done, "return of "+st.String())
	if g.lateShutdown.Load() && !g.unsound {
		g.expired("shutdownResolver did not report SubscriptionCountDec")
	}
	if st.Op != OpSubscribe {
		g.modelBegin(st, false)
	}
	return c
}

func (g *Rig) recoverPanic(st Step) {
	if p := recover(); p != nil {
		g.viol(ClPanic, -1, "", "panic in %s: %v", st, p)
	}
}

func (g *Rig) connID(c int) resolve.ConnectionID {
	if id, ok := g.conns[c]; ok {
		return id
	}
	id := resolve.NewConnectionID()
	g.conns[c] = id
	return id
}

// idOf returns the SubscriptionIdentifier of a subscriber. For the sync API the identifier is
// chosen by the resolver; it is looked up through updater.Subscriptions().
func (g *Rig) idOf(i int) (resolve.SubscriptionIdentifier, bool) {
	s := g.subs[i]
	if s.idKnown {
		return s.id, true
	}
	p := g.m.Subs[i].Period
	creator := -1
	if p >= 0 {
		creator = g.m.Periods[p].Creator
	}
	if creator < 0 {
		return resolve.SubscriptionIdentifier{}, false
	}
	for _, rec := range g.src.StartOf(creator) {
		for c, id := range rec.Updater.Subscriptions() {
			if c == s.ctx {
				s.id, s.idKnown = id, true
				return id, true
			}
		}
	}
	return resolve.SubscriptionIdentifier{}, false
}

func (g *Rig) updater(period int) resolve.SubscriptionUpdater {
	creator := g.m.Periods[period].Creator
	recs := g.src.StartOf(creator)
	if len(recs) == 0 {
		return nil
	}
	return recs[0].Updater
}

// prepare builds the call of a step. For subscribe steps it also applies the model part that
// precedes the window, because the fake source reads the subscriber's configuration from the
// model as soon as the resolver calls it.
func (g *Rig) prepare(st Step) func() {
	switch st.Op {
	case OpSubscribe:
		if st.Sub != len(g.subs) {
			panic(fmt.Sprintf("history: subscribe step carries index %d, expected %d", st.Sub, len(g.subs)))
		}
		reached := false
		if st.Split != nil {
			reached = g.m.PredictReach(st)
			g.predicted = reached
		}
		g.cfgMu.Lock()
		g.cfgs[st.Sub] = subCfg{hook: st.Hook, start: st.StartMode}
		g.cfgMu.Unlock()
		g.modelBegin(st, reached)
		cctx, ccancel := context.WithCancel(context.WithValue(context.Background(), subKey{}, st.Sub))
		rs := &rsub{idx: st.Sub, ctx: cctx, cancelClient: ccancel, sync: st.Sync,
			w: &Writer{Sub: st.Sub, clock: g.clock, bus: g.bus, flushFailAt: st.FlushFailAt, hbFail: st.HBFail, park: g.sched.handler}}
		g.subs = append(g.subs, rs)
		rc := resolve.NewContext(cctx)
		rc.ExecutionOptions.SendHeartbeat = st.HB
		if h := Keys[st.Key].Header; h != "" {
			rc.SubgraphHeadersBuilder = headers{h}
		}
		var src resolve.SubscriptionDataSource = g.src
		if st.Hook != HookNone {
			src = HookSource{g.src}
		}
		plan := BuildPlan(src, st.Key, st.Shape, st.Filter)
		if st.Sync {
			return func() {
				g.wg.Add(1)
				go func() {
					defer g.wg.Done()
					defer func() {
						if p := recover(); p != nil {
							g.viol(ClPanic, rs.idx, "", "panic in ResolveGraphQLSubscription of s%d: %v", rs.idx, p)
							rs.returned.Store(g.clock.Tick())
							g.bus.Notify()
						}
					}()
					rs.retErr = g.r.ResolveGraphQLSubscription(rc, plan, rs.w)
					rs.returned.Store(g.clock.Tick())
					g.bus.Notify()
				}()
			}
		}
		rs.id = resolve.SubscriptionIdentifier{ConnectionID: g.connID(st.Conn), SubscriptionID: int64(st.Sub + 1)}
		rs.idKnown = true
		return func() { rs.subErr = g.r.AsyncResolveGraphQLSubscription(rc, plan, rs.w, rs.id) }
	case OpEvent:
		up := g.updater(st.Period)
		return func() {
			if up != nil {
				up.Update([]byte(EventPayload(st.N, st.K, st.Kind)))
			}
		}
	case OpUpdateSub:
		up := g.updater(st.Period)
		id, ok := g.idOf(st.Sub)
		return func() {
			if up != nil && ok {
				up.UpdateSubscription(id, []byte(EventPayload(st.N, st.K, st.Kind)))
			}
		}
	case OpComplete:
		up := g.updater(st.Period)
		return func() {
			if up != nil {
				up.Complete()
			}
		}
	case OpError:
		up := g.updater(st.Period)
		return func() {
			if up != nil {
				up.Error([]byte(ErrorPayload(st.Period)))
			}
		}
	case OpDone:
		up := g.updater(st.Period)
		return func() {
			if up != nil {
				up.Done()
			}
		}
	case OpCloseSub:
		up := g.updater(st.Period)
		id, ok := g.idOf(st.Sub)
		return func() {
			if up != nil && ok {
				up.CloseSubscription(id)
			}
		}
	case OpHeartbeat:
		up := g.updater(st.Period)
		return func() {
			if hb, ok := up.(interface{ Heartbeat() }); ok && up != nil {
				hb.Heartbeat()
			}
		}
	case OpUnsubscribe:
		rs := g.subs[st.Sub]
		if rs.sync {
			return func() { rs.cancelClient() }
		}
		return func() { _ = g.r.UnsubscribeSubscription(rs.id) }
	case OpRemoveClient:
		id := g.connID(st.Conn)
		return func() { _ = g.r.UnsubscribeClient(id) }
	case OpShutdown:
		already := g.m.Shutdown
		return func() {
			before := g.rep.SubDecCalls.Load()
			g.cancelResolver()
			if already {
				return
			}
			// shutdownResolver runs in a goroutine of its own (context.AfterFunc); it reports
			// SubscriptionCountDec(n) once, also for n == 0, when the registry has been emptied
			if !g.bus.Wait(currentWatchdog(), func() bool { return g.rep.SubDecCalls.Load() > before }) {
				g.lateShutdown.Store(true)
			}
		}
	case OpReleaseStart:
		p := g.m.Periods[st.Period]
		creator, pending := p.Creator, p.Pending
		return func() {
			if pending != PendBlocked {
				return
			}
			for _, rec := range g.src.StartOf(creator) {
				var err error
				if st.Err {
					err = errStart
				}
				select {
				case rec.release <- err:
				default:
				}
			}
		}
	}
	panic("history: unknown op " + st.Op)
}

func isRemoval(op string) bool {
	switch op {
	case OpUnsubscribe, OpRemoveClient, OpCloseSub, OpDone, OpShutdown:
		return true
	}
	return false
}

// noteSplit records the classes of a reached split (C12's non-triviality rule among them).
func (g *Rig) noteSplit(st Step) {
	for _, n := range st.Split.Nested {
		g.label("nested:" + n.Op + "@" + st.Split.Point)
	}
	if st.Op == OpSubscribe {
		return
	}
	p := g.m.Periods[st.Period]
	n := len(p.Subs)
	if g.m.deferredSub >= 0 && !contains(p.Subs, g.m.deferredSub) {
		n++
	}
	if n >= 2 {
		g.label("split-on-shared-trigger")
		for _, nst := range st.Split.Nested {
			if isRemoval(nst.Op) {
				g.res.RacedRemoval = true
			}
		}
	}
}

func contains(xs []int, x int) bool {
	for _, y := range xs {
		if y == x {
			return true
		}
	}
	return false
}

// ---- waiting for asynchronous effects the model says must happen --------------------------------

// settle waits (liveness watchdog) until everything the model says has happened by now is
// observable. Only lower bounds are awaited; equalities are checked afterwards without waiting.
func (g *Rig) settle(parked bool) bool {
	var unmet string
	pred := func() bool {
		unmet = g.unmet(parked)
		return unmet == ""
	}
	if g.bus.Wait(currentWatchdog(), pred) {
		// contexts of triggers that ended inside a resolver goroutine are cancelled a moment after
		// the counters moved
		for _, p := range g.m.Periods {
			if !p.Live && p.AsyncCancel {
				for _, rec := range g.src.StartOf(p.Creator) {
					t := time.NewTimer(currentWatchdog())
					select {
					case <-rec.Ctx.Context().Done():
						t.Stop()
					case <-t.C:
						g.expired(fmt.Sprintf("cancellation of the Start context of trigger period p%d", p.Idx))
						return false
					}
				}
			}
		}
		return true
	}
	g.expired("effects expected by the model did not show: " + unmet)
	return false
}

// expired handles a wait that ran out. The timer alone never makes a verdict: but when, after
// it, exactly the goroutines the executor knows about are left (the parked call, calls blocked on
// it, sync subscribers still inside ResolveGraphQLSubscription, start goroutines inside a blocking
// Start, the resolver's heartbeat loop) nothing is running that could still produce the missing
// effect: it is missing, and the equalities are checked as at any quiet point.
func (g *Rig) expired(what string) {
	g.expire(what)
	want := g.baseline + g.openGoroutines
	if !g.m.Shutdown {
		want++ // the resolver's heartbeat loop
	}
	for _, s := range g.m.Subs {
		if s.Sync && s.Registered && g.subs[s.Idx].returned.Load() == 0 {
			want++
		}
	}
	for _, p := range g.m.Periods {
		if p.Pending == PendBlocked {
			want++
		}
	}
	deadline := time.Now().Add(2 * time.Second)
	for runtime.NumGoroutine() != want {
		if time.Now().After(deadline) {
			// Something is still running (or a call has not even returned): it will act later,
			// in a state the model does not describe. From here on only the clauses that do not
			// depend on the model (sequence numbers of real calls) are sound.
			g.unsound = true
			g.trace("  %d goroutines, %d accounted for: something is still running, no verdict; model-based clauses are off for the rest of the case", runtime.NumGoroutine(), want)
			return
		}
		time.Sleep(time.Millisecond)
	}
	g.trace("  only the %d goroutines accounted for are left: the state is final", want)
	g.label("quiet-at-watchdog")
	when := "nothing left running, yet " + what
	g.checkQuiet(when)
	for _, s := range g.m.Subs {
		if s.Sync && s.Registered && !s.Live && g.subs[s.Idx].returned.Load() == 0 {
			g.viol(ClNotCompleted, s.Idx, "", "%s: s%d was removed (%s) but ResolveGraphQLSubscription is still blocked: its completion was never signalled", when, s.Idx, s.RemovedBy)
		}
		if n := g.expectedItems(s, true); g.subs[s.Idx].w.Items() < n {
			calls, _ := g.subs[s.Idx].w.Snapshot()
			g.viol(ClDelivery, s.Idx, "missing:", "%s: writer of s%d has %d items, the model expects %d by now; writer log: %s", when, s.Idx, g.subs[s.Idx].w.Items(), n, logText(calls))
		}
	}
}

// expectedItems counts the non-heartbeat items the model requires for s by now (all of them
// when everything is requested, else those produced by resolver goroutines).
func (g *Rig) expectedItems(s *MSub, all bool) int {
	need := 0
	for i, e := range s.Exp {
		if !e.Optional && !e.Pending && e.Kind != CHeartbeat && (all || e.Async) {
			need = i + 1
		}
	}
	n := 0
	for _, e := range s.Exp[:need] {
		if !e.Optional && !e.Pending && e.Kind != CHeartbeat {
			n++
		}
	}
	return n
}

func (g *Rig) unmet(parked bool) string {
	m := g.m
	if v := g.rep.SubInc.Load(); v < int64(m.TotSubInc) {
		return fmt.Sprintf("SubscriptionCountInc total %d < %d", v, m.TotSubInc)
	}
	if v := g.rep.SubDec.Load(); v < int64(m.TotSubDec) {
		return fmt.Sprintf("SubscriptionCountDec total %d < %d", v, m.TotSubDec)
	}
	if v := g.rep.TrigInc.Load(); v < int64(m.TotTrigInc) {
		return fmt.Sprintf("TriggerCountInc total %d < %d", v, m.TotTrigInc)
	}
	if v := g.rep.TrigDec.Load(); v < int64(m.TotTrigDec) {
		return fmt.Sprintf("TriggerCountDec total %d < %d", v, m.TotTrigDec)
	}
	// a start goroutine whose trigger has ended still walks through trigger.init.before_store;
	// it must be past it before the next step can arm that window for another goroutine
	if n := g.sched.Count(PtInit); n < m.InitArrivals {
		return fmt.Sprintf("%d start goroutines at %s, model expects %d", n, PtInit, m.InitArrivals)
	}
	for _, p := range m.Periods {
		if p.ExpStarts > 0 {
			recs := g.src.StartOf(p.Creator)
			if len(recs) == 0 {
				return fmt.Sprintf("Start of trigger period p%d not called", p.Idx)
			}
			if p.Pending != PendBlocked && !recs[0].Returned.Load() {
				return fmt.Sprintf("Start of trigger period p%d has not returned", p.Idx)
			}
		}
	}
	for _, s := range m.Subs {
		rs := g.subs[s.Idx]
		if s.Hook != HookNone && s.Registered {
			p := m.Periods[s.Period]
			if !(p.Creator == s.Idx && p.Pending == PendStart) {
				h := g.src.HookOf(s.Idx)
				if len(h) == 0 || !h[0].Exited.Load() {
					return fmt.Sprintf("SubscriptionOnStart hook of s%d has not finished", s.Idx)
				}
			}
		}
		if s.Sync && !s.Live && rs.returned.Load() == 0 {
			return fmt.Sprintf("ResolveGraphQLSubscription of s%d has not returned", s.Idx)
		}
		if n := g.expectedItems(s, parked); n > 0 {
			if got := rs.w.Items(); got < n {
				return fmt.Sprintf("writer of s%d has %d items, model expects at least %d", s.Idx, got, n)
			}
		}
	}
	return ""
}

// stamp records the completion signal of the subscribers the finished step removed.
func (g *Rig) stamp(tok int, st Step, call *callRec) {
	for _, i := range g.m.RemovedBy(tok) {
		rs := g.subs[i]
		ms := g.m.Subs[i]
		if rs.signalSeq != 0 {
			continue
		}
		if rs.sync && !ms.ViaShutdown && rs.returned.Load() != 0 {
			rs.signalSeq = rs.returned.Load()
			rs.signalBy = "return of ResolveGraphQLSubscription (" + ms.RemovedBy + ")"
		} else if !rs.sync && !ms.ViaShutdown && !ms.AsyncRemove && call != nil && call.ret.Load() != 0 {
			// the removing call itself returned then (it may have been launched while another
			// call was parked and have returned long before the executor looks at it)
			rs.signalSeq = call.ret.Load()
			rs.signalBy = "return of " + ms.RemovedBy
		} else {
			rs.signalSeq = g.clock.Tick()
			rs.signalBy = "completion of " + g.m.Subs[i].RemovedBy
		}
		g.trace("  completion of s%d signalled at %d by %s", i, rs.signalSeq, rs.signalBy)
	}
}

// ---- checks at quiet points -----------------------------------------------------------------

func (g *Rig) checkQuiet(when string) {
	if g.unsound {
		return
	}
	m := g.m
	et, es, ec := m.RegistrySizes()
	if t, s, c := g.r.VerifRegistrySizes(); t != et || s != es || c != ec {
		g.viol(ClRegistry, -1, "", "%s: VerifRegistrySizes() = (triggers %d, subscriptions %d, connections %d), model (%d, %d, %d)", when, t, s, c, et, es, ec)
	}
	if inc, dec := g.rep.SubInc.Load(), g.rep.SubDec.Load(); inc-dec != int64(es) {
		g.viol(ClSubCounter, -1, "", "%s: SubscriptionCountInc-Dec = %d-%d = %d, live subscriptions %d", when, inc, dec, inc-dec, es)
	}
	if inc, dec := g.rep.TrigInc.Load(), g.rep.TrigDec.Load(); inc-dec != int64(m.LiveInitialized()) {
		g.viol(ClTrigCounter, -1, "", "%s: TriggerCountInc-Dec = %d-%d = %d, live initialised triggers %d", when, inc, dec, inc-dec, m.LiveInitialized())
		v := &g.res.Violations[len(g.res.Violations)-1]
		v.Got, v.Want = int(inc-dec), m.LiveInitialized()
	}
	g.checkStarts(when)
	for _, s := range m.Subs {
		rs := g.subs[s.Idx]
		if !s.Sync {
			if s.Rejected && rs.subErr == nil {
				g.viol(ClSubscribeResult, s.Idx, "", "%s: AsyncResolveGraphQLSubscription of s%d after shutdown returned nil", when, s.Idx)
			}
			if !s.Rejected && rs.subErr != nil {
				g.viol(ClSubscribeResult, s.Idx, "", "%s: AsyncResolveGraphQLSubscription of s%d failed: %v", when, s.Idx, rs.subErr)
			}
		}
	}
}

func (g *Rig) checkStarts(when string) {
	m := g.m
	byCreator := map[int][]*StartRec{}
	for _, rec := range g.src.Starts() {
		byCreator[rec.Creator] = append(byCreator[rec.Creator], rec)
	}
	creators := map[int]*MPeriod{}
	for _, p := range m.Periods {
		creators[p.Creator] = p
	}
	keys := make([]int, 0, len(byCreator))
	for c := range byCreator {
		keys = append(keys, c)
	}
	sort.Ints(keys)
	for _, c := range keys {
		recs := byCreator[c]
		p := creators[c]
		if p == nil {
			g.viol(ClStartCount, c, "", "%s: Start called with the context of s%d, which did not create a trigger", when, c)
			continue
		}
		if len(recs) > p.ExpStarts {
			g.viol(ClStartCount, c, "", "%s: Start called %d times for trigger period p%d (key%d), model %d", when, len(recs), p.Idx, p.Key, p.ExpStarts)
		}
		for _, rec := range recs {
			if rec.Input != InputOf(p.Key) || rec.Header != Keys[p.Key].Header {
				g.viol(ClStartArgs, c, "", "%s: Start of trigger period p%d got input %s header %q, want %s %q", when, p.Idx, rec.Input, rec.Header, InputOf(p.Key), Keys[p.Key].Header)
			}
			err := rec.Ctx.Context().Err()
			if p.Live && err != nil {
				g.viol(ClCtxCancelled, c, "", "%s: the Start context of live trigger period p%d is already cancelled", when, p.Idx)
			}
			if !p.Live && err == nil {
				g.viol(ClCtxNotCancelled, c, "", "%s: trigger period p%d has ended (%s) but its Start context is not cancelled", when, p.Idx, g.endOf(p))
			}
		}
	}
	for _, p := range m.Periods {
		if len(byCreator[p.Creator]) < p.ExpStarts {
			g.viol(ClStartCount, p.Creator, "", "%s: Start was not called for trigger period p%d", when, p.Idx)
		}
	}
}

func (g *Rig) endOf(p *MPeriod) string {
	for _, s := range g.m.Subs {
		if s.Period == p.Idx && s.RemovedBy != "" {
			return "last removal: " + s.RemovedBy
		}
	}
	return "no subscriber left"
}

// ---- end of the history ---------------------------------------------------------------------

func settleGoroutines(baseline int, d time.Duration) bool {
	deadline := time.Now().Add(d)
	for i := 0; ; i++ {
		if runtime.NumGoroutine() <= baseline {
			return true
		}
		if time.Now().After(deadline) {
			return false
		}
		if i < 200 {
			runtime.Gosched()
		} else {
			time.Sleep(100 * time.Microsecond)
		}
	}
}

func (g *Rig) finish() {
	for _, st := range g.m.Tail() {
		g.runTop(st)
		g.stepNo++
		g.m.StepNo++
	}
	// unconditional teardown (also after a watchdog): nothing of this case may survive it
	g.sched.Disarm()
	g.sched.Resume()
	g.cancelResolver()
	for _, rec := range g.src.Starts() {
		select {
		case rec.release <- nil:
		default:
		}
	}
	for _, rs := range g.subs {
		rs.cancelClient()
	}
	waited := make(chan struct{})
	go func() { g.wg.Wait(); close(waited) }()
	quiet := true
	select {
	case <-waited:
	case <-time.After(currentWatchdog()):
		quiet = false
	}
	if quiet {
		quiet = settleGoroutines(g.baseline, 5*time.Second)
	}
	lastBaseline, lastSettled = g.baseline, quiet
	if !quiet {
		g.label("goroutines-did-not-settle")
		buf := make([]byte, 1<<16)
		buf = buf[:runtime.Stack(buf, true)]
		g.res.Inconclusive = "quiescence could not be established (goroutines still running)\n" + string(buf)
		if g.res.Expired == "" {
			noteExpiry()
		}
	}
	g.stepNo = -1
	g.trace("quiescent=%v model-based clauses=%v", quiet, !g.unsound)
	g.finalOracle(quiet, !g.unsound)
	if g.res.Expired != "" && len(g.res.Violations) == 0 {
		g.res.Inconclusive = "watchdog: " + g.res.Expired + "\n" + strings.Join(g.res.Trace, "\n")
	}
}
