package inputref

import (
	"fmt"
	"strconv"
	"strings"
)

// Reference input coercion, written from the specification:
//   §3.5.1–§3.5.5 built-in scalars "Input Coercion", §3.9 enums, §3.10 input objects
//   (incl. OneOf input objects), §3.11 lists, §3.12 non-null, §6.1.2 CoerceVariableValues,
//   §6.4.1 CoerceArgumentValues.
// JSON variable values and GraphQL literals are coerced by separate functions because the
// rules differ (e.g. a JSON string is an acceptable enum value, a string literal is not).

// Seg is one path segment.
type Seg struct {
	Name    string
	Index   int
	IsIndex bool
}

// Path locates a position inside a variable value; the first segment is the variable name.
type Path []Seg

func (p Path) with(s Seg) Path { return append(append(Path{}, p...), s) }

// String renders "v.a[0].b".
func (p Path) String() string {
	var b strings.Builder
	for i, s := range p {
		if s.IsIndex {
			b.WriteString("[" + strconv.Itoa(s.Index) + "]")
			continue
		}
		if i > 0 {
			b.WriteByte('.')
		}
		b.WriteString(s.Name)
	}
	return b.String()
}

// Compatible reports whether one path is a prefix of the other.
func (p Path) Compatible(q Path) bool {
	n := len(p)
	if len(q) < n {
		n = len(q)
	}
	for i := 0; i < n; i++ {
		if p[i] != q[i] {
			return false
		}
	}
	return true
}

// Issue kinds.
const (
	IssNullInNonNull   = "null-in-nonnull"
	IssMissingVariable = "missing-variable"
	IssMissingField    = "missing-required-field"
	IssUnknownField    = "unknown-field"
	IssWrongKind       = "wrong-kind"
	IssIntNotIntegral  = "int-not-integral"
	IssIntRange        = "int-out-of-range"
	IssIDNotIntegral   = "id-not-integral"
	IssFloatNotFinite  = "float-not-finite"
	IssBadEnum         = "bad-enum-value"
	IssOneOfCount      = "oneof-count"
	IssOneOfNull       = "oneof-null"
	IssDuplicateKey    = "duplicate-key"
)

// Issue is one reason why a value does not coerce.
type Issue struct {
	Path  Path
	Kind  string
	Type  string // type expected at the position
	Got   string // compact text of the offending value
	Field string // for missing-required-field / oneof-null: the field concerned
	// Ctx describes the enclosing input field for recognisers: the nearest enclosing input
	// object field (type.field) and whether it declares a default.
	FieldOwner      string
	FieldHasDefault bool
}

func (i Issue) String() string {
	if i.Field != "" {
		return fmt.Sprintf("%s at %s field %s (expected %s, got %s)", i.Kind, i.Path, i.Field, i.Type, i.Got)
	}
	return fmt.Sprintf("%s at %s (expected %s, got %s)", i.Kind, i.Path, i.Type, i.Got)
}

type coercer struct {
	s      *Schema
	issues []Issue
	// enclosing input field context
	owner      string
	ownerHasDf bool
}

func (c *coercer) add(p Path, kind string, t *Type, got *Value) {
	g := "<absent>"
	if got != nil {
		g = JSONText(got)
		if len(g) > 80 {
			g = g[:80] + "…"
		}
	}
	c.issues = append(c.issues, Issue{Path: p, Kind: kind, Type: t.String(), Got: g, FieldOwner: c.owner, FieldHasDefault: c.ownerHasDf})
}

// CoerceJSON coerces a JSON value to type t. The returned value is meaningful only when no
// issues are returned.
func (s *Schema) CoerceJSON(t *Type, v *Value, root Path) (*Value, []Issue) {
	c := &coercer{s: s}
	out := c.json(t, v, root)
	return out, c.issues
}

func (c *coercer) json(t *Type, v *Value, p Path) *Value {
	if v.K == VNull {
		if t.NonNull {
			c.add(p, IssNullInNonNull, t, v)
		}
		return Null()
	}
	if t.Elem != nil {
		if v.K != VList {
			// §3.11: a non-list, non-null value is coerced as a list of size one.
			return List(c.json(t.Elem, v, p))
		}
		out := &Value{K: VList, L: make([]*Value, 0, len(v.L))}
		for i, x := range v.L {
			out.L = append(out.L, c.json(t.Elem, x, p.with(Seg{Index: i, IsIndex: true})))
		}
		return out
	}
	switch c.s.KindOf(t.Name) {
	case KindInt:
		if v.K != VNum {
			c.add(p, IssWrongKind, t, v)
			return Null()
		}
		d, err := ParseDec(v.N)
		if err != nil || !d.Integral() {
			c.add(p, IssIntNotIntegral, t, v)
			return Null()
		}
		if !d.Int32() {
			c.add(p, IssIntRange, t, v)
			return Null()
		}
		return Num(v.N)
	case KindFloat:
		if v.K != VNum {
			c.add(p, IssWrongKind, t, v)
			return Null()
		}
		return Num(v.N)
	case KindString:
		if v.K != VStr {
			c.add(p, IssWrongKind, t, v)
			return Null()
		}
		return Str(v.S)
	case KindBoolean:
		if v.K != VBool {
			c.add(p, IssWrongKind, t, v)
			return Null()
		}
		return Bool(v.B)
	case KindID:
		switch v.K {
		case VStr:
			return Str(v.S)
		case VNum:
			d, err := ParseDec(v.N)
			if err != nil || !d.Integral() {
				c.add(p, IssIDNotIntegral, t, v)
				return Null()
			}
			if n, ok := d.Int(); ok {
				return Str(n.String())
			}
			return Str(v.N)
		}
		c.add(p, IssWrongKind, t, v)
		return Null()
	case KindCustomScalar:
		return untypedJSON(v)
	case KindEnum:
		if v.K != VStr {
			c.add(p, IssWrongKind, t, v)
			return Null()
		}
		for _, name := range c.s.Enum(t.Name).Values {
			if name == v.S {
				return Str(v.S)
			}
		}
		c.add(p, IssBadEnum, t, v)
		return Null()
	case KindInput:
		in := c.s.Input(t.Name)
		if v.K != VObj {
			c.add(p, IssWrongKind, t, v)
			return Null()
		}
		seen := map[string]bool{}
		for _, m := range v.O {
			if seen[m.Key] {
				c.add(p.with(Seg{Name: m.Key}), IssDuplicateKey, t, m.V)
			}
			seen[m.Key] = true
			if in.Field(m.Key) == nil {
				c.add(p.with(Seg{Name: m.Key}), IssUnknownField, t, m.V)
			}
		}
		out := &Value{K: VObj}
		for i := range in.Fields {
			f := &in.Fields[i]
			ft := f.T()
			fp := p.with(Seg{Name: f.Name})
			fv := v.Get(f.Name)
			if fv == nil {
				if f.HasDefault() {
					dv, err := c.s.DefaultValue(ft, f.Default)
					if err != nil {
						panic(fmt.Sprintf("schema default %s.%s = %s does not coerce: %v", in.Name, f.Name, f.Default, err))
					}
					out.O = append(out.O, Member{f.Name, dv})
				} else if ft.NonNull {
					// located at the object that lacks the field
					c.add(p, IssMissingField, ft, nil)
					c.issues[len(c.issues)-1].Field = f.Name
				}
				continue
			}
			so, sd := c.owner, c.ownerHasDf
			c.owner, c.ownerHasDf = in.Name+"."+f.Name, f.HasDefault()
			out.O = append(out.O, Member{f.Name, c.json(ft, fv, fp)})
			c.owner, c.ownerHasDf = so, sd
		}
		if in.OneOf {
			if len(v.O) != 1 {
				c.add(p, IssOneOfCount, t, v)
			} else if v.O[0].V.K == VNull {
				// a constraint of the object: located at the object
				c.add(p, IssOneOfNull, t, v.O[0].V)
				c.issues[len(c.issues)-1].Field = v.O[0].Key
			}
		}
		return out
	}
	panic("unknown type " + t.Name)
}

// untypedJSON copies a JSON value for a custom scalar position (any value is acceptable).
func untypedJSON(v *Value) *Value { return v.Clone() }

// VarDecl is one variable definition of a client operation.
type VarDecl struct {
	Name    string `json:"name"`
	Type    string `json:"type"`
	Default string `json:"default,omitempty"` // GraphQL literal text; "" = none
}

// T parses the declared type.
func (d *VarDecl) T() *Type { return MustType(d.Type) }

// CoerceVariables is §6.1.2 CoerceVariableValues. vars is the JSON object of the request or
// nil when the request carries none. The result maps every variable that has a runtime value
// (provided or defaulted) to its coerced value; variables without a value are absent.
func (s *Schema) CoerceVariables(decls []VarDecl, vars *Value) (map[string]*Value, []Issue) {
	out := map[string]*Value{}
	var issues []Issue
	for i := range decls {
		d := &decls[i]
		t := d.T()
		root := Path{{Name: d.Name}}
		var v *Value
		if vars != nil {
			v = vars.Get(d.Name)
		}
		hasValue := v != nil
		if !hasValue && d.Default != "" {
			dv, err := s.DefaultValue(t, d.Default)
			if err != nil {
				panic(fmt.Sprintf("variable default $%s = %s does not coerce: %v", d.Name, d.Default, err))
			}
			out[d.Name] = dv
			continue
		}
		if t.NonNull && !hasValue {
			issues = append(issues, Issue{Path: root, Kind: IssMissingVariable, Type: t.String(), Got: "<absent>"})
			continue
		}
		if !hasValue {
			continue
		}
		cv, is := s.CoerceJSON(t, v, root)
		issues = append(issues, is...)
		if len(is) == 0 {
			out[d.Name] = cv
		}
	}
	return out, issues
}

// CoerceOpVariables is CoerceVariableValues for a parsed operation (defaults already parsed).
func (s *Schema) CoerceOpVariables(op *Op, vars *Value) (map[string]*Value, []Issue, error) {
	out := map[string]*Value{}
	var issues []Issue
	for i := range op.Vars {
		d := &op.Vars[i]
		root := Path{{Name: d.Name}}
		var v *Value
		if vars != nil {
			v = vars.Get(d.Name)
		}
		if v == nil && d.Default != nil {
			dv, _, err := s.CoerceLiteral(d.Type, d.Default, nil)
			if err != nil {
				return nil, nil, fmt.Errorf("default of $%s: %w", d.Name, err)
			}
			out[d.Name] = dv
			continue
		}
		if v == nil {
			if d.Type.NonNull {
				issues = append(issues, Issue{Path: root, Kind: IssMissingVariable, Type: d.Type.String(), Got: "<absent>"})
			}
			continue
		}
		cv, is := s.CoerceJSON(d.Type, v, root)
		issues = append(issues, is...)
		if len(is) == 0 {
			out[d.Name] = cv
		}
	}
	return out, issues, nil
}

// DefaultValue coerces a constant literal default (schema or variable default).
func (s *Schema) DefaultValue(t *Type, literal string) (*Value, error) {
	lit, err := ParseLiteral(literal, LexOpts{})
	if err != nil {
		return nil, err
	}
	v, present, err := s.CoerceLiteral(t, lit, nil)
	if err != nil {
		return nil, err
	}
	if !present {
		return nil, fmt.Errorf("default is absent")
	}
	return v, nil
}

// CoerceLiteral coerces a GraphQL literal to type t with the already coerced variable values
// (§3 "Input Coercion" literal rules). present is false when the literal is a variable
// without a runtime value.
func (s *Schema) CoerceLiteral(t *Type, lit *Value, vars map[string]*Value) (v *Value, present bool, err error) {
	if lit.K == VVar {
		val, ok := vars[lit.S]
		if !ok {
			return nil, false, nil
		}
		if val.K == VNull && t.NonNull {
			return nil, true, fmt.Errorf("variable $%s is null at non-null position %s", lit.S, t)
		}
		return val, true, nil
	}
	if lit.K == VNull {
		if t.NonNull {
			return nil, true, fmt.Errorf("null literal for %s", t)
		}
		return Null(), true, nil
	}
	if t.Elem != nil {
		if lit.K != VList {
			item, _, err := s.CoerceLiteral(t.Elem, lit, vars)
			if err != nil {
				return nil, true, err
			}
			return List(item), true, nil
		}
		out := &Value{K: VList, L: []*Value{}}
		for _, x := range lit.L {
			item, ok, err := s.CoerceLiteral(t.Elem, x, vars)
			if err != nil {
				return nil, true, err
			}
			if !ok {
				if t.Elem.NonNull {
					return nil, true, fmt.Errorf("variable without value in list of %s", t.Elem)
				}
				item = Null()
			}
			out.L = append(out.L, item)
		}
		return out, true, nil
	}
	bad := func() (*Value, bool, error) {
		return nil, true, fmt.Errorf("literal %s is not a valid %s", JSONText(lit), t)
	}
	switch s.KindOf(t.Name) {
	case KindInt:
		if lit.K != VNum || lit.FloatLit {
			return bad()
		}
		if d, err := ParseDec(lit.N); err != nil || !d.Int32() {
			return bad()
		}
		return Num(lit.N), true, nil
	case KindFloat:
		if lit.K != VNum {
			return bad()
		}
		return Num(lit.N), true, nil
	case KindString:
		if lit.K != VStr {
			return bad()
		}
		return Str(lit.S), true, nil
	case KindBoolean:
		if lit.K != VBool {
			return bad()
		}
		return Bool(lit.B), true, nil
	case KindID:
		if lit.K == VStr {
			return Str(lit.S), true, nil
		}
		if lit.K == VNum && !lit.FloatLit {
			d, _ := ParseDec(lit.N)
			if n, ok := d.Int(); ok {
				return Str(n.String()), true, nil
			}
			return Str(lit.N), true, nil
		}
		return bad()
	case KindCustomScalar:
		return untypedLiteral(lit, vars), true, nil
	case KindEnum:
		if lit.K != VEnum {
			return bad()
		}
		for _, name := range s.Enum(t.Name).Values {
			if name == lit.S {
				return Str(lit.S), true, nil
			}
		}
		return bad()
	case KindInput:
		in := s.Input(t.Name)
		if lit.K != VObj {
			return bad()
		}
		out := &Value{K: VObj}
		provided := 0
		for _, m := range lit.O {
			if in.Field(m.Key) == nil {
				return nil, true, fmt.Errorf("unknown field %s.%s", in.Name, m.Key)
			}
		}
		for i := range in.Fields {
			f := &in.Fields[i]
			ft := f.T()
			var fv *Value
			ok := false
			if fl := lit.Get(f.Name); fl != nil {
				fv, ok, err = s.CoerceLiteral(ft, fl, vars)
				if err != nil {
					return nil, true, err
				}
			}
			if !ok {
				if f.HasDefault() {
					dv, err := s.DefaultValue(ft, f.Default)
					if err != nil {
						return nil, true, err
					}
					out.O = append(out.O, Member{f.Name, dv})
				} else if ft.NonNull {
					return nil, true, fmt.Errorf("required field %s.%s not provided", in.Name, f.Name)
				}
				continue
			}
			provided++
			if in.OneOf && fv.K == VNull {
				return nil, true, fmt.Errorf("oneOf field %s.%s is null", in.Name, f.Name)
			}
			out.O = append(out.O, Member{f.Name, fv})
		}
		if in.OneOf && (provided != 1 || len(lit.O) != 1) {
			return nil, true, fmt.Errorf("oneOf %s needs exactly one field", in.Name)
		}
		return out, true, nil
	}
	return nil, true, fmt.Errorf("unknown type %s", t.Name)
}

// untypedLiteral is the value of a literal at a custom scalar position: enum names become
// strings, variables are substituted (a variable without value is dropped from objects and
// is null in lists).
func untypedLiteral(lit *Value, vars map[string]*Value) *Value {
	switch lit.K {
	case VEnum:
		return Str(lit.S)
	case VStr:
		return Str(lit.S)
	case VNum:
		return Num(lit.N)
	case VVar:
		if v, ok := vars[lit.S]; ok {
			return v
		}
		return nil
	case VList:
		out := &Value{K: VList, L: []*Value{}}
		for _, x := range lit.L {
			y := untypedLiteral(x, vars)
			if y == nil {
				y = Null()
			}
			out.L = append(out.L, y)
		}
		return out
	case VObj:
		out := &Value{K: VObj, O: []Member{}}
		for _, m := range lit.O {
			if y := untypedLiteral(m.V, vars); y != nil {
				out.O = append(out.O, Member{m.Key, y})
			}
		}
		return out
	}
	return lit.Clone()
}

// EvalArgument is §6.4.1 CoerceArgumentValues for one argument: lit is the argument's value
// in the operation (nil when the argument is not given). present=false means the resolver
// sees no entry for the argument.
func (s *Schema) EvalArgument(def *Field, lit *Value, vars map[string]*Value) (v *Value, present bool, err error) {
	t := def.T()
	hasValue := false
	if lit != nil {
		v, hasValue, err = s.CoerceLiteral(t, lit, vars)
		if err != nil {
			return nil, false, err
		}
	}
	if !hasValue && def.HasDefault() {
		dv, err := s.DefaultValue(t, def.Default)
		return dv, err == nil, err
	}
	if t.NonNull && (!hasValue || v.K == VNull) {
		return nil, false, fmt.Errorf("argument %s of non-null type %s has no value", def.Name, t)
	}
	return v, hasValue, nil
}
