package c08

import (
	"fmt"
	"regexp"
	"sort"
	"strconv"
	"strings"
	"sync"
	"time"

	"pgregory.net/rapid"

	"github.com/wundergraph/graphql-go-tools/v2/pkg/engine/plan"

	"verif/harness/internal/fedgen"
	"verif/harness/internal/ftree"
	"verif/harness/internal/kit"
	"verif/harness/internal/opgen"
	"verif/harness/internal/ref"
	"verif/harness/internal/sim"
	"verif/harness/pbt"
)

type schedCase struct {
	Layout *fedgen.Layout `json:"layout"`
	Seed   uint64         `json:"seed"`
	Op     opgen.Op       `json:"op"`
	Prios  [][]int        `json:"prios"` // per order: priority by fetch id (modulo length)
	Opts   string         `json:"opts"`  // engine option set
}

var schedPart = pbt.Part[schedCase]{Name: "completion-order-independence", Journal: true, Quick: 3000, Thorough: 60000, Check: checkSched,
	Gen: func(t *rapid.T) schedCase {
		l := fedgen.Gen(t, fedgen.Options{Allow: allowFromEnv()})
		super, err := sim.LoadSuper(l.Super)
		if err != nil {
			t.Fatalf("generator produced an invalid supergraph: %v", err)
		}
		c := schedCase{Layout: l, Seed: rapid.Uint64Range(1, 1<<20).Draw(t, "useed"),
			Op:   opgen.Gen(t, super, opgen.Options{ForceName: true, Allow: allowFromEnv(), MaxDepth: 6, Budget: 30}),
			Opts: rapid.SampledFrom([]string{"default", "default", "schedule", "multifetch", "multifetch-schedule"}).Draw(t, "opts")}
		c.Op.OperationName = ""
		n := rapid.IntRange(2, 4).Draw(t, "norders")
		for i := 0; i < n; i++ {
			c.Prios = append(c.Prios, rapid.SliceOfN(rapid.IntRange(0, 99), 12, 12).Draw(t, "prio"))
		}
		return c
	}}

var opNameRe = regexp.MustCompile(`^\s*(?:query|mutation)\s+\w+?__\w+?__(\d+)\b`)

func fetchID(r *sim.Request) int {
	m := opNameRe.FindStringSubmatch(r.Query)
	if m == nil {
		return -1
	}
	n, err := strconv.Atoi(m[1])
	if err != nil {
		return -1
	}
	return n
}

// entityKeys collects "Type|canonical(key fields…)" for every object carrying __typename
// and id in a JSON value.
func entityKeys(v any, out map[string]bool) {
	switch x := v.(type) {
	case map[string]any:
		if tn, ok := x["__typename"].(string); ok {
			if id, ok := x["id"]; ok {
				out[tn+"|id|"+ref.Canon(id)] = true
			}
			if sku, ok := x["sku"]; ok {
				out[tn+"|sku|"+ref.Canon(sku)] = true
			}
			// nested key '@key(fields: "info { kid }")'
			if info, ok := x["info"].(map[string]any); ok {
				if kid, ok := info["kid"]; ok {
					out[tn+"|info.kid|"+ref.Canon(kid)] = true
				}
			}
		}
		for _, vv := range x {
			entityKeys(vv, out)
		}
	case []any:
		for _, vv := range x {
			entityKeys(vv, out)
		}
	}
}

type gatedRun struct {
	res          *kit.Result
	maxParked    int
	violation    string
	inconclusive string
	arrivalLog   []string
}

// runGated executes op with every subgraph request parked on arrival and released in the
// order the priorities dictate, waiting each time for exactly the frontier the tree prescribes.
func runGated(gw *kit.Gateway, op opgen.Op, root *plan.SynchronousResponsePlan, issues map[int]bool, prio []int) *gatedRun {
	gr := &gatedRun{}
	type parkedReq struct {
		id      int
		release chan struct{}
		req     *sim.Request
	}
	var mu sync.Mutex
	parked := map[int]*parkedReq{}
	arrivals := make(chan *parkedReq, 64)
	available := map[string]bool{} // entity keys present in responses already returned
	gw.Transport.Intercept = func(r *sim.Request, answer []byte) *sim.Response {
		p := &parkedReq{id: fetchID(r), release: make(chan struct{}), req: r}
		arrivals <- p
		<-p.release
		return nil
	}
	defer func() { gw.Transport.Intercept = nil }()
	done := make(chan *kit.Result, 1)
	go func() { done <- gw.Execute(op) }()
	completed := map[int]bool{}
	tree := root.Response.Fetches
	releaseAll := func() {
		mu.Lock()
		for id, p := range parked {
			close(p.release)
			delete(parked, id)
		}
		mu.Unlock()
		// drain late arrivals until Execute returns
		for {
			select {
			case p := <-arrivals:
				close(p.release)
			case r := <-done:
				gr.res = r
				return
			case <-time.After(70 * time.Second):
				gr.inconclusive = "execute did not return after releasing everything"
				return
			}
		}
	}
	for {
		expected := ftree.Frontier(tree, func(id int) bool { return issues[id] }, completed)
		// wait until exactly the expected requests are parked (or Execute finished)
		deadline := time.After(20 * time.Second)
	wait:
		for {
			mu.Lock()
			have := len(parked)
			missing := false
			for _, id := range expected {
				if parked[id] == nil {
					missing = true
				}
			}
			mu.Unlock()
			if !missing && have == len(expected) {
				break wait
			}
			select {
			case p := <-arrivals:
				gr.arrivalLog = append(gr.arrivalLog, fmt.Sprintf("arrive #%d %s", p.id, p.req.Subgraph))
				inFrontier := false
				for _, id := range expected {
					if id == p.id {
						inFrontier = true
					}
				}
				if !inFrontier && gr.violation == "" {
					gr.violation = fmt.Sprintf("request of fetch %d (%s) was issued while the fetch tree does not allow it yet: completed %v, allowed in flight %v; tree %s", p.id, p.req.Subgraph, keysInt(completed), expected, ftree.Dump(tree))
				}
				// content causality: every representation must come from a response already returned
				if reps, ok := p.req.Variables["representations"].([]any); ok {
					for _, rep := range reps {
						rm, _ := rep.(map[string]any)
						tn, _ := rm["__typename"].(string)
						okKey := false
						for k, v := range rm {
							if k == "id" || k == "sku" {
								if available[tn+"|"+k+"|"+ref.Canon(v)] {
									okKey = true
								}
							}
							if info, isObj := v.(map[string]any); isObj && k == "info" {
								if available[tn+"|info.kid|"+ref.Canon(info["kid"])] {
									okKey = true
								}
							}
						}
						if !okKey && gr.violation == "" {
							gr.violation = fmt.Sprintf("request of fetch %d carries the representation %s whose entity has not been delivered by any completed request yet", p.id, ref.Canon(rep))
						}
					}
				}
				mu.Lock()
				parked[p.id] = p
				if len(parked) > gr.maxParked {
					gr.maxParked = len(parked)
				}
				mu.Unlock()
			case r := <-done:
				gr.res = r
				if len(expected) > 0 && gr.violation == "" {
					gr.violation = fmt.Sprintf("Execute returned although fetches %v never issued their request (they did in the ungated run)", expected)
				}
				return gr
			case <-deadline:
				gr.inconclusive = fmt.Sprintf("frontier %v did not arrive within 20 s (parked %d)", expected, have)
				releaseAll()
				return gr
			}
		}
		if len(expected) == 0 {
			// nothing may be in flight: Execute must finish
			select {
			case r := <-done:
				gr.res = r
				return gr
			case p := <-arrivals:
				if gr.violation == "" {
					gr.violation = fmt.Sprintf("request of fetch %d (%s) arrived although the tree has no fetch left to run: %s", p.id, p.req.Subgraph, ftree.Dump(tree))
				}
				close(p.release)
				releaseAll()
				return gr
			case <-time.After(70 * time.Second):
				gr.inconclusive = "execute did not return although no fetch is left"
				return gr
			}
		}
		// release the parked request with the highest priority (ties: lowest id)
		best := -1
		for _, id := range expected {
			if best < 0 || prio[id%len(prio)] > prio[best%len(prio)] {
				best = id
			}
		}
		mu.Lock()
		p := parked[best]
		delete(parked, best)
		mu.Unlock()
		// the answer the simulator computed becomes visible to the engine now
		if v, err := ref.Decode([]byte(p.req.ResponseBody)); err == nil {
			entityKeys(v, available)
		}
		gr.arrivalLog = append(gr.arrivalLog, fmt.Sprintf("release #%d", best))
		completed[best] = true
		close(p.release)
	}
}

func keysInt(m map[int]bool) []int {
	var k []int
	for x := range m {
		k = append(k, x)
	}
	sort.Ints(k)
	return k
}

func bodies(reqs []*sim.Request) []string {
	var b []string
	for _, r := range reqs {
		b = append(b, r.Subgraph+" "+r.Body)
	}
	sort.Strings(b)
	return b
}

func canonErrors(body string) []string {
	v, err := ref.Decode([]byte(body))
	if err != nil {
		return []string{"INVALID JSON"}
	}
	m, _ := v.(map[string]any)
	errs, _ := m["errors"].([]any)
	var out []string
	for _, e := range errs {
		out = append(out, ref.Canon(e))
	}
	sort.Strings(out)
	return out
}

func checkSched(c schedCase, o *pbt.Rec) pbt.Verdict {
	eo, ok := engineOptionSets[c.Opts]
	if !ok {
		eo = kit.EngineOptions{}
	}
	eo.PropagateOpName = true
	gw, err := kit.New(c.Layout, c.Seed, eo)
	if err != nil {
		return pbt.Bad("engine construction failed: %v", err)
	}
	defer gw.Close()
	refRes, err := gw.World.Reference(c.Op)
	if err != nil {
		o.Discard("generator-vs-gqlparser")
		return pbt.OK
	}
	base := gw.Execute(c.Op)
	if base.Err != nil || base.Panic != "" {
		o.Discard("ungated-run-fails(C01)")
		return pbt.OK
	}
	bv, derr := ref.Decode([]byte(base.Body))
	if derr != nil {
		o.Discard("ungated-run-invalid-json(C01)")
		return pbt.OK
	}
	bm, _ := bv.(map[string]any)
	if !ref.Equal(bm["data"], ref.Plain(refRes.Data)) {
		o.Discard("ungated-run-differs-from-monolith(C01/C09)")
		return pbt.OK
	}
	issues := map[int]bool{}
	for _, r := range base.Requests {
		id := fetchID(r)
		if id < 0 {
			o.Discard("request-without-propagated-fetch-id")
			return pbt.OK
		}
		if issues[id] {
			o.Discard("fetch-issues-several-requests")
			return pbt.OK
		}
		issues[id] = true
	}
	if len(base.Requests) < 2 {
		o.Discard("fewer-than-2-requests")
		return pbt.OK
	}
	p, err := gw.Plan(c.Op)
	if err != nil {
		o.Discard("plan-rederivation-failed")
		return pbt.OK
	}
	sp, ok := p.(*plan.SynchronousResponsePlan)
	if !ok {
		o.Discard("not-a-synchronous-plan")
		return pbt.OK
	}
	if ftree.PathTwins(sp.Response.Fetches) {
		// two fetches on one response path see each other's merged items: which of them finds
		// something to send (and with which entities) depends on the completion order by
		// construction of the plan, so the set of issuing fetches - which this part needs to
		// know the frontier - is not a function of the plan. The statement demands an order-
		// independent response, not order-independent requests; such plans are left to the
		// structural parts (first seen in the thorough tier: a false alarm of this part).
		o.Discard("plan-with-path-twins(issuing-set-depends-on-order)")
		return pbt.OK
	}
	leaves, _, _ := ftree.Leaves(sp.Response.Fetches)
	for id := range issues {
		if leaves[id] == nil {
			o.Discard("request-fetch-id-not-in-rederived-tree")
			return pbt.OK
		}
	}
	orders := append([][]int{}, c.Prios...)
	asc, desc := make([]int, 64), make([]int, 64)
	for i := range asc {
		asc[i], desc[i] = 64-i, i
	}
	orders = append(orders, asc, desc)
	maxParked := 0
	for oi, prio := range orders {
		if len(prio) == 0 {
			continue
		}
		gr := runGated(gw, c.Op, sp, issues, prio)
		ctx := func() string {
			s := fmt.Sprintf("\noperation: %s\nvariables: %s\nseed: %d options: %s order #%d priorities %v\ntree: %s\nschedule: %s", c.Op.Query, c.Op.VarsJSON(), c.Seed, c.Opts, oi, prio, ftree.Dump(sp.Response.Fetches), strings.Join(gr.arrivalLog, ", "))
			if gr.res != nil {
				s += "\nbody: " + gr.res.Body
			}
			return s
		}
		if gr.inconclusive != "" {
			o.Discard("inconclusive:" + strings.SplitN(gr.inconclusive, " ", 3)[0])
			return pbt.OK
		}
		if gr.violation != "" {
			return pbt.Bad("%s%s", gr.violation, ctx())
		}
		if gr.res == nil {
			o.Discard("inconclusive:no-result")
			return pbt.OK
		}
		if gr.res.Panic != "" || gr.res.Err != nil {
			return pbt.Bad("execution fails under a completion order although the ungated run succeeds: %v %s%s", gr.res.Err, gr.res.Panic, ctx())
		}
		gv, derr := ref.Decode([]byte(gr.res.Body))
		if derr != nil {
			return pbt.Bad("response is not valid JSON under a completion order: %v%s", derr, ctx())
		}
		gm, _ := gv.(map[string]any)
		if !ref.Equal(gm["data"], bm["data"]) {
			return pbt.Bad("data depends on the completion order of concurrent requests\n order:   %s\n ungated: %s%s", ref.Canon(gm["data"]), ref.Canon(bm["data"]), ctx())
		}
		if fmt.Sprint(canonErrors(gr.res.Body)) != fmt.Sprint(canonErrors(base.Body)) {
			return pbt.Bad("errors depend on the completion order (compared as multisets)\n order:   %v\n ungated: %v%s", canonErrors(gr.res.Body), canonErrors(base.Body), ctx())
		}
		if fmt.Sprint(bodies(gr.res.Requests)) != fmt.Sprint(bodies(base.Requests)) {
			// observed only: the statement demands an order-independent response
			o.Label("request-bodies-depend-on-completion-order(observed)")
		}
		if gr.maxParked > maxParked {
			maxParked = gr.maxParked
		}
	}
	o.Label("options:" + c.Opts)
	o.Labelf("max-parked:%d", min(maxParked, 5))
	if maxParked >= 2 {
		o.NonTrivial(ref.JSON(c.Layout.Subs) + c.Op.Query + c.Op.VarsJSON() + fmt.Sprint(c.Seed, c.Prios, c.Opts))
	}
	return pbt.OK
}
