// Package ftree reads post-processed fetch trees (resolve.FetchTreeNode) from the outside:
// the structural dependency invariant of C08 and the Sequence/Parallel frontier used to own
// the completion schedule of subgraph requests.
package ftree

import (
	"fmt"
	"sort"
	"strings"

	"github.com/wundergraph/graphql-go-tools/v2/pkg/engine/resolve"
)

// Leaf is one fetch of the tree.
type Leaf struct {
	ID   int
	Deps []int
	Path []int // child indices from the root
	Item *resolve.FetchItem
}

// Leaves lists every Single node with its position; a fetch id appearing twice is reported.
func Leaves(root *resolve.FetchTreeNode) (map[int]*Leaf, map[string]resolve.FetchTreeNodeKind, error) {
	out := map[int]*Leaf{}
	kinds := map[string]resolve.FetchTreeNodeKind{}
	var dupErr error
	var walk func(n *resolve.FetchTreeNode, path []int)
	walk = func(n *resolve.FetchTreeNode, path []int) {
		if n == nil {
			return
		}
		kinds[fmt.Sprint(path)] = n.Kind
		if n.Kind == resolve.FetchTreeNodeKindSingle {
			if n.Item == nil || n.Item.Fetch == nil {
				return
			}
			d := n.Item.Fetch.Dependencies()
			if prev, dup := out[d.FetchID]; dup && dupErr == nil {
				dupErr = fmt.Errorf("fetch %d appears more than once in the execution order (at %v and %v)", d.FetchID, prev.Path, path)
			}
			out[d.FetchID] = &Leaf{ID: d.FetchID, Deps: append([]int{}, d.DependsOnFetchIDs...), Path: append([]int{}, path...), Item: n.Item}
			return
		}
		for i, c := range n.ChildNodes {
			walk(c, append(path, i))
		}
	}
	walk(root, nil)
	return out, kinds, dupErr
}

// Dump renders the tree compactly: Seq(Par(0[] 1[0]) 2[0 1]).
func Dump(n *resolve.FetchTreeNode) string {
	if n == nil {
		return "nil"
	}
	if n.Kind == resolve.FetchTreeNodeKindSingle {
		if n.Item == nil || n.Item.Fetch == nil {
			return "?"
		}
		d := n.Item.Fetch.Dependencies()
		return fmt.Sprintf("%d%v", d.FetchID, d.DependsOnFetchIDs)
	}
	var parts []string
	for _, c := range n.ChildNodes {
		parts = append(parts, Dump(c))
	}
	k := string(n.Kind)
	if len(k) > 3 {
		k = k[:3]
	}
	return k + "(" + strings.Join(parts, " ") + ")"
}

// CheckOrder verifies, for every dependency edge d → f between leaves of the tree, that
// the lowest common ancestor is a Sequence with d's branch strictly before f's: this is
// equivalent to "d has completed before f is prepared" under every linearisation allowed by
// Sequence/Parallel semantics. Dependencies on ids that are not in the tree are returned
// separately (they are legitimate only if the id was merged away or lives in another tree).
func CheckOrder(root *resolve.FetchTreeNode) (violation string, dangling []string) {
	leaves, kinds, dup := Leaves(root)
	if dup != nil {
		return dup.Error() + ": " + Dump(root), nil
	}
	ids := make([]int, 0, len(leaves))
	for id := range leaves {
		ids = append(ids, id)
	}
	sort.Ints(ids)
	for _, id := range ids {
		f := leaves[id]
		for _, d := range f.Deps {
			dl, ok := leaves[d]
			if !ok {
				dangling = append(dangling, fmt.Sprintf("%d->%d", d, id))
				continue
			}
			if d == id {
				return fmt.Sprintf("fetch %d depends on itself: %s", id, Dump(root)), dangling
			}
			pf, pd := f.Path, dl.Path
			i := 0
			for i < len(pf) && i < len(pd) && pf[i] == pd[i] {
				i++
			}
			lca := kinds[fmt.Sprint(pf[:i])]
			if i >= len(pf) || i >= len(pd) {
				return fmt.Sprintf("malformed tree around fetches %d and %d: %s", d, id, Dump(root)), dangling
			}
			if lca != resolve.FetchTreeNodeKindSequence || pd[i] >= pf[i] {
				return fmt.Sprintf("fetch %d reads results of fetch %d but is not ordered after it (lowest common ancestor is %s, branches %d vs %d): %s", id, d, lca, pd[i], pf[i], Dump(root)), dangling
			}
		}
	}
	return "", dangling
}

// Frontier computes which issuing fetches must be in flight given the completed ones,
// following the loader's recursion (Sequence = one after another, Parallel = all at once).
func Frontier(root *resolve.FetchTreeNode, issues func(id int) bool, completed map[int]bool) (inflight []int) {
	var rec func(n *resolve.FetchTreeNode) (done bool, fl []int)
	rec = func(n *resolve.FetchTreeNode) (bool, []int) {
		if n == nil {
			return true, nil
		}
		switch n.Kind {
		case resolve.FetchTreeNodeKindSingle:
			if n.Item == nil || n.Item.Fetch == nil {
				return true, nil
			}
			id := n.Item.Fetch.Dependencies().FetchID
			if !issues(id) || completed[id] {
				return true, nil
			}
			return false, []int{id}
		case resolve.FetchTreeNodeKindSequence:
			for _, c := range n.ChildNodes {
				d, fl := rec(c)
				if !d {
					return false, fl
				}
			}
			return true, nil
		case resolve.FetchTreeNodeKindParallel:
			all := true
			var out []int
			for _, c := range n.ChildNodes {
				d, fl := rec(c)
				if !d {
					all = false
				}
				out = append(out, fl...)
			}
			return all, out
		}
		return true, nil
	}
	_, fl := rec(root)
	sort.Ints(fl)
	return fl
}

// Before reports whether leaf a is ordered strictly before leaf b under every linearisation
// the tree allows: their lowest common ancestor is a Sequence and a's branch comes first.
func Before(root *resolve.FetchTreeNode, a, b int) bool {
	leaves, kinds, _ := Leaves(root)
	la, lb := leaves[a], leaves[b]
	if la == nil || lb == nil || a == b {
		return false
	}
	pa, pb := la.Path, lb.Path
	i := 0
	for i < len(pa) && i < len(pb) && pa[i] == pb[i] {
		i++
	}
	if i >= len(pa) || i >= len(pb) {
		return false
	}
	return kinds[fmt.Sprint(pa[:i])] == resolve.FetchTreeNodeKindSequence && pa[i] < pb[i]
}

// Container maps every original fetch id to the leaf that carries it in this tree: itself, the
// multi-entity fetch it was merged into, or - for ids that are absent - the leaf for which
// equal(absent id, leaf id) holds (fetch de-duplication keeps one of several equal fetches).
func Container(root *resolve.FetchTreeNode, originals []int, equal func(absent, present int) bool) map[int]int {
	leaves, _, _ := Leaves(root)
	out := map[int]int{}
	for id, l := range leaves {
		out[id] = id
		if m, ok := l.Item.Fetch.(*resolve.MultiEntityFetch); ok {
			for _, x := range m.MergedFetchIDs {
				out[x] = id
			}
		}
	}
	ids := make([]int, 0, len(leaves))
	for id := range leaves {
		ids = append(ids, id)
	}
	sort.Ints(ids)
	for _, o := range originals {
		if _, ok := out[o]; ok {
			continue
		}
		for _, id := range ids {
			if equal != nil && equal(o, id) {
				out[o] = id
				break
			}
		}
	}
	// an id merged into a fetch that was itself merged
	for k, v := range out {
		if w, ok := out[v]; ok && w != v {
			out[k] = w
		}
	}
	return out
}

// PathTwins reports whether two fetches of the tree can see each other's merged items: the
// response path of one is equal to or a prefix of the other's (compared without type
// conditions) and neither depends, directly or transitively, on the other. Which entities
// the deeper one finds then depends on whether the other has already been merged.
func PathTwins(root *resolve.FetchTreeNode) bool {
	leaves, _, _ := Leaves(root)
	paths := map[int][]string{}
	for id, l := range leaves {
		var p []string
		for _, pe := range l.Item.FetchPath {
			p = append(p, strings.Join(pe.Path, "."))
		}
		paths[id] = p
	}
	var reach func(from, to int, seen map[int]bool) bool
	reach = func(from, to int, seen map[int]bool) bool {
		if from == to {
			return true
		}
		if seen[from] {
			return false
		}
		seen[from] = true
		if l := leaves[from]; l != nil {
			for _, d := range l.Deps {
				if reach(d, to, seen) {
					return true
				}
			}
		}
		return false
	}
	isPrefix := func(a, b []string) bool {
		if len(a) > len(b) {
			return false
		}
		for i := range a {
			if a[i] != b[i] {
				return false
			}
		}
		return true
	}
	for a, pa := range paths {
		if len(pa) == 0 {
			continue
		}
		for b, pb := range paths {
			if a == b || len(pb) == 0 || !isPrefix(pa, pb) {
				continue
			}
			if !reach(a, b, map[int]bool{}) && !reach(b, a, map[int]bool{}) {
				return true
			}
		}
	}
	return false
}
