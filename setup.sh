#!/bin/bash
# Builds every property's test binary once (offline) so later checks only relink what changed.
set -u
cd "$(dirname "$0")/harness"
export GOFLAGS=-mod=mod GOPROXY=off
unset GOSUMDB GOTOOLCHAIN
mkdir -p ../.build
rc=0
for d in props/*/; do
  p=$(basename "$d")
  go test -c -tags verif -vet=off -o ../.build/$p.test ./props/$p || rc=1
done
exit $rc
