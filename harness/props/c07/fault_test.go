package c07

import (
	"bytes"
	"compress/gzip"
	"encoding/json"
	"errors"
	"fmt"
	"hash/fnv"
	"io"
	"net/http"
	"os"
	"regexp"
	"sort"
	"strings"
	"sync"

	"github.com/vektah/gqlparser/v2"
	"github.com/vektah/gqlparser/v2/ast"
	"pgregory.net/rapid"

	"verif/harness/internal/fedgen"
	"verif/harness/internal/kit"
	"verif/harness/internal/opgen"
	"verif/harness/internal/opshrink"
	"verif/harness/internal/ref"
	"verif/harness/internal/sim"
	"verif/harness/pbt"
)

// Fault is one injected fault: which fault-free request (index into the key-sorted list,
// modulo its length) and what happens to it.
type Fault struct {
	Req  int    `json:"req"`
	Kind string `json:"kind"`
}

type faultCase struct {
	Layout *fedgen.Layout `json:"layout"`
	Seed   uint64         `json:"seed"`
	Op     opgen.Op       `json:"op"`
	Faults []Fault        `json:"faults"`
	Enum   bool           `json:"enumerate,omitempty"` // enumerate all single faults and transport pairs instead of Faults
	// Requires marks cases of the @requires part: a well-formed null answer legitimately lets
	// the dependent fetch run with a null required field while a transport failure skips it, so
	// the fault-kind independence relation is not applied there.
	Requires bool `json:"requires,omitempty"`
	// Validate builds the engine with the "validate required external fields" switches on
	// (planner and resolver); the partial-null-error kind is only injected there.
	Validate bool `json:"validate_requires,omitempty"`
}

// failure kinds named by the property statement (an error must be reported) …
var failKinds = []string{"transport", "http500", "http500-body", "http404", "empty-body", "non-json", "errors-without-data", "errors-without-data-rich", "body-read-error", "bad-gzip"}

// … kinds that only apply to entity requests …
var entityKinds = []string{"entities-short", "entities-long", "entities-not-array"}

// … and kinds for which only well-formedness and "nulling only" are demanded
var softKinds = []string{"data-null", "http500-complete-body"}

// nonFaults must not change the response at all
var nonFaults = []string{"gzip-ok"}

func allowFromEnv() map[string]bool {
	m := map[string]bool{}
	for _, c := range strings.Split(os.Getenv("C07_ALLOW"), ",") {
		if c != "" {
			m[c] = true
		}
	}
	return m
}

func genCase(t *rapid.T, requires, noChain bool) faultCase {
	// a fetch that serves two places with different producers (merged by fetch de-duplication)
	// is skipped as a whole when one producer fails: finding C07-merged-fetch-skipped-as-a-whole;
	// the layouts and operations that lead to such fetches are kept out by construction
	multi := allowFromEnv()["multi-producer-fetch"]
	l := fedgen.Gen(t, fedgen.Options{Allow: allowFromEnv(), NoRequires: !allowFromEnv()["requires"] && !requires,
		Exclude: map[string]bool{"split-iface-composite": !multi, "provides-on-iface-field": !multi, "requires-chain": noChain}})
	super, err := sim.LoadSuper(l.Super)
	if err != nil {
		t.Fatalf("generator produced an invalid supergraph: %v", err)
	}
	return faultCase{Layout: l, Seed: rapid.Uint64Range(1, 1<<20).Draw(t, "useed"),
		Op: opgen.Gen(t, super, opgen.Options{Mutations: allowFromEnv()["mutation-sequence"], ForceName: true, Allow: allowFromEnv(), NoMirrored: !multi})}
}

var faultPart = pbt.Part[faultCase]{Name: "fault-isolation-random", Journal: true, Quick: 7000, Thorough: 140000, Check: checkFault,
	Gen: func(t *rapid.T) faultCase {
		c := genCase(t, false, false)
		n := rapid.IntRange(1, 3).Draw(t, "nfaults")
		kinds := append(append(append(append([]string{}, failKinds...), entityKinds...), softKinds...), nonFaults...)
		for i := 0; i < n; i++ {
			c.Faults = append(c.Faults, Fault{Req: rapid.IntRange(0, 11).Draw(t, "req"), Kind: rapid.SampledFrom(kinds).Draw(t, "kind")})
		}
		return c
	}}

// requiresPart: layouts with @requires fields (chains of dependent fetches), transport
// failures only. After any other failure kind the gateway still sends the dependent fetch
// with a null required field (finding C07-requires-fetch-sent-with-null-required-field), so
// the other parts keep @requires out; a transport failure makes it skip the dependants,
// and that skip has to carry through every later hop of the chain.
var requiresPart = pbt.Part[faultCase]{Name: "fault-isolation-requires-transport", Journal: true, Quick: 14000, Thorough: 80000, Check: checkFault,
	Gen: func(t *rapid.T) faultCase {
		// with the validation switches on, the second hop of a @requires chain is still sent with
		// a null required field (its own input was never fetched): same family as the recorded
		// finding C07-requires-fetch-sent-with-null-required-field; chains only without Validate
		validate := rapid.Bool().Draw(t, "validate")
		c := genCase(t, true, validate && !allowFromEnv()["requires-chain-validated"])
		c.Requires = true
		c.Validate = validate
		kinds := []string{"transport", "transport", "transport", "gzip-ok"}
		if c.Validate {
			kinds = []string{"transport", "partial-null-error", "partial-null-error", "gzip-ok"}
		}
		n := rapid.IntRange(1, 2).Draw(t, "nfaults")
		for i := 0; i < n; i++ {
			c.Faults = append(c.Faults, Fault{Req: rapid.IntRange(0, 11).Draw(t, "req"), Kind: rapid.SampledFrom(kinds).Draw(t, "kind")})
		}
		return c
	}}

var enumPart = pbt.Part[faultCase]{Name: "fault-isolation-enumeration", Journal: true, Quick: 700, Thorough: 14000, Check: checkFault,
	Gen: func(t *rapid.T) faultCase {
		c := genCase(t, false, false)
		c.Enum = true
		return c
	}}

// reqKey identifies a request by content (arrival order is schedule dependent).
func reqKey(r *sim.Request) string {
	return r.Subgraph + "\x00" + r.Query + "\x00" + ref.Canon(anyMap(r.Variables))
}

func anyMap(m map[string]any) any {
	if m == nil {
		return map[string]any{}
	}
	return m
}

type errReader struct {
	data []byte
	done bool
}

func (e *errReader) Read(p []byte) (int, error) {
	if e.done {
		return 0, errors.New("injected: connection reset while reading the body")
	}
	e.done = true
	n := copy(p, e.data)
	return n, nil
}
func (e *errReader) Close() error { return nil }

func entityCount(r *sim.Request) int {
	reps, _ := r.Variables["representations"].([]any)
	return len(reps)
}

func isEntityRequest(r *sim.Request) bool { return strings.Contains(r.Query, "_entities(") }

// faultSchema is the supergraph of the case being checked (one case at a time per process),
// faultRequired the "Type.field" coordinates some @requires selection names.
var faultSchema *ast.Schema
var faultRequired map[string]bool

// faultNulled collects the field names the partial failure has nulled in the current case.
var (
	faultNulledMu sync.Mutex
	faultNulled   = map[string]bool{}
)

func faultNullable(typ, field string) bool {
	if faultSchema == nil {
		return false
	}
	td := faultSchema.Types[typ]
	if td == nil {
		return false
	}
	fd := td.Fields.ForName(field)
	return fd != nil && !fd.Type.NonNull
}

// respond builds the faulted response for one request.
func respond(kind string, r *sim.Request, answer []byte) *sim.Response {
	switch kind {
	case "transport":
		// the text of a transport error is controlled by the peer and by net/http: quotes,
		// backslashes, control characters and non-ASCII occur ('malformed HTTP response "…"')
		msgs := []string{
			"injected: connection refused",
			`malformed HTTP response "\x15\x03\x01\x00\x02\x02"`,
			"bad Content-Length \"12x\"",
			"read tcp 127.0.0.1:1->127.0.0.1:2: read: connection reset by peer",
			"unexpected EOF",
			"tls: failed to verify certificate: x509: certificate is valid for \"a\", not \"b\"",
			"line1\nline2\ttab \\ backslash \u0000 nul é😀 </script>",
			"",
		}
		h := fnv.New32a()
		h.Write([]byte(r.Body))
		return &sim.Response{Err: errors.New(msgs[h.Sum32()%uint32(len(msgs))])}
	case "http500":
		return &sim.Response{Status: 500, Body: []byte{}}
	case "http500-body":
		return &sim.Response{Status: 500, Body: []byte("internal error")}
	case "http404":
		return &sim.Response{Status: 404, Body: []byte("not found")}
	case "empty-body":
		return &sim.Response{Status: 200, Body: []byte{}}
	case "non-json":
		return &sim.Response{Status: 200, Body: []byte("<html>oops</html>")}
	case "errors-without-data":
		return &sim.Response{Status: 200, Body: []byte(`{"errors":[{"message":"injected: subgraph failed"}]}`)}
	case "errors-without-data-rich":
		// the same failure as real servers spell it: several errors with locations (graphql-java
		// reports an unknown location as -1/-1; others send 0, floats or strings), paths and extensions
		return &sim.Response{Status: 200, Body: []byte(`{"errors":[{"message":"injected: subgraph failed","locations":[{"line":-1,"column":-1}],"path":["_entities",0,"x"],"extensions":{"code":"INTERNAL_SERVER_ERROR","n":1.5,"nested":{"a":[1,null]}}},{"message":"second","locations":[{"line":0,"column":0},{"line":2.0,"column":"7"}],"path":null,"extensions":null},{"message":"third","locations":[]}],"data":null}`)}
	case "partial-null-error":
		// a partial failure: one field of one entity is null and an error points at it (what a
		// subgraph sends when a single resolver fails); only used with Validate
		v, err := ref.Decode(answer)
		if err != nil {
			return nil
		}
		m, _ := v.(map[string]any)
		d, _ := m["data"].(map[string]any)
		ents, _ := d["_entities"].([]any)
		// the first entity with a non-null field; else the first field of the first entity
		// (a resolver error on a field that would have been null anyway)
		// which entity fails varies with the request (deterministically)
		start := 0
		if len(ents) > 0 {
			h := fnv.New32a()
			h.Write([]byte(r.Body))
			start = int(h.Sum32() % uint32(len(ents)))
		}
		for pass := 0; pass < 2; pass++ {
			for j := range ents {
				i := (start + j) % len(ents)
				e := ents[i]
				em, _ := e.(map[string]any)
				var keys []string
				tn, _ := em["__typename"].(string)
				for k, x := range em {
					// only a field the schema declares nullable can come back null (aliased
					// keys are not resolved: skipped)
					if k != "__typename" && (x != nil || pass == 1) && faultNullable(tn, k) {
						keys = append(keys, k)
					}
				}
				sort.Strings(keys)
				if len(keys) == 0 {
					continue
				}
				// a field some @requires needs comes first: its failure is what the validation
				// switches are about
				for _, k := range keys {
					if faultRequired[tn+"."+k] {
						keys[0] = k
						break
					}
				}
				em[keys[0]] = nil
				faultNulledMu.Lock()
				faultNulled[keys[0]] = true
				faultNulledMu.Unlock()
				m["errors"] = []any{map[string]any{"message": "injected: resolver failed", "path": []any{"_entities", i, keys[0]}}}
				return &sim.Response{Status: 200, Body: []byte(ref.JSON(m))}
			}
		}
		// nothing but __typename selected: the request fails as a whole
		return &sim.Response{Status: 200, Body: []byte(`{"errors":[{"message":"injected: subgraph failed"}]}`)}
	case "body-read-error":
		half := answer[:len(answer)/2]
		return &sim.Response{Status: 200, BodyReader: &errReader{data: half}}
	case "bad-gzip":
		return &sim.Response{Status: 200, Body: answer, Header: http.Header{"Content-Encoding": []string{"gzip"}}}
	case "data-null":
		return &sim.Response{Status: 200, Body: []byte(`{"data":null}`)}
	case "http500-complete-body":
		return &sim.Response{Status: 500, Body: answer}
	case "gzip-ok":
		var b bytes.Buffer
		zw := gzip.NewWriter(&b)
		_, _ = zw.Write(answer)
		_ = zw.Close()
		return &sim.Response{Status: 200, Body: b.Bytes(), Header: http.Header{"Content-Encoding": []string{"gzip"}}}
	case "entities-short":
		return &sim.Response{Status: 200, Body: []byte(`{"data":{"_entities":[]}}`)}
	case "entities-long":
		n := entityCount(r) + 2
		return &sim.Response{Status: 200, Body: []byte(`{"data":{"_entities":[` + strings.TrimSuffix(strings.Repeat("null,", n), ",") + `]}}`)}
	case "entities-not-array":
		return &sim.Response{Status: 200, Body: []byte(`{"data":{"_entities":{}}}`)}
	case "honest-null":
		// a well-formed GraphQL answer that delivers nothing: the reference point of the
		// fault-kind-independence relation
		if isEntityRequest(r) {
			n := entityCount(r)
			if n == 0 {
				return &sim.Response{Status: 200, Body: []byte(`{"data":{"_entities":[]},"errors":[{"message":"honest"}]}`)}
			}
			return &sim.Response{Status: 200, Body: []byte(`{"data":{"_entities":[` + strings.TrimSuffix(strings.Repeat("null,", n), ",") + `]},"errors":[{"message":"honest"}]}`)}
		}
		return &sim.Response{Status: 200, Body: []byte(`{"data":null,"errors":[{"message":"honest"}]}`)}
	}
	return nil
}

func kindApplies(kind string, r *sim.Request) bool {
	if kind == "partial-null-error" {
		return isEntityRequest(r) && entityCount(r) > 0
	}
	for _, k := range entityKinds {
		if k == kind {
			// multi-entity documents (aliased _entities) are not produced by the default engine
			return isEntityRequest(r) && entityCount(r) > 0
		}
	}
	return true
}

func isSoft(kind string) bool {
	for _, k := range softKinds {
		if k == kind {
			return true
		}
	}
	return false
}

func isNonFault(kind string) bool { return kind == "gzip-ok" }

type runResult struct {
	res    *kit.Result
	data   any
	errs   []any
	reqs   map[string]int // key → count
	hit    map[string]bool
	parsed bool
}

// run executes op with faults (key → kind) injected.
func run(gw *kit.Gateway, op opgen.Op, faults map[string]string) *runResult {
	rr := &runResult{reqs: map[string]int{}, hit: map[string]bool{}}
	gw.Transport.Intercept = func(r *sim.Request, answer []byte) *sim.Response {
		k := reqKey(r)
		if kind, ok := faults[k]; ok {
			r.Faulted = kind
			return respond(kind, r, answer)
		}
		return nil
	}
	rr.res = gw.Execute(op)
	gw.Transport.Intercept = nil
	for _, r := range rr.res.Requests {
		rr.reqs[reqKey(r)]++
		if r.Faulted != "" {
			rr.hit[reqKey(r)] = true
		}
	}
	if v, err := ref.Decode([]byte(rr.res.Body)); err == nil {
		if m, ok := v.(map[string]any); ok {
			rr.parsed = true
			rr.data = m["data"]
			rr.errs, _ = m["errors"].([]any)
			for k := range m {
				if k != "data" && k != "errors" && k != "extensions" {
					rr.parsed = false
				}
			}
		}
	}
	return rr
}

// refines reports whether f is obtained from d0 by replacing subtrees with null only.
func refines(d0, f any, path string) string {
	if f == nil {
		return ""
	}
	switch x := f.(type) {
	case map[string]any:
		m0, ok := d0.(map[string]any)
		if !ok {
			return fmt.Sprintf("%s: object where the fault-free response has %s", path, ref.Canon(d0))
		}
		if len(m0) != len(x) {
			return fmt.Sprintf("%s: keys differ from the fault-free response", path)
		}
		keys := make([]string, 0, len(x))
		for k := range x {
			keys = append(keys, k)
		}
		sort.Strings(keys)
		for _, k := range keys {
			v0, ok := m0[k]
			if !ok {
				return fmt.Sprintf("%s.%s: key absent in the fault-free response", path, k)
			}
			if s := refines(v0, x[k], path+"."+k); s != "" {
				return s
			}
		}
		return ""
	case []any:
		a0, ok := d0.([]any)
		if !ok || len(a0) != len(x) {
			return fmt.Sprintf("%s: list differs in length/kind from the fault-free response", path)
		}
		for i := range x {
			if s := refines(a0[i], x[i], fmt.Sprintf("%s[%d]", path, i)); s != "" {
				return s
			}
		}
		return ""
	}
	if !ref.Equal(d0, f) {
		return fmt.Sprintf("%s: value %s differs from the fault-free %s (a fault may only null data, never change it)", path, ref.Canon(f), ref.Canon(d0))
	}
	return ""
}

// delivered lists the (type, number, response key) triples a request's answer delivers:
// the top-level response keys per entity (or per root object).
func delivered(w *sim.World, r *sim.Request, only map[string]bool) (map[string]bool, bool) {
	out := map[string]bool{}
	sub := w.Subs[r.Subgraph]
	if sub == nil {
		return nil, false
	}
	doc, errs := gqlparser.LoadQuery(sub.Schema, r.Query)
	if errs != nil || len(doc.Operations) == 0 {
		return nil, false
	}
	op := doc.Operations[0]
	keysFor := func(set ast.SelectionSet, typ string) []string {
		var keys []string
		var walk func(set ast.SelectionSet)
		walk = func(set ast.SelectionSet) {
			for _, s := range set {
				switch x := s.(type) {
				case *ast.Field:
					if x.Name == "__typename" {
						continue
					}
					k := x.Alias
					if k == "" {
						k = x.Name
					}
					keys = append(keys, k)
				case *ast.InlineFragment:
					if x.TypeCondition == "" || x.TypeCondition == typ {
						walk(x.SelectionSet)
					} else if td := sub.Schema.Types[x.TypeCondition]; td != nil && td.Kind != ast.Object {
						for _, p := range sub.Schema.GetPossibleTypes(td) {
							if p.Name == typ {
								walk(x.SelectionSet)
							}
						}
					}
				case *ast.FragmentSpread:
					if fd := doc.Fragments.ForName(x.Name); fd != nil {
						walk(ast.SelectionSet{&ast.InlineFragment{TypeCondition: fd.TypeCondition, SelectionSet: fd.SelectionSet}})
					}
				}
			}
		}
		walk(set)
		return keys
	}
	for _, sel := range op.SelectionSet {
		f, ok := sel.(*ast.Field)
		if !ok {
			return nil, false
		}
		if f.Name == "_entities" {
			if f.Alias != "" && f.Alias != "_entities" {
				return nil, false // multi-fetch documents: not analysed
			}
			reps, _ := r.Variables["representations"].([]any)
			for _, rep := range reps {
				rm, _ := rep.(map[string]any)
				tn, _ := rm["__typename"].(string)
				n := -1
				for _, v := range rm {
					if s, ok := v.(string); ok {
						if _, _, nn, ok := ref.ParseKeyScalar(s); ok {
							n = nn
						}
					}
				}
				if tn == "" || n < 0 {
					return nil, false
				}
				if only != nil && !only[ref.Canon(rep)] {
					continue
				}
				for _, k := range keysFor(f.SelectionSet, tn) {
					out[fmt.Sprintf("%s/%d/%s", tn, n, k)] = true
				}
			}
			continue
		}
		rootType := "Query"
		if op.Operation == ast.Mutation {
			rootType = "Mutation"
		}
		k := f.Alias
		if k == "" {
			k = f.Name
		}
		if f.Name != "__typename" {
			out[fmt.Sprintf("%s/0/%s", rootType, k)] = true
		}
	}
	return out, true
}

func checkFault(c faultCase, o *pbt.Rec) pbt.Verdict {
	gw, err := kit.New(c.Layout, c.Seed, kit.EngineOptions{ValidateRequires: c.Validate})
	if err != nil {
		return pbt.Bad("engine construction failed: %v", err)
	}
	defer gw.Close()
	faultSchema = gw.World.Super
	faultNulledMu.Lock()
	faultNulled = map[string]bool{}
	faultNulledMu.Unlock()
	faultRequired = map[string]bool{}
	for coord, sel := range c.Layout.Requires {
		typ := strings.SplitN(coord, ".", 2)[0]
		for _, f := range strings.Fields(sel) {
			faultRequired[typ+"."+f] = true
		}
	}
	refRes, err := gw.World.Reference(c.Op)
	if err != nil {
		o.Discard("generator-vs-gqlparser")
		return pbt.OK
	}
	base := run(gw, c.Op, nil)
	if base.res.Err != nil || base.res.Panic != "" || !base.parsed || !ref.Equal(base.data, ref.Plain(refRes.Data)) {
		o.Discard("fault-free-run-differs-from-monolith(C01)")
		return pbt.OK
	}
	for _, r := range base.res.Requests {
		if len(r.Complaints) > 0 {
			o.Discard("fault-free-run-has-invalid-requests(C01)")
			return pbt.OK
		}
	}
	if len(base.res.Requests) < 2 {
		o.Discard("fewer-than-2-requests")
		return pbt.OK
	}
	// key-sorted distinct fault-free requests
	byKey := map[string]*sim.Request{}
	var keys []string
	for _, r := range base.res.Requests {
		k := reqKey(r)
		if _, ok := byKey[k]; !ok {
			byKey[k] = r
			keys = append(keys, k)
		}
	}
	sort.Strings(keys)

	var faultSets []map[string]string
	if c.Enum {
		if len(keys) > 6 {
			o.Discard("enumeration-needs-<=6-requests")
			return pbt.OK
		}
		kinds := append(append(append([]string{}, failKinds...), entityKinds...), softKinds...)
		for _, k := range keys {
			for _, kind := range kinds {
				if kindApplies(kind, byKey[k]) {
					faultSets = append(faultSets, map[string]string{k: kind})
				}
			}
		}
		for i := range keys {
			for j := i + 1; j < len(keys); j++ {
				faultSets = append(faultSets, map[string]string{keys[i]: "transport", keys[j]: "http500"})
			}
		}
	} else {
		fs := map[string]string{}
		for _, f := range c.Faults {
			k := keys[f.Req%len(keys)]
			if !kindApplies(f.Kind, byKey[k]) {
				continue
			}
			if _, dup := fs[k]; !dup {
				fs[k] = f.Kind
			}
		}
		if len(fs) == 0 {
			o.Discard("no-applicable-fault")
			return pbt.OK
		}
		faultSets = append(faultSets, fs)
	}
	for _, fs := range faultSets {
		v, nontrivial := checkOneFaultSet(gw, c, base, byKey, fs, o)
		if v.Msg != "" {
			return v
		}
		key := ""
		if nontrivial {
			key = ref.JSON(c.Layout.Subs) + c.Op.Query + c.Op.VarsJSON() + fmt.Sprint(c.Seed) + ref.JSON(fs)
		}
		if c.Enum {
			o.Sub(key)
		} else if nontrivial {
			o.NonTrivial(key)
		}
	}
	return pbt.OK
}

func describe(c faultCase, fs map[string]string, runs ...*runResult) string {
	var sb strings.Builder
	fmt.Fprintf(&sb, "\noperation: %s\nvariables: %s\nseed: %d\nfaults:\n", c.Op.Query, c.Op.VarsJSON(), c.Seed)
	var ks []string
	for k := range fs {
		ks = append(ks, k)
	}
	sort.Strings(ks)
	for _, k := range ks {
		p := strings.SplitN(k, "\x00", 3)
		fmt.Fprintf(&sb, "  %-22s %s %s vars %s\n", fs[k], p[0], p[1], p[2])
	}
	for i, r := range runs {
		if r == nil {
			continue
		}
		fmt.Fprintf(&sb, "run %d: body %s err %v\n", i, r.res.Body, r.res.Err)
		for _, q := range r.res.Requests {
			fmt.Fprintf(&sb, "    -> %s %s  [%s]\n", q.Subgraph, q.Body, q.Faulted)
		}
	}
	return sb.String()
}

func checkOneFaultSet(gw *kit.Gateway, c faultCase, base *runResult, byKey map[string]*sim.Request, fs map[string]string, o *pbt.Rec) (pbt.Verdict, bool) {
	f := run(gw, c.Op, fs)
	ctx := func(extra ...*runResult) string {
		return describe(c, fs, append([]*runResult{base, f}, extra...)...)
	}
	// (1) one well-formed response, promptly (watchdog), no panic
	if f.res.Panic != "" {
		return pbt.Bad("Execute panicked under faults: %s%s", f.res.Panic, ctx()), false
	}
	if f.res.TimedOut {
		return pbt.Bad("Execute did not return within the watchdog under faults%s", ctx()), false
	}
	if f.res.Err != nil {
		return pbt.Bad("Execute returned an error instead of a response under faults: %v%s", f.res.Err, ctx()), false
	}
	if !f.parsed {
		return pbt.Bad("response under faults is not one well-formed GraphQL response object: %q%s", f.res.Body, ctx()), false
	}
	allNon, anySoft, anyHit := true, false, false
	for k, kind := range fs {
		if !isNonFault(kind) {
			allNon = false
		}
		if isSoft(kind) {
			anySoft = true
		}
		if f.hit[k] {
			anyHit = true
		}
		o.Label("kind:" + kind)
	}
	if !anyHit {
		o.Label("fault-not-reached")
		return pbt.OK, false
	}
	if allNon {
		if !ref.Equal(f.data, base.data) || len(f.errs) != len(base.errs) {
			return pbt.Bad("a correctly gzip-encoded subgraph response changed the client response%s", ctx()), false
		}
		return pbt.OK, false
	}
	// (3a) faults only null data
	if s := refines(base.data, f.data, "data"); s != "" {
		// recorded: with the validation switches on, an entity withheld from one fetch (its
		// required input failed) is still sent to a later @requires fetch whose own input was
		// to come from the withheld fetch, with that input null
		partial := false
		for k, kind := range fs {
			if kind == "partial-null-error" && f.hit[k] {
				partial = true
			}
		}
		// … and only when the null input is NOT the field the injected failure nulled (that
		// entity must have been withheld: a miss there is a plain violation)
		m := regexp.MustCompile(`value "req\(\{\\"(\w+)\\":null`).FindStringSubmatch(s)
		faultNulledMu.Lock()
		own := m != nil && faultNulled[m[1]]
		faultNulledMu.Unlock()
		if c.Validate && partial && m != nil && !own {
			return pbt.BadKnown("C07-requires-chain-second-hop-sent-with-null", "fault changed data other than by nulling: %s%s", s, ctx()), false
		}
		return pbt.Bad("fault changed data other than by nulling: %s%s", s, ctx()), false
	}
	// (4) no fabricated requests: same subgraph and operation as a fault-free request, with a
	// sub-multiset of its representations
	baseByOp := map[string][]*sim.Request{}
	for _, r := range base.res.Requests {
		baseByOp[r.Subgraph+"\x00"+r.Query] = append(baseByOp[r.Subgraph+"\x00"+r.Query], r)
	}
	shrunk := map[string]map[string]bool{} // fault-free key → representations still sent
	for _, r := range f.res.Requests {
		if len(r.Complaints) > 0 {
			return pbt.Bad("invalid subgraph request under faults: %s%s", strings.Join(r.Complaints, "; "), ctx()), false
		}
		cands := baseByOp[r.Subgraph+"\x00"+r.Query]
		if len(cands) == 0 {
			return pbt.Bad("request fabricated after a failure (no fault-free request has this subgraph and operation): %s %s%s", r.Subgraph, r.Body, ctx()), false
		}
		if _, exact := byKey[reqKey(r)]; exact {
			continue
		}
		// representations must be a sub-multiset of one fault-free request's
		reps, _ := r.Variables["representations"].([]any)
		ok := false
		for _, cand := range cands {
			creps, _ := cand.Variables["representations"].([]any)
			have := map[string]int{}
			for _, x := range creps {
				have[ref.Canon(x)]++
			}
			sub := true
			for _, x := range reps {
				have[ref.Canon(x)]--
				if have[ref.Canon(x)] < 0 {
					sub = false
				}
			}
			other1, other2 := map[string]any{}, map[string]any{}
			for k, v := range r.Variables {
				if k != "representations" {
					other1[k] = v
				}
			}
			for k, v := range cand.Variables {
				if k != "representations" {
					other2[k] = v
				}
			}
			if sub && ref.Equal(other1, other2) {
				ok = true
				keep := map[string]bool{}
				for _, x := range reps {
					keep[ref.Canon(x)] = true
				}
				shrunk[reqKey(cand)] = keep
				break
			}
		}
		if !ok {
			return pbt.Bad("request under faults is not a fault-free request with a subset of its entities: %s %s%s", r.Subgraph, r.Body, ctx()), false
		}
	}
	if anySoft {
		// policy-dependent kinds (a complete answer under a non-2xx status, data:null without
		// errors): only well-formedness, "nulling only" and "no fabricated requests" are demanded
		o.Label("soft-kind(well-formedness-only)")
		return pbt.OK, false
	}
	// (2) at least one error when a failure kind was injected
	if len(f.errs) == 0 {
		onlyCount := true
		for k, kind := range fs {
			if f.hit[k] && kind != "entities-short" && kind != "entities-long" && !isNonFault(kind) {
				onlyCount = false
			}
		}
		if onlyCount {
			return pbt.BadKnown("C07-wrong-entity-count-no-error", "a subgraph answered with the wrong number of _entities but the response reports no error%s", ctx()), false
		}
		return pbt.Bad("a subgraph request failed but the response reports no error%s", ctx()), false
	}
	// fault-kind independence: same data and same requests as when the faulted requests
	// answer with a well-formed "nothing delivered" response
	honest := map[string]string{}
	for k := range fs {
		if !isNonFault(fs[k]) {
			honest[k] = "honest-null"
		}
	}
	h := run(gw, c.Op, honest)
	if h.res.Err == nil && h.res.Panic == "" && h.parsed && !c.Requires {
		if !ref.Equal(h.data, f.data) {
			return pbt.Bad("data under the injected fault kinds differs from data when the same requests deliver nothing (well-formed null answer)\n fault:  %s\n honest: %s%s", ref.Canon(f.data), ref.Canon(h.data), ctx(h)), false
		}
		// compared as sets: identical concurrent requests may be merged by single-flight
		for k, n := range f.reqs {
			if (h.reqs[k] > 0) != (n > 0) {
				return pbt.Bad("requests sent after the failure depend on the fault kind (differs from the well-formed null answer run)%s", ctx(h)), false
			}
		}
		for k, n := range h.reqs {
			if (f.reqs[k] > 0) != (n > 0) {
				return pbt.Bad("requests sent after the failure depend on the fault kind (differs from the well-formed null answer run)%s", ctx(h)), false
			}
		}
	}
	// (3b) exactness against the reference: unavailable = delivered by failed requests or by
	// fault-free requests no longer (completely) sent
	missing := map[string]bool{}
	ambiguous := false
	for _, kind := range fs {
		if kind == "partial-null-error" {
			ambiguous = true // one (entity, key) pair of the request fails, not the request
		}
	}
	deliveredBy := map[string]int{}
	for k, r := range byKey {
		d, ok := delivered(gw.World, r, nil)
		if !ok {
			ambiguous = true
			continue
		}
		for t := range d {
			deliveredBy[t]++
		}
		_ = k
	}
	hasDependants := false
	for k, r := range byKey {
		_, faulted := fs[k]
		faulted = faulted && !isNonFault(fs[k]) && f.hit[k]
		switch {
		case faulted:
			d, ok := delivered(gw.World, r, nil)
			if !ok {
				ambiguous = true
			}
			for t := range d {
				missing[t] = true
			}
		case f.reqs[k] == 0:
			hasDependants = true
			var d map[string]bool
			ok := true
			if keep, isShrunk := shrunk[k]; isShrunk {
				all, ok2 := delivered(gw.World, r, nil)
				kept, ok3 := delivered(gw.World, r, keep)
				ok = ok2 && ok3
				d = map[string]bool{}
				for t := range all {
					if !kept[t] {
						d[t] = true
					}
				}
			} else {
				d, ok = delivered(gw.World, r, nil)
			}
			if !ok {
				ambiguous = true
			}
			for t := range d {
				missing[t] = true
			}
		}
	}
	coordReqs := map[string]int{} // "Type/key" → number of fault-free requests selecting it at any depth
	for _, r := range byKey {
		for cdn := range coordinates(gw.World, r) {
			coordReqs[cdn]++
		}
	}
	for t := range missing {
		p := strings.SplitN(t, "/", 3)
		if deliveredBy[t] > 1 || coordReqs[p[0]+"/"+p[2]] > 1 {
			ambiguous = true
		}
	}
	survivors := false
	for k := range byKey {
		if _, faulted := fs[k]; !faulted && f.reqs[k] > 0 {
			survivors = true
		}
	}
	if ambiguous {
		o.Label("ambiguous-provenance(exactness-skipped)")
	} else {
		exp, err := gw.World.ReferenceMissing(c.Op, func(obj ref.Obj, key string) bool {
			return missing[fmt.Sprintf("%s/%d/%s", obj.Type, obj.N, key)]
		})
		if err == nil {
			if !ref.Equal(ref.Plain(exp.Data), f.data) {
				return pbt.Bad("data under faults is not the fault-free data with exactly the dependent parts null-propagated\n got:  %s\n want: %s\n unavailable: %v%s", ref.Canon(f.data), ref.Canon(ref.Plain(exp.Data)), keysOf(missing), ctx()), false
			}
			o.Label("exact-vs-reference")
		}
	}
	if hasDependants {
		o.Label("dependants-skipped")
	}
	if survivors {
		o.Label("sibling-survives")
	}
	if f.data != nil {
		o.Label("partial-data-left")
	}
	return pbt.OK, hasDependants || survivors
}

func keysOf(m map[string]bool) []string {
	var k []string
	for x := range m {
		k = append(k, x)
	}
	sort.Strings(k)
	return k
}

func minimizeFault(raw json.RawMessage) (any, string) {
	var c faultCase
	if err := json.Unmarshal(raw, &c); err != nil {
		return nil, ""
	}
	v0 := checkFault(c, pbt.NewRec())
	if v0.Msg == "" {
		return nil, ""
	}
	class := strings.SplitN(v0.Msg, "\n", 2)[0]
	if len(class) > 50 {
		class = class[:50]
	}
	best := c
	opshrink.Minimize(c.Op, 120, func(cand opgen.Op) bool {
		cc := c
		cc.Op = cand
		if cc.Enum {
			if v := checkFault(cc, pbt.NewRec()); v.Msg != "" && strings.HasPrefix(v.Msg, class) {
				best = cc
				return true
			}
			return false
		}
		for i := 0; i < 6; i++ {
			cc.Faults = make([]Fault, len(c.Faults))
			copy(cc.Faults, c.Faults)
			for j := range cc.Faults {
				cc.Faults[j].Req = c.Faults[j].Req + i
			}
			if v := checkFault(cc, pbt.NewRec()); v.Msg != "" && strings.HasPrefix(v.Msg, class) {
				best = cc
				return true
			}
		}
		return false
	})
	v := checkFault(best, pbt.NewRec())
	if v.Msg == "" {
		return nil, ""
	}
	return best, v.Msg
}

var _ = io.EOF

// coordinates lists "Type/responseKey" for every field selected anywhere in a request
// (abstract parents expanded to their possible types): used to detect that an (entity,
// key) pair may be delivered by more than one request.
func coordinates(w *sim.World, r *sim.Request) map[string]bool {
	out := map[string]bool{}
	sub := w.Subs[r.Subgraph]
	if sub == nil {
		return out
	}
	doc, errs := gqlparser.LoadQuery(sub.Schema, r.Query)
	if errs != nil {
		return out
	}
	var walk func(set ast.SelectionSet)
	walk = func(set ast.SelectionSet) {
		for _, s := range set {
			switch x := s.(type) {
			case *ast.Field:
				if x.ObjectDefinition != nil && x.Name != "__typename" {
					k := x.Alias
					if k == "" {
						k = x.Name
					}
					if x.ObjectDefinition.Kind == ast.Object {
						out[x.ObjectDefinition.Name+"/"+k] = true
					} else {
						for _, p := range sub.Schema.GetPossibleTypes(x.ObjectDefinition) {
							out[p.Name+"/"+k] = true
						}
					}
				}
				walk(x.SelectionSet)
			case *ast.InlineFragment:
				walk(x.SelectionSet)
			case *ast.FragmentSpread:
				if fd := doc.Fragments.ForName(x.Name); fd != nil {
					walk(fd.SelectionSet)
				}
			}
		}
	}
	for _, o := range doc.Operations {
		walk(o.SelectionSet)
	}
	return out
}
