package c06

import (
	"errors"
	"fmt"
	"regexp"
	"sort"
	"strconv"
	"strings"

	"github.com/wundergraph/graphql-go-tools/v2/pkg/variablesvalidation"

	ir "verif/harness/internal/inputref"
	"verif/harness/pbt"
)

// Known findings (see FINDINGS.json).
const (
	fIntID    = "C06-int-id-number-not-checked"
	fNullItem = "C06-null-excused-by-field-default"
	fShift    = "C06-input-list-element-shift"
	fNoVars   = "C06-no-variables-object-skips-validation"
	fNoPath   = "C06-msg-no-path-for-nested-offender"
	fVarDflt  = "C06-defaulted-variable-inside-literal-not-defaulted"
	fSynth    = "C06-msg-names-extracted-variable"
	fIntMin   = "C06-int-min-literal-rejected"
	fNullDflt = "C06-null-default-of-list-variable-wrapped"
	fSingle   = "C06-default-value-not-list-coerced"
	fEnumList = "C06-panic-object-in-enum-list"
	fCoerceOp = "C06-list-coercion-looks-at-first-operation"
)

// anyObjectInEnumList applies ir.ObjectInEnumList to every variable, including the list literal
// `[$v]` the gateway extracts around a variable used as a list item.
func (c *Case) anyObjectInEnumList(vars *ir.Value) bool {
	if vars == nil {
		return false
	}
	for i := range c.Decls {
		t, v := c.Decls[i].T(), vars.Get(c.Decls[i].Name)
		if v != nil && strings.Contains(c.Query, "[$"+c.Decls[i].Name+"]") {
			t, v = &ir.Type{Elem: t}, ir.List(v)
		}
		if ir.ObjectInEnumList(&c.Schema, t, v, false, 0) {
			return true
		}
	}
	return false
}

// omittedListVarWithNullDefault: `$v: [T] = null` without a value in the request.
func (c *Case) omittedListVarWithNullDefault(vars *ir.Value, name string) bool {
	for _, d := range c.Decls {
		if (name == "" || d.Name == name) && d.Default == "null" && d.T().Elem != nil && vars.Get(d.Name) == nil {
			return true
		}
	}
	return false
}

// defaultNeedsListCoercion: a default that takes effect somewhere relies on list coercion:
// an input field default of the schema, or the default of a variable the request omits.
func (c *Case) defaultNeedsListCoercion(vars *ir.Value) bool {
	var roots []*ir.Type
	for _, e := range c.Schema.Echoes {
		roots = append(roots, e.Arg.T())
	}
	for _, d := range c.Decls {
		roots = append(roots, d.T())
	}
	if ir.FieldDefaultNeedsListCoercion(&c.Schema, ir.ReachableInputs(&c.Schema, roots)) {
		return true
	}
	for _, d := range c.Decls {
		if d.Default != "" && vars.Get(d.Name) == nil {
			if lit, err := ir.ParseLiteral(d.Default, ir.LexOpts{}); err == nil && ir.LiteralNeedsListCoercion(&c.Schema, d.T(), lit, 0) {
				return true
			}
		}
	}
	return false
}

const intMin = "-2147483648"

// usedInsideLiteral reports whether the operation uses $name as a list item or input
// object field of an argument literal (the generator only writes these two shapes).
func (c *Case) usedInsideLiteral(name string) bool {
	return strings.Contains(c.Query, "[$"+name+"]") || strings.Contains(c.Query, "{w: $"+name+"}")
}

// omittedDefaultedVarInsideLiteral: a variable that has a default, gets no value from the
// request and is used inside an argument literal.
func (c *Case) omittedDefaultedVarInsideLiteral(vars *ir.Value) bool {
	for _, d := range c.Decls {
		if d.Default != "" && vars.Get(d.Name) == nil && c.usedInsideLiteral(d.Name) {
			return true
		}
	}
	return false
}

func (c *Case) declared(name string) bool {
	for _, d := range c.Decls {
		if d.Name == name {
			return true
		}
	}
	return false
}

// ---- recognisers ----------------------------------------------------------------------------------

// onlyKinds reports whether every issue is of one of the kinds.
func onlyKinds(issues []ir.Issue, kinds ...string) bool {
	for _, is := range issues {
		ok := false
		for _, k := range kinds {
			ok = ok || is.Kind == k
		}
		if !ok {
			return false
		}
	}
	return len(issues) > 0
}

// nullUnderDefaultedField: every issue is a null at a non-null position that is the value of,
// or a (nested) list item of the value of, an input field that declares a default value.
func nullUnderDefaultedField(issues []ir.Issue) bool {
	for _, is := range issues {
		if is.Kind != ir.IssNullInNonNull || !is.FieldHasDefault {
			return false
		}
	}
	return len(issues) > 0
}

func (c *Case) anyShiftShape(vars *ir.Value) bool {
	for i := range c.Decls {
		d := &c.Decls[i]
		v := vars.Get(d.Name)
		if v == nil && d.Default != "" {
			v, _ = ir.ParseLiteral(d.Default, ir.LexOpts{})
		}
		if ir.ShiftShape(&c.Schema, d.T(), v, 0) {
			return true
		}
	}
	return false
}

// rawComparable: every variable that has a default is provided and no provided value relies
// on list coercion.
func (c *Case) rawComparable(vars *ir.Value) bool {
	for i := range c.Decls {
		d := &c.Decls[i]
		v := vars.Get(d.Name)
		if v == nil && d.Default != "" {
			return false
		}
		if ir.JSONNeedsListCoercion(&c.Schema, d.T(), v, 0) {
			return false
		}
	}
	return true
}

// listCoercionBehindAnotherOperation: the selected operation is not the first one of the
// document and a provided value relies on list coercion (single value where a list is expected).
func (c *Case) listCoercionBehindAnotherOperation(vars *ir.Value) bool {
	if c.OperationName == "" || strings.HasPrefix(c.Query, "query "+c.OperationName) || vars == nil {
		return false
	}
	for i := range c.Decls {
		if ir.JSONNeedsListCoercion(&c.Schema, c.Decls[i].T(), vars.Get(c.Decls[i].Name), 0) {
			return true
		}
	}
	return false
}

// ---- message parsing -----------------------------------------------------------------------------

var (
	reVarName = regexp.MustCompile(`Variable "\$([^"]*)"`)
	rePath    = regexp.MustCompile(` at "([^"]*)"`)
	reIndex   = regexp.MustCompile(`^\[(\d+)\]$`)
)

// parseMessagePath parses the validator's path text ("v.a.[0].b").
func parseMessagePath(p string) ir.Path {
	var out ir.Path
	for _, seg := range strings.Split(p, ".") {
		if m := reIndex.FindStringSubmatch(seg); m != nil {
			n, _ := strconv.Atoi(m[1])
			out = append(out, ir.Seg{Index: n, IsIndex: true})
			continue
		}
		out = append(out, ir.Seg{Name: seg})
	}
	return out
}

// compatibleModuloListCoercion is Path.Compatible where the message path (which refers to
// the value after list coercion) may contain [0] segments for list levels that coercion
// inserted around a single value.
func compatibleModuloListCoercion(msgPath, offender ir.Path) bool {
	i, j := 0, 0
	for i < len(msgPath) && j < len(offender) {
		a, b := msgPath[i], offender[j]
		if a == b {
			i++
			j++
			continue
		}
		if a.IsIndex && a.Index == 0 && !b.IsIndex {
			i++
			continue
		}
		return false
	}
	for ; i < len(msgPath); i++ { // the rest may only be inserted levels
		if j >= len(offender) && !(msgPath[i].IsIndex && msgPath[i].Index == 0) {
			return false
		}
	}
	return true
}

// sentinels lists the value content of the variables that must never be echoed when
// content exposure is disabled: string values and number texts of at least 5 characters.
// Keys are not content.
func sentinels(v *ir.Value, out map[string]bool) {
	switch v.K {
	case ir.VStr:
		if len(v.S) >= 5 {
			out[v.S] = true
		}
	case ir.VNum:
		if len(v.N) >= 5 {
			out[v.N] = true
		}
	case ir.VList:
		for _, x := range v.L {
			sentinels(x, out)
		}
	case ir.VObj:
		for _, m := range v.O {
			sentinels(m.V, out)
		}
	}
}

// ---- the check ------------------------------------------------------------------------------------

func maxDepth(issues []ir.Issue) int {
	d := 0
	for _, is := range issues {
		if len(is.Path)-1 > d {
			d = len(is.Path) - 1
		}
	}
	return d
}

func checkCase(c Case, o *pbt.Rec) pbt.Verdict {
	s := &c.Schema
	// -- reference ---------------------------------------------------------------------------------
	var varsObj *ir.Value
	var rawVars []byte
	switch c.VarsForm {
	case "object":
		v, err := ir.ParseJSON(c.Vars)
		if err != nil || v.K != ir.VObj {
			o.Discard("generator-produced-bad-json")
			return pbt.OK
		}
		varsObj, rawVars = v, []byte(c.Vars)
	case "null":
		rawVars = []byte("null")
	}
	_, issues := s.CoerceVariables(c.Decls, varsObj)
	want := len(issues) == 0
	if c.Break == "" && !want {
		// the generator claims coercible-by-construction and the reference disagrees:
		// a bug of this harness, never of the code under test
		o.Discard("generator-reference-disagree")
		return pbt.OK
	}
	o.Label("varsform:" + c.VarsForm)
	if c.OperationName != "" {
		o.Labelf("multi-operation:%d", strings.Count(c.Query, "query D")+1)
	}
	o.Labelf("nvars:%d", len(c.Decls))
	if c.Break == "" {
		o.Label("break:none")
	} else {
		o.Label("break:" + c.Break)
	}
	nontrivial := false
	for i := range c.Decls {
		t := c.Decls[i].T()
		if t.Wrappers() >= 2 || s.KindOf(t.Base()) == ir.KindInput {
			nontrivial = true
		}
		o.Labelf("vartype:wrappers=%d", t.Wrappers())
		o.Labelf("vartype:base=%s", baseClass(s, t))
		if c.Decls[i].Default != "" {
			o.Label("var:has-default")
		}
	}
	for _, in := range s.Inputs {
		if in.OneOf {
			o.Label("schema:has-oneof")
			break
		}
	}
	if strings.Contains(c.Query, "[$") {
		o.Label("usage:list-item")
	}
	if strings.Contains(c.Query, "{w: $") {
		o.Label("usage:object-field")
	}
	if !want {
		o.Labelf("fault-depth:%d", min(maxDepth(issues), 4))
		kinds := map[string]bool{}
		for _, is := range issues {
			kinds[is.Kind] = true
		}
		for _, k := range sortedKeys(kinds) {
			o.Label("fault:" + k)
		}
		if maxDepth(issues) < 1 {
			nontrivial = false
		}
	}
	if nontrivial {
		o.NonTrivial(c.Query + "\x00" + c.Vars)
	}
	secondOpinion(&c, want, o)
	shift := varsObj != nil && c.anyShiftShape(varsObj)
	if shift {
		o.Label("shape:" + fShift)
	}

	// -- engine admission --------------------------------------------------------------------------
	rig, err := ir.RigFor(s)
	if err != nil {
		return pbt.Bad("cannot build an engine for a generated schema (harness or schema-loading problem): %v\n%s", err, s.SDL(false))
	}
	res := rig.Execute(c.Query, rawVars, c.OperationName)
	if res.Panic != "" {
		if (strings.Contains(res.Panic, "inject_input_default_values.go") && c.anyObjectInEnumList(varsObj)) && pbt.IsKnown(fEnumList) {
			return pbt.BadKnown(fEnumList, "default injection panics on an object inside a list of enums: %s\nquery: %s\nvariables: %s", firstLine(res.Panic), c.Query, c.Vars)
		}
		return pbt.Bad("Execute panicked: %s\nquery: %s\nvariables: %s", res.Panic, c.Query, c.Vars)
	}
	got := len(res.Upstream) > 0
	if !got && res.Err == nil {
		if !strings.Contains(res.Response, `"errors"`) {
			return pbt.Bad("Execute returned no error, sent nothing upstream and wrote no errors: response %q", res.Response)
		}
		o.Label("reject:in-response")
	}
	describe := func() string {
		return fmt.Sprintf("\nschema:\n%s\nquery: %s\nvariables(%s): %s\nreference issues: %v\nengine: err=%v upstream=%d response=%s",
			s.SDL(false), c.Query, c.VarsForm, c.Vars, issues, res.Err, len(res.Upstream), res.Response)
	}
	switch {
	case want && got:
		o.Label("agree:accept")
		if res.Upstream[0].BodyErr != nil {
			return pbt.Bad("accepted request forwarded a malformed body: %v: %q%s", res.Upstream[0].BodyErr, res.Upstream[0].Body, describe())
		}
	case !want && !got:
		o.Label("agree:reject")
		var ive *variablesvalidation.InvalidVariableError
		if errors.As(res.Err, &ive) {
			o.Label("reject:InvalidVariableError")
		} else {
			o.Labelf("reject:other:%T", res.Err)
		}
	case !want && got:
		o.Label("disagree:invalid-accepted")
		switch {
		case (c.VarsForm != "object" && onlyKinds(issues, ir.IssMissingVariable)) && pbt.IsKnown(fNoVars):
			return pbt.BadKnown(fNoVars, "required variable missing, request without a variables object admitted%s", describe())
		case (onlyKinds(issues, ir.IssIntNotIntegral, ir.IssIntRange, ir.IssIDNotIntegral)) && pbt.IsKnown(fIntID):
			return pbt.BadKnown(fIntID, "non-integral or out-of-range number admitted for Int/ID%s", describe())
		case (nullUnderDefaultedField(issues)) && pbt.IsKnown(fNullItem):
			return pbt.BadKnown(fNullItem, "null at a non-null position admitted because the enclosing input field has a default%s", describe())
		case (shift) && pbt.IsKnown(fShift):
			return pbt.BadKnown(fShift, "invalid list element replaced before validation%s", describe())
		}
		return pbt.Bad("invalid variables admitted%s", describe())
	case want && !got:
		o.Label("disagree:valid-rejected")
		if (res.Err != nil && strings.Contains(res.Err.Error(), "Int cannot represent non 32-bit signed integer value: "+intMin) && strings.Contains(c.Query, intMin)) && pbt.IsKnown(fIntMin) {
			return pbt.BadKnown(fIntMin, "operation validation rejects the Int literal %s%s", intMin, describe())
		}
		if c.listCoercionBehindAnotherOperation(varsObj) && pbt.IsKnown(fCoerceOp) {
			return pbt.BadKnown(fCoerceOp, "single value for a list variable is not coerced because the selected operation is not the first one of the document%s", describe())
		}
		if (c.omittedListVarWithNullDefault(varsObj, "")) && pbt.IsKnown(fNullDflt) {
			return pbt.BadKnown(fNullDflt, "omitted list variable with default null is given the value [null]%s", describe())
		}
		if (c.defaultNeedsListCoercion(varsObj)) && pbt.IsKnown(fSingle) {
			return pbt.BadKnown(fSingle, "a default value that relies on list coercion (single value for a list) is injected as written and then rejected%s", describe())
		}
		if (c.omittedDefaultedVarInsideLiteral(varsObj)) && pbt.IsKnown(fVarDflt) {
			return pbt.BadKnown(fVarDflt, "omitted variable with a default, used inside an argument literal, is extracted as null/absent instead of its default and the request is rejected%s", describe())
		}
		if (shift) && pbt.IsKnown(fShift) {
			return pbt.BadKnown(fShift, "valid list of input objects corrupted before validation and then rejected%s", describe())
		}
		return pbt.Bad("coercible variables rejected%s", describe())
	}

	// -- VariablesValidator.Validate on the raw operation ----------------------------------------------
	// Without normalization the validator sees no list coercion and no variable defaults, so
	// its decision is comparable only when neither is in play. Input field defaults are: a
	// missing field with a default must be excused by the validator itself.
	if c.VarsForm != "object" {
		return pbt.OK // Execute only validates a variables object; nothing to call directly
	}
	if c.OperationName == "" && c.rawComparable(varsObj) { // a raw multi-operation document has no selected operation
		o.Label("raw:comparable")
		errRaw, pr := rig.ValidateRaw(c.Query, rawVars)
		if pr != "" {
			return pbt.Bad("VariablesValidator.Validate (raw) panicked: %s%s", pr, describe())
		}
		if (errRaw == nil) != want {
			o.Label("raw:disagree")
			switch {
			case want:
				return pbt.Bad("VariablesValidator.Validate on the raw operation rejects coercible variables: %v%s", errRaw, describe())
			case (onlyKinds(issues, ir.IssIntNotIntegral, ir.IssIntRange, ir.IssIDNotIntegral)) && pbt.IsKnown(fIntID):
				return pbt.BadKnown(fIntID, "raw validator: non-integral or out-of-range number admitted for Int/ID%s", describe())
			case (nullUnderDefaultedField(issues)) && pbt.IsKnown(fNullItem):
				return pbt.BadKnown(fNullItem, "raw validator: null at a non-null position admitted because the enclosing input field has a default%s", describe())
			}
			return pbt.Bad("VariablesValidator.Validate on the raw operation admits invalid variables%s", describe())
		}
		o.Label("raw:agree")
	}

	// -- VariablesValidator.Validate directly: decision and message clauses ----------------------------
	adm := rig.Admit(c.Query, rawVars, c.OperationName)
	if adm.Panic != "" {
		return pbt.Bad("normalization panicked: %s", adm.Panic)
	}
	if adm.Stage != "" {
		o.Label("direct:not-admitted-at-" + adm.Stage)
		if want {
			return pbt.Bad("valid operation with coercible variables failed at stage %s: %v%s", adm.Stage, adm.Err, describe())
		}
		return pbt.OK
	}
	errOpen, p1 := rig.ValidateVariables(adm, false)
	errHidden, p2 := rig.ValidateVariables(adm, true)
	if p1+p2 != "" {
		return pbt.Bad("VariablesValidator.Validate panicked: %s%s", p1+p2, describe())
	}
	if (errOpen == nil) != (errHidden == nil) {
		return pbt.Bad("DisableExposingVariablesContent changes the decision: %v vs %v%s", errOpen, errHidden, describe())
	}
	if (errOpen == nil) != want {
		// same recognisers as above; the engine agreed with the reference, so this is a
		// difference between Execute and a direct call
		return pbt.Bad("VariablesValidator.Validate (direct) decides %v, reference %v%s", errOpen == nil, want, describe())
	}
	if want {
		return pbt.OK
	}
	o.Label("direct:rejected")
	var ive *variablesvalidation.InvalidVariableError
	if !errors.As(errHidden, &ive) {
		o.Labelf("direct:reject-not-InvalidVariableError:%T", errHidden)
		return pbt.OK
	}
	if shift {
		return pbt.OK // the validator saw corrupted data; the messages describe that data
	}
	// explain attributes a message that does not fit the reference's offenders to a recorded
	// defect that rewrote the variables before validation.
	explain := func(named, msg string) (string, string) {
		listMsg := strings.Contains(msg, `want: "[`) || strings.Contains(msg, "to be an object.")
		if (c.anyObjectInEnumList(varsObj)) && pbt.IsKnown(fEnumList) {
			return fEnumList, "default injection treated a list of enums as a list of input objects and rewrote it before validation"
		}
		switch {
		case listMsg && c.listCoercionBehindAnotherOperation(varsObj) && pbt.IsKnown(fCoerceOp):
			return fCoerceOp, "the rejection is about a single value for a list that was not coerced because the selected operation is not the first one of the document"
		case (listMsg && c.defaultNeedsListCoercion(varsObj)) && pbt.IsKnown(fSingle):
			return fSingle, "the rejection is about a default value that relies on list coercion and was injected as written"
		case (c.declared(named) && c.omittedListVarWithNullDefault(varsObj, named)) && pbt.IsKnown(fNullDflt):
			return fNullDflt, "the rejection is about an omitted list variable with default null that was given the value [null]"
		case (!c.declared(named) && c.omittedDefaultedVarInsideLiteral(varsObj)) && pbt.IsKnown(fVarDflt):
			return fVarDflt, "the rejection is about the literal extracted around an omitted variable that has a default"
		}
		return "", ""
	}
	offenders := map[string][]ir.Path{}
	for _, is := range issues {
		offenders[is.Path[0].Name] = append(offenders[is.Path[0].Name], is.Path)
	}
	for _, e := range []error{errOpen, errHidden} {
		msg := e.Error()
		m := reVarName.FindStringSubmatch(msg)
		if m == nil {
			return pbt.Bad("rejection does not name a variable: %q%s", msg, describe())
		}
		if _, ok := offenders[m[1]]; !ok {
			if !c.declared(m[1]) {
				for _, name := range sortedNames(offenders) {
					if (c.usedInsideLiteral(name)) && pbt.IsKnown(fSynth) {
						return pbt.BadKnown(fSynth, "rejection names $%s, a variable the gateway created while extracting the literal that contains the offender $%s: %q%s", m[1], name, msg, describe())
					}
				}
			}
			if id, why := explain(m[1], msg); id != "" && pbt.IsKnown(id) {
				return pbt.BadKnown(id, "%s: %q%s", why, msg, describe())
			}
			return pbt.Bad("rejection names $%s, which coerces; offenders: %v; message %q%s", m[1], issues, msg, describe())
		}
	}
	o.Label("msg:variable-named")
	msg := errHidden.Error()
	sent := map[string]bool{}
	sentinels(varsObj, sent)
	if len(sent) > 0 {
		o.Label("msg:sentinels-checked")
	}
	for _, sv := range sortedKeys(sent) {
		if strings.Contains(msg, sv) {
			return pbt.Bad("DisableExposingVariablesContent is set but the message echoes variable content %q: %q%s", sv, msg, describe())
		}
	}
	name := reVarName.FindStringSubmatch(msg)[1]
	if pm := rePath.FindStringSubmatch(msg); pm != nil {
		mp := parseMessagePath(pm[1])
		ok := false
		for _, op := range offenders[name] {
			ok = ok || compatibleModuloListCoercion(mp, op)
		}
		if id, why := explain(name, msg); !ok && id != "" && pbt.IsKnown(id) {
			return pbt.BadKnown(id, "%s: %q%s", why, msg, describe())
		}
		if !ok {
			return pbt.Bad("rejection path %q is not on the way to any offender %v; message %q%s", pm[1], offenders[name], msg, describe())
		}
		o.Label("msg:path-compatible")
		return pbt.OK
	}
	nested := true
	for _, op := range offenders[name] {
		nested = nested && len(op) > 1
	}
	if !nested {
		o.Label("msg:top-level-no-path")
		return pbt.OK
	}
	o.Label("msg:nested-without-path")
	if (strings.Contains(msg, "was not provided.") || strings.Contains(msg, "to be an object.") || strings.Contains(msg, "not to be null.")) && pbt.IsKnown(fNoPath) {
		return pbt.BadKnown(fNoPath, "nested offender %v reported without a path: %q%s", offenders[name], msg, describe())
	}
	return pbt.Bad("nested offender %v reported without a path: %q%s", offenders[name], msg, describe())
}

func baseClass(s *ir.Schema, t *ir.Type) string {
	switch s.KindOf(t.Base()) {
	case ir.KindInput:
		if s.Input(t.Base()).OneOf {
			return "oneof-input"
		}
		return "input"
	case ir.KindEnum:
		return "enum"
	case ir.KindCustomScalar:
		return "custom-scalar"
	}
	return t.Base()
}

func firstLine(s string) string {
	if i := strings.IndexByte(s, '\n'); i >= 0 {
		return s[:i]
	}
	return s
}

func sortedNames(m map[string][]ir.Path) []string {
	out := make([]string, 0, len(m))
	for k := range m {
		out = append(out, k)
	}
	sort.Strings(out)
	return out
}

func sortedKeys(m map[string]bool) []string {
	out := make([]string, 0, len(m))
	for k := range m {
		out = append(out, k)
	}
	sort.Strings(out)
	return out
}
