package c20

import (
	"encoding/json"
	"fmt"
	"os"
	"sort"
	"strings"
	"sync/atomic"

	"github.com/vektah/gqlparser/v2/ast"
	"pgregory.net/rapid"

	"verif/harness/pbt"
)

// Part "sequences": history independence. The engine caches plans by the normalised operation
// text (execution_engine.go getCachedPlan), and a cached plan owns its gRPC DataSource, so one
// DataSource instance serves every later request of the same operation. A sequence executes
// the same operation text several times with different variable values (values that empty a
// parent list or null a resolver result make the datasource skip calls), interleaved with a
// second operation, on the long-lived rig. Every response must equal what the same
// (operation, variables) gives on a DataSource that has never served anything else; that
// reference is obtained from the same engine under a unique operation name (the name is part
// of the plan-cache key, so the reference is planned afresh and its DataSource serves exactly
// one Load).
type seqStep struct {
	Q    string `json:"q"`    // operation text; its name starts with SEQ (replaced per execution)
	Vars string `json:"vars"` // JSON object
}

type seqCase struct {
	Rig      string    `json:"rig"`
	Steps    []seqStep `json:"steps"`
	Excluded []string  `json:"excluded,omitempty"`
}

var seqPart = pbt.Part[seqCase]{Name: "sequences", Quick: 2800, Thorough: 40000, Gen: genSeqCase, Check: checkSeqCase}

// ---- values for variables ---------------------------------------------------------------------

func jsonValue(c chooser, w *world, t *ast.Type, depth int, arg string) any {
	if !t.NonNull && c.Int(12, "null") == 1 {
		return nil
	}
	if t.Elem != nil {
		n := []int{1, 2, 0, 3}[c.Int(4, "listlen")]
		if depth > 3 {
			n = 0
		}
		out := make([]any, n)
		for i := range out {
			out[i] = jsonValue(c, w, t.Elem, depth+1, arg)
		}
		return out
	}
	def := w.schema.Types[t.NamedType]
	switch {
	case def == nil:
		return nil
	case def.Kind == ast.Enum:
		return def.EnumValues[c.Int(len(def.EnumValues), "enum")].Name
	case def.Kind == ast.InputObject:
		out := map[string]any{}
		for _, f := range def.Fields {
			required := f.Type.NonNull && f.DefaultValue == nil
			if !required && (depth >= 3 || c.Int(2, "optfield") == 1) {
				continue
			}
			out[f.Name] = jsonValue(c, w, f.Type, depth+1, f.Name)
		}
		return out
	}
	switch def.Name {
	case "String":
		return poolString[c.Int(len(poolString), "str")]
	case "ID":
		return poolID[c.Int(len(poolID), "id")]
	case "Int":
		if arg == "depth" {
			return []int{1, 2, 0, 3}[c.Int(4, "depth")] // see genArgs
		}
		return []int{1, 0, 2, 3, 10, 60, 100}[c.Int(7, "int")]
	case "Float":
		return []float64{1.5, 0, 100, 2.25, 50, -3.5}[c.Int(6, "float")]
	case "Boolean":
		return c.Int(2, "bool") == 0
	}
	return nil
}

// ---- generator --------------------------------------------------------------------------------

type seqOp struct {
	text string
	vars []varSpec
}

// resolverDepth is the deepest nesting of field resolvers in a generated operation.
func resolverDepth(w *world, scope string, kids []*node) int {
	best := 0
	for _, k := range kids {
		d := 0
		switch {
		case k.Frag:
			d = resolverDepth(w, k.scope, k.Kids)
		case k.Spread == "":
			d = resolverDepth(w, k.scope, k.Kids)
			if u := w.units[scope+"."+k.Name]; u != nil && u.Kind == unitResolver {
				d++
			}
		}
		if d > best {
			best = d
		}
	}
	return best
}

func genSeqOp(t *rapid.T, w *world, rigName string, index int, excluded map[string]bool) seqOp {
	states, err := unitStates(rigName)
	if err != nil {
		panic(err)
	}
	var best *opGen
	var bestTree *opTree
	bestDepth := -1
	for try := 0; try < 4 && bestDepth < 2; try++ {
		g := &opGen{t: t, c: rapidChooser{t}, w: w, usable: usableFor(rigName), maxDepth: rapid.IntRange(3, 5).Draw(t, "maxDepth"), excluded: excluded,
			varMode: true, skip: func(k string) bool { s := states[k]; return s != nil && s.Status == "unstable" }}
		o := &opTree{rootType: w.schema.Query.Name}
		o.Roots = g.selSet(w.schema.Query, 0, used{}, noAncestry())
		if d := resolverDepth(w, o.rootType, o.Roots); d > bestDepth {
			best, bestTree, bestDepth = g, o, d
		}
	}
	text := steer(w, bestTree, excluded)
	var decl []string
	for _, v := range best.vars {
		decl = append(decl, "$"+v.Name+": "+v.Type.String())
	}
	head := fmt.Sprintf("query SEQ%d", index)
	if len(decl) > 0 {
		head += "(" + strings.Join(decl, ", ") + ")"
	}
	return seqOp{text: head + " " + text, vars: best.vars}
}

func genSeqCase(t *rapid.T) seqCase {
	rigName := "plain"
	if rapid.IntRange(0, 2).Draw(t, "rig") == 0 {
		rigName = "fed"
	}
	w, err := worldByName(rigName)
	if err != nil {
		panic(err)
	}
	excluded := map[string]bool{}
	ops := []seqOp{genSeqOp(t, w, rigName, 0, excluded)}
	if rapid.IntRange(0, 2).Draw(t, "second-op") == 0 {
		ops = append(ops, genSeqOp(t, w, rigName, 1, excluded))
	}
	c := seqCase{Rig: rigName}
	last := make([]map[string]any, len(ops))
	n := rapid.IntRange(2, 6).Draw(t, "steps")
	ch := rapidChooser{t}
	for i := 0; i < n; i++ {
		k := 0
		if len(ops) > 1 && i > 0 && rapid.IntRange(0, 2).Draw(t, "other-op") == 0 {
			k = 1
		}
		vals := map[string]any{}
		for _, v := range ops[k].vars {
			if last[k] != nil && rapid.IntRange(0, 4).Draw(t, "keep") < 2 {
				if old, ok := last[k][v.Name]; ok {
					vals[v.Name] = old
				}
				continue
			}
			if !v.Type.NonNull && rapid.IntRange(0, 9).Draw(t, "omit") == 0 {
				continue // optional variable not provided
			}
			vals[v.Name] = jsonValue(ch, w, v.Type, 0, v.Arg)
		}
		last[k] = vals
		b, _ := json.Marshal(vals) // map keys are marshalled sorted
		c.Steps = append(c.Steps, seqStep{Q: ops[k].text, Vars: string(b)})
	}
	for k := range excluded {
		if k != "" {
			c.Excluded = append(c.Excluded, k)
		}
	}
	sort.Strings(c.Excluded)
	return c
}

// ---- check ------------------------------------------------------------------------------------

var seqCounter atomic.Int64

// sameJSON compares two responses: data as JSON values, errors as a multiset (fetches run in
// parallel, so the order of their errors is not determined).
func sameJSON(a, b string) bool {
	if a == b {
		return true
	}
	norm := func(s string) (string, bool) {
		var x map[string]any
		if json.Unmarshal([]byte(s), &x) != nil {
			return "", false
		}
		var errs []string
		if l, ok := x["errors"].([]any); ok {
			for _, e := range l {
				errs = append(errs, canon(e))
			}
			sort.Strings(errs)
			delete(x, "errors")
		}
		return canon(x) + "\x00" + strings.Join(errs, "\x00"), true
	}
	x, ok1 := norm(a)
	y, ok2 := norm(b)
	return ok1 && ok2 && x == y
}

func checkSeqCase(c seqCase, o *pbt.Rec) pbt.Verdict {
	w, err := worldByName(c.Rig)
	if err != nil {
		return pbt.Bad("rig setup failed: %v", err)
	}
	g, _ := rigByName(c.Rig)
	states, err := unitStates(c.Rig)
	if err != nil {
		return pbt.Bad("stability pre-pass failed: %v", err)
	}
	stable := func(k string) bool { s := states[k]; return s != nil && s.Status == "stable" }
	id := seqCounter.Add(1)
	o.Journal()
	o.Label("rig:" + c.Rig)
	for _, k := range c.Excluded {
		o.Label("excluded:" + k)
	}
	type seen struct {
		vars map[string]bool
		rpcs map[string]bool // RPC methods some earlier request of this operation issued
	}
	byOp := map[string]*seen{}
	repeated, skippedAfterIssued, depth := false, false, 0
	for i, st := range c.Steps {
		if !strings.Contains(st.Q, "SEQ") {
			return pbt.Bad("sequence step %d: the operation must be named SEQ…: %s", i, st.Q)
		}
		shared := strings.Replace(st.Q, "SEQ", fmt.Sprintf("S%d_", id), 1)
		p, err := parseOp(w, shared)
		if err != nil {
			o.Discard("gen-invalid-seq-op")
			return pbt.OK
		}
		p.vars = st.Vars
		if why := g.engineRejects(shared); why != "" {
			o.Discard("engine-validation-disagrees")
			return pbt.OK
		}
		w.unitFields(p, func(u *unit, _ string, _ *ast.Field, _ []ast.SelectionSet, anc ancestry) {
			if u.Kind == unitResolver {
				d := 1
				if anc.sinceResolver >= 0 {
					d = 2
				}
				if d > depth {
					depth = d
				}
			}
		})
		side := fmt.Sprintf("request %d", i+1)
		out, f := runOne(g, w, p, stable, side)
		if f != nil {
			f.msg += seqContext(c, i)
			return classify(w, p, nil, *f)
		}
		s := byOp[st.Q]
		if s == nil {
			s = &seen{vars: map[string]bool{}, rpcs: map[string]bool{}}
			byOp[st.Q] = s
		}
		if len(s.vars) > 0 && !s.vars[st.Vars] {
			repeated = true
		}
		issued := map[string]bool{}
		for _, r := range out.res.RPCs {
			issued[r] = true
		}
		for r := range s.rpcs {
			if !issued[r] {
				skippedAfterIssued = true
			}
		}
		for r := range issued {
			s.rpcs[r] = true
		}
		s.vars[st.Vars] = true

		// reference: same operation and variables on a DataSource without history
		refText := func(n int) string { return strings.Replace(st.Q, "SEQ", fmt.Sprintf("R%d_%d_%d_", id, i, n), 1) }
		ref := g.execVars(refText(0), st.Vars)
		if ref.Err == out.res.Err && sameJSON(ref.Body, out.res.Body) {
			continue
		}
		// deterministic? two more references must agree with the first one
		for n := 1; n <= 2; n++ {
			again := g.execVars(refText(n), st.Vars)
			if again.Err != ref.Err || !sameJSON(again.Body, ref.Body) {
				if os.Getenv("C20_DEBUG") != "" {
					fmt.Fprintf(os.Stderr, "NONDET reference for %s vars %s\n", st.Q, st.Vars)
				}
				o.Discard("reference-not-deterministic")
				return pbt.OK
			}
		}
		return pbt.Bad("history dependence: request %d of the sequence is answered differently by the long-lived datasource (plan cache hit) than by a datasource that serves only this request\n operation = %s\n variables = %s\n answer     = %s (RPCs %v)\n reference  = %s (RPCs %v)%s",
			i+1, st.Q, st.Vars, clip(out.res.Body+out.res.Err), out.res.RPCs, clip(ref.Body+ref.Err), ref.RPCs, seqContext(c, i))
	}
	o.Labelf("seq:steps:%d", len(c.Steps))
	o.Labelf("seq:resolver-levels:%d", depth)
	if len(byOp) > 1 {
		o.Label("seq:interleaved-operations")
	}
	if repeated {
		o.Label("seq:same-operation-other-variables")
	}
	if skippedAfterIssued {
		// an RPC an earlier request of the same operation issued is not issued now: the
		// datasource skipped a call for data reasons (the class the stale-state defects need)
		o.Label("seq:call-skipped-after-issued")
		if depth >= 2 {
			o.Label("seq:call-skipped-after-issued:nested-resolvers")
		}
	}
	if repeated && depth >= 1 {
		b, _ := json.Marshal(c.Steps)
		o.NonTrivial(c.Rig + "\x00" + string(b))
	}
	return pbt.OK
}

func seqContext(c seqCase, upto int) string {
	var b strings.Builder
	b.WriteString("\n sequence so far:")
	for i := 0; i <= upto && i < len(c.Steps); i++ {
		fmt.Fprintf(&b, "\n  %d. %s  %s", i+1, c.Steps[i].Q, c.Steps[i].Vars)
	}
	return b.String()
}
