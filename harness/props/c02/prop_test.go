package c02

import (
	"testing"

	"verif/harness/pbt"
)

// TestProp is the entry point the driver runs in every shard.
func TestProp(t *testing.T) {
	r := pbt.Start(t, "C02")
	defer r.Finish()
	r.Rule("a case is (schema family, operation, subgraph JSON j); non-trivial when j has >=1 offender (null/missing in non-null or ill-typed value) below depth 1, or the operation selects an abstract object with >=2 type conditions; distinct by (operation, j)")
	r.Assume(
		"gqlparser's schema/operation ASTs and its validation are trusted for the reference CollectFields",
		"encoding/json's tokenizer is trusted as the JSON validity judge",
		"Int is checked at JSON-number level only; ID accepts strings and integers, other kinds are tolerated either way; a string __typename that names no possible type is an offender at abstract AND concrete positions (root object excepted); a selected __typename must deliver a possible type name",
		"Apollo-compatibility options off (default ResolvableOptions)",
	)
	// the parts' important classes: every coverage-matrix cell must have had an offender
	for _, c := range allCells() {
		switch c {
		case "ID:null:bare", "custom:null:bare":
			// no value can be an offender here (null is allowed, every kind is accepted or
			// tolerated): demand that mutations hit the cell
			r.RequireLabel("cellmut:" + c)
		default:
			r.RequireLabel("cell:" + c)
		}
	}
	r.RequireLabel(
		"off:none", "off:kind:null", "off:kind:type", "off:under-list", "off:nonnull-chain>=2", "off:at-root-field", "off:in-abstract",
		"off:depth>=2", "out:data-null", "out:partial-null", "out:no-errors", "op:abstract>=2conds", "op:alias", "op:named-fragment",
		"op:inline-fragment", "op:typename", "tree:OnTypeNames", "mut:missing", "mut:null", "mut:wrongkind", "mut:arr2obj", "mut:obj2arr",
		"mut:tn-unknown", "mut:tn-missing", "mut:tn-nonmember", "mut:tn-degenerate", "mut:tnfield-degenerate", "off:typename:concrete-position", "off:typename:empty-string", "off:typename:empty-string:concrete-object", "mut:enum-invalid", "mut:extra-key", "mut:ragged", "mut:inner-scalar",
		"repl:list-item", "repl:object-field", "repl:nested-list-item", "engine:requests=1",
	)
	r.Regress(dispatch())
	r.RunProbes(probes())
	resolvablePart.Run(r)
	enginePart.Run(r)
	valueCompletionPart.Run(r)
}

func TestReplay(t *testing.T) { pbt.StdReplay(t, "C02", dispatch()) }

func dispatch() pbt.Dispatch {
	return pbt.Dispatch{}.
		Add(resolvablePart.Name, resolvablePart.Handler()).
		Add(enginePart.Name, enginePart.Handler()).
		Add(valueCompletionPart.Name, valueCompletionPart.Handler()).
		WithProbes(probes())
}
