package ref

import (
	"encoding/json"
	"fmt"
	"hash/fnv"
	"sort"
	"strconv"
	"strings"

	"github.com/vektah/gqlparser/v2/ast"
	"github.com/vektah/gqlparser/v2/parser"
)

// Universe is the deterministic data behind every (sub)graph: every field value is a pure
// function of (Seed, type, object number, field, canonical arguments, list position).
type Universe struct {
	Seed uint64
	// Requires maps "Type.field" to the selection its value is computed from (federation
	// @requires). In a subgraph the value is computed from the representation, in the
	// monolith from the universe; a gateway that omits or mis-routes required fields
	// therefore changes the response.
	Requires map[string]string
	// KeyScalars lists "Type.field" scalars that are injective in the object number
	// ("<field>-<Type>-<n>"), usable as entity keys.
	KeyScalars map[string]bool
	// SameN lists "Type.field" object fields whose value carries the number of the enclosing
	// object (a value object that is part of an entity key: '@key(fields: "info { kid }")').
	SameN map[string]bool
	// NullEvery / ErrEvery tune how often nullable fields are null and err_ fields fail.
	NullEvery uint64
	ErrEvery  uint64
	// MaxList bounds list lengths (0..MaxList).
	MaxList uint64
	// Fanout bounds object numbers (0..Fanout-1): small so that entities repeat.
	Fanout uint64
}

// NewUniverse returns a universe with default tuning.
func NewUniverse(seed uint64) *Universe {
	return &Universe{Seed: seed, Requires: map[string]string{}, KeyScalars: map[string]bool{}, SameN: map[string]bool{}, NullEvery: 7, ErrEvery: 3, MaxList: 4, Fanout: 5}
}

func (u *Universe) h(parts ...string) uint64 {
	f := fnv.New64a()
	var sb [8]byte
	for i := 0; i < 8; i++ {
		sb[i] = byte(u.Seed >> (8 * i))
	}
	f.Write(sb[:])
	for _, p := range parts {
		f.Write([]byte(p))
		f.Write([]byte{0})
	}
	x := f.Sum64()
	// final avalanche (fnv is weak in the low bits for short inputs)
	x ^= x >> 33
	x *= 0xff51afd7ed558ccd
	x ^= x >> 33
	x *= 0xc4ceb9fe1a85ec53
	x ^= x >> 33
	return x
}

// Obj identifies an object of the universe.
type Obj struct {
	Type string
	N    int
	// Rep is the federation representation this object was looked up from (subgraph
	// execution of _entities only).
	Rep map[string]any
	// ViaEntities is true for objects resolved through _entities.
	ViaEntities bool
}

// KeyScalar renders an injective key value.
func KeyScalar(field, typ string, n int) string { return field + "-" + typ + "-" + strconv.Itoa(n) }

// ParseKeyScalar inverts KeyScalar.
func ParseKeyScalar(s string) (field, typ string, n int, ok bool) {
	parts := strings.Split(s, "-")
	if len(parts) != 3 {
		return "", "", 0, false
	}
	n, err := strconv.Atoi(parts[2])
	if err != nil {
		return "", "", 0, false
	}
	return parts[0], parts[1], n, true
}

// ExecError is a field error with its response path.
type ExecError struct {
	Message string `json:"message"`
	Path    []any  `json:"path"`
}

// Exec executes one operation.
type Exec struct {
	U      *Universe
	Super  *ast.Schema // the supergraph (kinds, possible types)
	Schema *ast.Schema // schema executed against: Super (monolith) or a subgraph schema
	IsSub  bool        // subgraph mode (req_ fields read the representation)
	Doc    *ast.QueryDocument
	Vars   map[string]any // coerced variables, present keys only
	Errors []ExecError
	// Notes collects simulator-level protocol complaints (bad representations …).
	Notes []string
	// Missing, when set, marks (object, response key) pairs whose value is unavailable
	// (C07: delivered only by failed or skipped subgraph requests): the field completes
	// as null and propagates like any other null.
	Missing func(obj Obj, key string) bool
	// MissingHits counts how often Missing fired.
	MissingHits int
	// Denied, when set, marks field coordinates (runtime type name, field name) whose value
	// must not reach the client (C14): the field completes as null and propagates.
	Denied func(typeName, fieldName string) bool
	// DeniedPaths lists the response paths at which Denied fired.
	DeniedPaths [][]any
}

// Run executes the named (or only) operation and returns data (nil when null propagated to
// the root) as an *OMap tree.
func (e *Exec) Run(opName string) (any, []ExecError) {
	var op *ast.OperationDefinition
	for _, o := range e.Doc.Operations {
		if opName == "" || o.Name == opName {
			op = o
			break
		}
	}
	if op == nil {
		e.Errors = append(e.Errors, ExecError{Message: "unknown operation " + opName})
		return nil, e.Errors
	}
	root := e.Schema.Query
	switch op.Operation {
	case ast.Mutation:
		root = e.Schema.Mutation
	case ast.Subscription:
		root = e.Schema.Subscription
	}
	if root == nil {
		e.Errors = append(e.Errors, ExecError{Message: "no root type"})
		return nil, e.Errors
	}
	m, ok := e.selectionSet(Obj{Type: root.Name}, root, []ast.SelectionSet{op.SelectionSet}, nil)
	if !ok {
		return nil, e.Errors
	}
	return m, e.Errors
}

type group struct {
	key    string
	fields []*ast.Field
}

func (e *Exec) directiveBool(d *ast.Directive) bool {
	a := d.Arguments.ForName("if")
	if a == nil {
		return false
	}
	if a.Value.Kind == ast.Variable {
		v, ok := e.Vars[a.Value.Raw]
		if !ok {
			return false
		}
		b, _ := v.(bool)
		return b
	}
	return a.Value.Raw == "true"
}

func (e *Exec) skipped(d ast.DirectiveList) bool {
	if s := d.ForName("skip"); s != nil && e.directiveBool(s) {
		return true
	}
	if s := d.ForName("include"); s != nil && !e.directiveBool(s) {
		return true
	}
	return false
}

func (e *Exec) applies(cond string, obj *ast.Definition) bool {
	if cond == "" || cond == obj.Name {
		return true
	}
	def := e.Schema.Types[cond]
	if def == nil {
		return false
	}
	for _, pt := range e.Schema.GetPossibleTypes(def) {
		if pt.Name == obj.Name {
			return true
		}
	}
	return false
}

func (e *Exec) collect(obj *ast.Definition, set ast.SelectionSet, out *[]*group, idx map[string]int, visited map[string]bool) {
	for _, sel := range set {
		switch s := sel.(type) {
		case *ast.Field:
			if e.skipped(s.Directives) {
				continue
			}
			k := s.Alias
			if k == "" {
				k = s.Name
			}
			if i, ok := idx[k]; ok {
				(*out)[i].fields = append((*out)[i].fields, s)
			} else {
				idx[k] = len(*out)
				*out = append(*out, &group{key: k, fields: []*ast.Field{s}})
			}
		case *ast.InlineFragment:
			if e.skipped(s.Directives) || !e.applies(s.TypeCondition, obj) {
				continue
			}
			e.collect(obj, s.SelectionSet, out, idx, visited)
		case *ast.FragmentSpread:
			if e.skipped(s.Directives) || visited[s.Name] {
				continue
			}
			visited[s.Name] = true
			fd := e.Doc.Fragments.ForName(s.Name)
			if fd == nil || !e.applies(fd.TypeCondition, obj) {
				continue
			}
			e.collect(obj, fd.SelectionSet, out, idx, visited)
		}
	}
}

func appendPath(p []any, x any) []any {
	q := make([]any, len(p)+1)
	copy(q, p)
	q[len(p)] = x
	return q
}

// selectionSet executes the merged selection sets on obj. ok=false: a non-null field failed
// and null must propagate to the parent.
func (e *Exec) selectionSet(obj Obj, def *ast.Definition, sets []ast.SelectionSet, path []any) (*OMap, bool) {
	var groups []*group
	idx := map[string]int{}
	visited := map[string]bool{}
	for _, s := range sets {
		e.collect(def, s, &groups, idx, visited)
	}
	out := &OMap{}
	for _, g := range groups {
		f := g.fields[0]
		var subs []ast.SelectionSet
		for _, ff := range g.fields {
			if len(ff.SelectionSet) > 0 {
				subs = append(subs, ff.SelectionSet)
			}
		}
		fpath := appendPath(path, g.key)
		if f.Name == "__typename" {
			out.Set(g.key, def.Name)
			continue
		}
		if e.Denied != nil && e.Denied(def.Name, f.Name) {
			e.DeniedPaths = append(e.DeniedPaths, fpath)
			if fdm := def.Fields.ForName(f.Name); fdm != nil && fdm.Type.NonNull {
				return nil, false
			}
			out.Set(g.key, nil)
			continue
		}
		if e.Missing != nil && e.Missing(obj, g.key) {
			e.MissingHits++
			if fdm := def.Fields.ForName(f.Name); fdm != nil && fdm.Type.NonNull {
				return nil, false
			}
			out.Set(g.key, nil)
			continue
		}
		fd := def.Fields.ForName(f.Name)
		if fd == nil {
			e.Errors = append(e.Errors, ExecError{Message: "no such field " + def.Name + "." + f.Name, Path: fpath})
			out.Set(g.key, nil)
			continue
		}
		if e.IsSub && def == e.Schema.Query && f.Name == "_entities" {
			out.Set(g.key, e.entities(f, fd, subs, fpath))
			continue
		}
		args, aerr := e.coerceArgs(fd, f.Arguments)
		if aerr != nil {
			e.Errors = append(e.Errors, ExecError{Message: aerr.Error(), Path: fpath})
			if fd.Type.NonNull {
				return nil, false
			}
			out.Set(g.key, nil)
			continue
		}
		v, ok := e.field(obj, def, fd, args, subs, fpath)
		if !ok {
			if fd.Type.NonNull {
				return nil, false
			}
			v = nil
		}
		out.Set(g.key, v)
	}
	return out, true
}

// field resolves and completes one field of obj.
func (e *Exec) field(obj Obj, def *ast.Definition, fd *ast.FieldDefinition, args *OMap, subs []ast.SelectionSet, path []any) (any, bool) {
	coord := obj.Type + "." + fd.Name
	argKey := ""
	if args != nil && len(args.Keys) > 0 {
		argKey = Canon(args)
	}
	// echo fields: return the arguments as the resolver saw them
	if strings.HasPrefix(fd.Name, "echo") {
		if args == nil {
			return "{}", true
		}
		return Canon(args), true
	}
	// @requires fields
	if sel, ok := e.U.Requires[coord]; ok {
		return "req(" + e.requiredFingerprint(obj, sel) + ")", true
	}
	// designated error fields
	if strings.HasPrefix(fd.Name, "err") && e.U.ErrEvery > 0 && e.U.h("err", obj.Type, strconv.Itoa(obj.N), fd.Name, argKey)%e.U.ErrEvery == 0 {
		e.Errors = append(e.Errors, ExecError{Message: "universe error at " + coord, Path: path})
		return nil, false
	}
	return e.complete(fd.Type, obj, fd.Name, argKey, "", subs, path)
}

// complete generates the universe value for type t at list position pos and completes it.
func (e *Exec) complete(t *ast.Type, obj Obj, field, argKey, pos string, subs []ast.SelectionSet, path []any) (any, bool) {
	u := e.U
	ns := strconv.Itoa(obj.N)
	if t.Elem != nil {
		if !t.NonNull && u.NullEvery > 0 && u.h("null", obj.Type, ns, field, argKey, pos)%u.NullEvery == 0 {
			return nil, true
		}
		n := int(u.h("len", obj.Type, ns, field, argKey, pos) % (u.MaxList + 1))
		out := make([]any, 0, n)
		for i := 0; i < n; i++ {
			v, ok := e.complete(t.Elem, obj, field, argKey, pos+"/"+strconv.Itoa(i), subs, appendPath(path, i))
			if !ok {
				if t.Elem.NonNull {
					return nil, false
				}
				v = nil
			}
			out = append(out, v)
		}
		return out, true
	}
	def := e.Super.Types[t.NamedType]
	if def == nil {
		def = e.Schema.Types[t.NamedType]
	}
	if def == nil {
		e.Errors = append(e.Errors, ExecError{Message: "unknown type " + t.NamedType, Path: path})
		return nil, false
	}
	seed := u.h("v", obj.Type, ns, field, argKey, pos)
	isKey := u.KeyScalars[obj.Type+"."+field]
	if !t.NonNull && !isKey && u.NullEvery > 0 && u.h("null", obj.Type, ns, field, argKey, pos)%u.NullEvery == 0 {
		return nil, true
	}
	switch def.Kind {
	case ast.Scalar:
		if isKey {
			return KeyScalar(field, obj.Type, obj.N), true
		}
		switch def.Name {
		case "ID":
			return "x" + strconv.FormatUint(seed%50, 10), true
		case "String":
			s := fmt.Sprintf("%s.%s#%d", obj.Type, field, seed%1000)
			if argKey != "" {
				s += argKey
			}
			if seed%11 == 0 {
				s += " \"q\" \\ \n é😀"
			}
			return s, true
		case "Int":
			return int64(seed%200) - 50, true
		case "Float":
			return json.Number(strconv.FormatFloat(float64(int64(seed%4000)-1000)/8, 'f', -1, 64)), true
		case "Boolean":
			return seed%2 == 0, true
		default:
			switch seed % 4 {
			case 0:
				return "custom-" + strconv.FormatUint(seed%100, 10), true
			case 1:
				return int64(seed % 1000), true
			case 2:
				m := &OMap{}
				m.Set("k", []any{int64(seed % 7), "v"})
				m.Set("z", nil)
				return m, true
			default:
				return []any{true, "x"}, true
			}
		}
	case ast.Enum:
		return def.EnumValues[int(seed%uint64(len(def.EnumValues)))].Name, true
	case ast.Object, ast.Interface, ast.Union:
		concrete := def
		if def.Kind != ast.Object {
			pts := append([]*ast.Definition(nil), e.Super.GetPossibleTypes(def)...)
			sort.Slice(pts, func(i, j int) bool { return pts[i].Name < pts[j].Name })
			if len(pts) == 0 {
				e.Errors = append(e.Errors, ExecError{Message: "abstract type without possible types " + def.Name, Path: path})
				return nil, false
			}
			concrete = pts[int((seed/7)%uint64(len(pts)))]
		}
		child := Obj{Type: concrete.Name, N: int(seed % u.Fanout)}
		if u.SameN[obj.Type+"."+field] {
			child.N = obj.N
		}
		local := e.Schema.Types[concrete.Name]
		if local == nil {
			e.Errors = append(e.Errors, ExecError{Message: "schema lacks runtime type " + concrete.Name, Path: path})
			e.Notes = append(e.Notes, "schema lacks runtime type "+concrete.Name)
			return nil, false
		}
		m, ok := e.selectionSet(child, local, subs, path)
		if !ok {
			return nil, false
		}
		return m, true
	}
	e.Errors = append(e.Errors, ExecError{Message: "unsupported kind", Path: path})
	return nil, false
}

// requiredFingerprint computes the canonical JSON of the required selection: from the
// representation in a subgraph, from the universe in the monolith.
func (e *Exec) requiredFingerprint(obj Obj, sel string) string {
	doc, perr := parser.ParseQuery(&ast.Source{Input: "{" + sel + "}"})
	if perr != nil || len(doc.Operations) == 0 {
		return "BADSEL"
	}
	set := doc.Operations[0].SelectionSet
	if e.IsSub {
		if obj.Rep == nil {
			return "MISSING-REPRESENTATION"
		}
		return Canon(projectRep(obj.Rep, set))
	}
	def := e.Super.Types[obj.Type]
	sub := &Exec{U: e.U, Super: e.Super, Schema: e.Super, Doc: &ast.QueryDocument{}, Vars: map[string]any{}}
	attachDefinitions(e.Super, def, set)
	m, ok := sub.selectionSet(Obj{Type: obj.Type, N: obj.N}, def, []ast.SelectionSet{set}, nil)
	if !ok {
		return "null"
	}
	return Canon(m)
}

// attachDefinitions is a no-op placeholder: selectionSet looks fields up by name.
func attachDefinitions(*ast.Schema, *ast.Definition, ast.SelectionSet) {}

func projectRep(rep map[string]any, set ast.SelectionSet) any {
	out := map[string]any{}
	for _, s := range set {
		f, ok := s.(*ast.Field)
		if !ok {
			continue
		}
		v, present := rep[f.Name]
		if !present {
			out[f.Name] = "ABSENT-IN-REPRESENTATION"
			continue
		}
		out[f.Name] = projectRepValue(v, f.SelectionSet)
	}
	return out
}

func projectRepValue(v any, set ast.SelectionSet) any {
	if len(set) == 0 {
		return v
	}
	switch x := v.(type) {
	case map[string]any:
		return projectRep(x, set)
	case []any:
		out := make([]any, len(x))
		for i, el := range x {
			out[i] = projectRepValue(el, set)
		}
		return out
	}
	return v
}

// entities resolves the federation _entities field in subgraph mode.
func (e *Exec) entities(f *ast.Field, fd *ast.FieldDefinition, subs []ast.SelectionSet, path []any) any {
	args, err := e.coerceArgs(fd, f.Arguments)
	if err != nil {
		e.Errors = append(e.Errors, ExecError{Message: err.Error(), Path: path})
		return nil
	}
	repsAny, _ := args.Get("representations")
	reps, _ := repsAny.([]any)
	out := make([]any, 0, len(reps))
	for i, r := range reps {
		rm := toPlainMap(r)
		tn, _ := rm["__typename"].(string)
		local := e.Schema.Types[tn]
		if local == nil || local.Kind != ast.Object {
			e.Notes = append(e.Notes, fmt.Sprintf("representation %d has unknown __typename %q", i, tn))
			e.Errors = append(e.Errors, ExecError{Message: "unknown entity type", Path: appendPath(path, i)})
			out = append(out, nil)
			continue
		}
		n, ok := e.lookupByKey(local, rm)
		if !ok {
			e.Notes = append(e.Notes, fmt.Sprintf("representation %d of %s carries no complete resolvable key of this subgraph: %s", i, tn, Canon(rm)))
			e.Errors = append(e.Errors, ExecError{Message: "cannot resolve entity", Path: appendPath(path, i)})
			out = append(out, nil)
			continue
		}
		m, ok := e.selectionSet(Obj{Type: tn, N: n, Rep: rm, ViaEntities: true}, local, subs, appendPath(path, i))
		if !ok {
			out = append(out, nil)
			continue
		}
		out = append(out, m)
	}
	return out
}

func toPlainMap(v any) map[string]any {
	switch x := v.(type) {
	case map[string]any:
		return x
	case *OMap:
		m := map[string]any{}
		for i, k := range x.Keys {
			m[k] = plainValue(x.Vals[i])
		}
		return m
	}
	return map[string]any{}
}

func plainValue(v any) any {
	switch x := v.(type) {
	case *OMap:
		return toPlainMap(x)
	case []any:
		out := make([]any, len(x))
		for i := range x {
			out[i] = plainValue(x[i])
		}
		return out
	}
	return v
}

// lookupByKey finds the object number from any @key of the local type that is resolvable
// and completely present in the representation.
func (e *Exec) lookupByKey(local *ast.Definition, rep map[string]any) (int, bool) {
	for _, d := range local.Directives {
		if d.Name != "key" {
			continue
		}
		if r := d.Arguments.ForName("resolvable"); r != nil && r.Value.Raw == "false" {
			continue
		}
		fa := d.Arguments.ForName("fields")
		if fa == nil {
			continue
		}
		doc, perr := parser.ParseQuery(&ast.Source{Input: "{" + fa.Value.Raw + "}"})
		if perr != nil || len(doc.Operations) == 0 {
			continue
		}
		n, ok := keyNumber(local.Name, rep, doc.Operations[0].SelectionSet)
		if ok {
			return n, true
		}
	}
	return 0, false
}

// keyNumber checks that every leaf of the key selection is present and consistent.
func keyNumber(typ string, rep map[string]any, set ast.SelectionSet) (int, bool) {
	n, have := -1, false
	for _, s := range set {
		f, ok := s.(*ast.Field)
		if !ok {
			return 0, false
		}
		v, present := rep[f.Name]
		if !present {
			return 0, false
		}
		if len(f.SelectionSet) > 0 {
			// nested key object: leaves are key scalars of the enclosing entity
			m, ok := v.(map[string]any)
			if !ok {
				return 0, false
			}
			nn, ok := keyNumber(typ, m, f.SelectionSet)
			if !ok {
				return 0, false
			}
			if have && nn != n {
				return 0, false
			}
			n, have = nn, true
			continue
		}
		s, ok := v.(string)
		if !ok {
			return 0, false
		}
		_, _, nn, ok := ParseKeyScalar(s)
		if !ok {
			return 0, false
		}
		if have && nn != n {
			return 0, false
		}
		n, have = nn, true
	}
	return n, have
}
