//go:build verif

package subrig

import (
	"encoding/json"
	"os"
	"testing"
)

// TestWriteRegress (development helper, run by hand with WRITE_REGRESS=1) writes the directed
// histories of the findings as regression cases.
func TestWriteRegress(t *testing.T) {
	if os.Getenv("WRITE_REGRESS") == "" {
		t.Skip()
	}
	extra := map[string]History{
		"C12/variant-error-removeClient": {Steps: []Step{
			{Op: OpSubscribe, Sub: 0, Conn: 1, Key: 0}, {Op: OpSubscribe, Sub: 1, Conn: 2, Key: 0, Filter: FIn0},
			{Op: OpError, Period: 0, Split: &Split{Point: PtError, Target: 1, Nested: []Step{{Op: OpRemoveClient, Conn: 2}}}},
			{Op: OpDone, Period: 0}}},
		"C12/variant-complete-sync-disconnect": {Steps: []Step{
			{Op: OpSubscribe, Sub: 0, Key: 1, Sync: true},
			{Op: OpEvent, Period: 0, N: 1, K: 1},
			{Op: OpComplete, Period: 0, Split: &Split{Point: PtComplete, Target: 0, Nested: []Step{{Op: OpUnsubscribe, Sub: 0}}}}}},
		"C12/variant-complete-shutdown": {Steps: []Step{
			{Op: OpSubscribe, Sub: 0, Conn: 1, Key: 0},
			{Op: OpComplete, Period: 0, Split: &Split{Point: PtComplete, Target: 0, Nested: []Step{{Op: OpShutdown}}}}}},
		"C13/variant-stale-start-nil-double-inc": {Steps: []Step{
			{Op: OpSubscribe, Sub: 0, Conn: 1, Key: 0, StartMode: StartBlock}, {Op: OpUnsubscribe, Sub: 0},
			{Op: OpSubscribe, Sub: 1, Conn: 2, Key: 0}, {Op: OpReleaseStart, Period: 0}, {Op: OpUnsubscribe, Sub: 1}}},
		"C13/variant-stale-start-parked-at-begin": {Steps: []Step{
			{Op: OpSubscribe, Sub: 0, Conn: 1, Key: 2, StartMode: StartErr, Split: &Split{Point: PtStart, Nested: []Step{
				{Op: OpUnsubscribe, Sub: 0}, {Op: OpSubscribe, Sub: 1, Conn: 2, Key: 2}}}},
			{Op: OpEvent, Period: 1, N: 1, K: 0}}},
		"C13/variant-init-race-done": {Steps: []Step{
			{Op: OpSubscribe, Sub: 0, Conn: 1, Key: 1, Split: &Split{Point: PtInit, Nested: []Step{{Op: OpDone, Period: 0}}}}}},
		"C13/variant-init-race-shutdown": {Steps: []Step{
			{Op: OpSubscribe, Sub: 0, Conn: 1, Key: 0}, {Op: OpSubscribe, Sub: 1, Conn: 2, Key: 3, Split: &Split{Point: PtInit, Nested: []Step{{Op: OpShutdown}}}}}},
		"C12/heartbeat-parked-while-removed": {Steps: []Step{
			{Op: OpSubscribe, Sub: 0, Conn: 1, Key: 0, HB: true}, {Op: OpSubscribe, Sub: 1, Conn: 2, Key: 0, Filter: FIn0, HB: true},
			{Op: OpHeartbeat, Period: 0, Split: &Split{Point: PtHeartbeat, Target: 1, Nested: []Step{{Op: OpUnsubscribe, Sub: 1}, {Op: OpEvent, Period: 0, N: 1, K: 0}}}},
			{Op: OpHeartbeat, Period: 0, Split: &Split{Point: PtWHeartbeat, Target: 0, Nested: []Step{{Op: OpUnsubscribe, Sub: 0}}}},
			{Op: OpSubscribe, Sub: 2, Conn: 3, Key: 0, HB: true, HBFail: true},
			{Op: OpHeartbeat, Period: 0, Split: &Split{Point: PtHeartbeat, Target: 2, Nested: []Step{{Op: OpRemoveClient, Conn: 3}}}}}},
		"C13/join-during-start-failure-broadcast": {Steps: []Step{
			{Op: OpSubscribe, Sub: 0, Conn: 1, Key: 2, StartMode: StartErr, Split: &Split{Point: PtWFlush, Target: 0, Nested: []Step{
				{Op: OpSubscribe, Sub: 1, Conn: 2, Key: 2}, {Op: OpSubscribe, Sub: 2, Conn: 3, Key: 0}}}},
			{Op: OpSubscribe, Sub: 3, Conn: 1, Key: 2}, {Op: OpEvent, Period: 2, N: 1, K: 0},
			{Op: OpSubscribe, Sub: 4, Conn: 1, Key: 1, Hook: HookFail, Split: &Split{Point: PtWFlush, Target: 4, Nested: []Step{{Op: OpSubscribe, Sub: 5, Conn: 2, Key: 1}}}},
			{Op: OpSubscribe, Sub: 6, Conn: 1, Key: 3, StartMode: StartBlock}, {Op: OpSubscribe, Sub: 7, Conn: 2, Key: 3},
			{Op: OpReleaseStart, Period: 4, Err: true, Split: &Split{Point: PtWFlush, Target: 7, Nested: []Step{
				{Op: OpUnsubscribe, Sub: 6}, {Op: OpSubscribe, Sub: 8, Conn: 3, Key: 3, Hook: HookEmit}}}},
			{Op: OpSubscribe, Sub: 9, Conn: 3, Key: 3}}},
		"C12/plain-two-subscribers-filters": {Steps: []Step{
			{Op: OpSubscribe, Sub: 0, Conn: 1, Key: 0, HB: true}, {Op: OpSubscribe, Sub: 1, Conn: 2, Key: 0, Filter: FIn0, Shape: 1},
			{Op: OpSubscribe, Sub: 2, Conn: 1, Key: 2, Filter: FNot0, Shape: 2},
			{Op: OpEvent, Period: 0, N: 1, K: 0}, {Op: OpEvent, Period: 0, N: 2, K: 1, Kind: EvErrors}, {Op: OpEvent, Period: 1, N: 3, K: 1, Kind: EvNoTag},
			{Op: OpEvent, Period: 0, N: 4, K: 0, Split: &Split{Point: PtWFlush, Target: 1, Nested: []Step{{Op: OpEvent, Period: 1, N: 5, K: 2}, {Op: OpUnsubscribe, Sub: 1}}}},
			{Op: OpEvent, Period: 0, N: 6, K: 0, Split: &Split{Point: PtUpdate, Target: 0, Nested: []Step{{Op: OpEvent, Period: 0, N: 7, K: 0}, {Op: OpRemoveClient, Conn: 1}}}},
			{Op: OpComplete, Period: 0}, {Op: OpDone, Period: 0}}},
	}
	for name, h := range extra {
		b, _ := json.Marshal(h)
		doc, _ := json.MarshalIndent(map[string]any{"property": name[:3], "part": "machine", "case": json.RawMessage(b), "why": "directed history: " + h.String()}, "", " ")
		if err := os.WriteFile("/verif/regress/"+name+".json", doc, 0o644); err != nil {
			t.Fatal(err)
		}
	}
	for _, id := range FindingIDs {
		prop := id[:3]
		b, _ := json.Marshal(ProbeHistory(id))
		doc, _ := json.MarshalIndent(map[string]any{"property": prop, "part": "machine", "case": json.RawMessage(b),
			"why": "directed history of finding " + id + " (passes while the finding is listed as known and only it reproduces; must pass outright once fixed)"}, "", " ")
		if err := os.WriteFile("/verif/regress/"+prop+"/finding-"+id+".json", doc, 0o644); err != nil {
			t.Fatal(err)
		}
	}
}
