package c02

// Type-directed generation of the subgraph document j for an operation, and its mutation at
// 0-3 positions. All randomness comes from rapid.

import (
	"fmt"
	"sort"
	"strings"

	gast "github.com/vektah/gqlparser/v2/ast"
	"pgregory.net/rapid"
)

type dataGen struct {
	t *rapid.T
	m *model
}

func (g *dataGen) draw(n int, label string) int { return uniform(g.t, n, label) }

var (
	sampleStrings = []string{"s", "", "héllo wörld", "quote\" back\\slash /", "line\nbreak\ttab\r", "\u0001ctl\u001f", "<&>'", "😀   end", "null", "0"}
	sampleInts    = []string{"0", "7", "-3", "2147483647", "-2147483648", "42"}
	exoticInts    = []string{"1e2", "2.0", "-0"}
	sampleFloats  = []string{"2.5", "-0.0", "1e10", "3", "1E-2", "123456789.123456789", "-7.25e+3", "0.1"}
	sampleIDs     = []string{"id1", "", "7f3a-22", "ü"}
)

func (g *dataGen) leaf(def *gast.Definition) *jv {
	switch def.Kind {
	case gast.Enum:
		return jstr(def.EnumValues[g.draw(len(def.EnumValues), "enumv")].Name)
	}
	switch def.Name {
	case "String":
		return jstr(sampleStrings[g.draw(len(sampleStrings), "str")])
	case "Int":
		if g.draw(12, "intx") == 0 {
			return jnum(exoticInts[g.draw(len(exoticInts), "intxi")])
		}
		return jnum(sampleInts[g.draw(len(sampleInts), "int")])
	case "Float":
		return jnum(sampleFloats[g.draw(len(sampleFloats), "float")])
	case "Boolean":
		return jbool(g.draw(2, "bool") == 0)
	case "ID":
		if g.draw(5, "idnum") == 0 {
			return jnum(sampleInts[g.draw(len(sampleInts), "idint")])
		}
		return jstr(sampleIDs[g.draw(len(sampleIDs), "id")])
	}
	// custom scalar: any JSON value
	switch g.draw(7, "custom") {
	case 0:
		return jstr("2020-01-01T00:00:00Z")
	case 1:
		return jnum("12345678901234567890")
	case 2:
		return jbool(true)
	case 3:
		o := jobj()
		o.set("a", jarr(jnum("1"), jnull(), jstr("x\"y")))
		o.set("b", jobj())
		return o
	case 4:
		return jarr(jnum("1.5"), jarr(), jobj())
	case 5:
		return jnum("-1.5e3")
	default:
		o := jobj()
		o.set("__typename", jstr("Nope"))
		o.set("é", jnull())
		return o
	}
}

func (g *dataGen) value(t *gast.Type, sets []gast.SelectionSet) *jv {
	if !t.NonNull && g.draw(7, "null") == 0 {
		return jnull()
	}
	if t.Elem != nil {
		n := []int{0, 1, 1, 1, 2, 2, 2, 3}[g.draw(8, "len")]
		out := &jv{k: jArr, arr: make([]*jv, 0, n)}
		for i := 0; i < n; i++ {
			out.arr = append(out.arr, g.value(t.Elem, sets))
		}
		return out
	}
	def := g.m.s.Types[t.NamedType]
	if !def.IsCompositeType() {
		return g.leaf(def)
	}
	pts := possibleNames(g.m.s, def)
	rt := pts[g.draw(len(pts), "rt")]
	return g.object(def, rt, sets, false)
}

func (g *dataGen) object(def *gast.Definition, rt string, sets []gast.SelectionSet, root bool) *jv {
	o := jobj()
	// a well-behaved subgraph returns __typename wherever the planner asks for it: always at
	// abstract positions and at concrete positions whose selection contains a fragment on an
	// abstract type (such fragments can survive normalization)
	withTN := !root && (def.Kind != gast.Object || g.draw(2, "tn") == 0 || g.m.levelInfo(sets, def.Name).abstractFrags > 0)
	tnLast := g.draw(4, "tnlast") == 0
	if withTN && !tnLast {
		o.set("__typename", jstr(rt))
	}
	fields := g.m.collect(sets, rt)
	idx := make([]int, len(fields))
	for i := range idx {
		idx[i] = i
	}
	if len(idx) > 1 && g.draw(4, "shuffle") == 0 {
		idx = rapid.Permutation(idx).Draw(g.t, "perm")
	}
	for _, i := range idx {
		f := fields[i]
		if f.name == "__typename" {
			if root {
				continue // static in the plan; a subgraph is never asked for it
			}
			o.set(f.key, jstr(rt))
			continue
		}
		o.set(f.key, g.value(f.typ, f.sets))
	}
	if withTN && tnLast {
		o.set("__typename", jstr(rt))
	}
	return o
}

// ---- mutation -------------------------------------------------------------------------

// mpos is one typed position of the (possibly already mutated) document.
type mpos struct {
	path   []any
	t      *gast.Type
	sets   []gast.SelectionSet
	node   *jv // nil: key absent
	parent *jv // nil: root
	key    string
	idx    int
	isItem bool
	cell   string   // coverage cell of the enclosing field
	tnOf   []string // the position is a selected __typename field: possible type names of its object
}

func (m *model) positions(root *jv) []mpos {
	var out []mpos
	var walk func(p mpos)
	walk = func(p mpos) {
		out = append(out, p)
		if p.node.isNull() {
			return
		}
		if p.t.Elem != nil {
			if p.node.k != jArr {
				return
			}
			for i, it := range p.node.arr {
				walk(mpos{path: pathAppend(p.path, i), t: p.t.Elem, sets: p.sets, node: it, parent: p.node, idx: i, isItem: true, cell: p.cell})
			}
			return
		}
		def := m.s.Types[p.t.NamedType]
		if !def.IsCompositeType() || p.node.k != jObj {
			return
		}
		rt, ok := m.runtimeType(def, p.node)
		if !ok {
			return
		}
		for _, f := range m.collect(p.sets, rt) {
			if f.name == "__typename" && rt == m.rootName() {
				continue
			}
			cell := "typename"
			if f.fieldDef != nil {
				cell = m.cellOf(f.typ)
			}
			var tnOf []string
			if f.fieldDef == nil {
				tnOf = possibleNames(m.s, def)
			}
			walk(mpos{path: pathAppend(p.path, f.key), t: f.typ, sets: f.sets, node: p.node.get(f.key), parent: p.node, key: f.key, cell: cell, tnOf: tnOf})
		}
	}
	walk(mpos{t: gast.NonNullNamedType(m.rootName(), nil), sets: []gast.SelectionSet{m.op.SelectionSet}, node: root})
	return out
}

func (m *model) rootName() string { return m.s.Query.Name }

// runtimeType resolves the runtime object type of a JSON object at a composite position;
// ok=false when an abstract position carries no usable __typename.
func (m *model) runtimeType(def *gast.Definition, v *jv) (string, bool) {
	tn := v.get("__typename")
	if def.Kind == gast.Object {
		// absent / non-string: the static type. A string naming another type contradicts the
		// schema: unknown runtime type (not demanded of the root object, whose type nothing checks).
		if tn != nil && tn.k == jStr && tn.s != def.Name && def.Name != m.rootName() {
			return "", false
		}
		return def.Name, true
	}
	if tn == nil || tn.k != jStr {
		return "", false
	}
	for _, p := range possibleNames(m.s, def) {
		if p == tn.s {
			return p, true
		}
	}
	return "", false
}

func junkValues() []*jv {
	tn := jobj()
	tn.set("__typename", jstr("Nope"))
	a1 := jobj()
	a1.set("a", jnum("1"))
	return []*jv{jstr("str"), jstr(""), jnum("7"), jnum("1.5"), jbool(true), jbool(false), jobj(), jarr(), jarr(jnull()), tn, a1, jarr(jarr()), jarr(jstr("x")), jnum("0")}
}

func (g *dataGen) junkOtherThan(cur *jv) *jv {
	js := junkValues()
	var cands []*jv
	for _, j := range js {
		if cur == nil || j.k != cur.k {
			cands = append(cands, j)
		}
	}
	return cands[g.draw(len(cands), "junk")].clone()
}

func (p mpos) replace(nv *jv) {
	switch {
	case p.isItem:
		p.parent.arr[p.idx] = nv
	case p.parent != nil:
		p.parent.set(p.key, nv)
	}
}

// mutate applies one mutation; returns the new root and a description ("" = nothing done).
// rootReplace allows replacing the root value itself (driver (ii) only).
func (g *dataGen) mutate(root *jv, rootReplace bool) (*jv, string) {
	nr, d, cell := g.mutate1(root, rootReplace)
	if d != "" && cell != "" {
		d += " [" + cell + "]"
	}
	return nr, d
}

func (g *dataGen) mutate1(root *jv, rootReplace bool) (*jv, string, string) {
	ps := g.m.positions(root)
	// prefer positions below the root field level half of the time
	p := ps[g.draw(len(ps), "pos")]
	if len(p.path) <= 1 && g.draw(2, "deeper") == 0 {
		var deep []mpos
		for _, q := range ps {
			if len(q.path) > 1 {
				deep = append(deep, q)
			}
		}
		if len(deep) > 0 {
			p = deep[g.draw(len(deep), "deeppos")]
		}
	}
	isRoot := p.parent == nil
	setRoot := func(nv *jv) *jv {
		if isRoot {
			return nv
		}
		p.replace(nv)
		return root
	}
	var def *gast.Definition
	if p.t.Elem == nil {
		def = g.m.s.Types[p.t.NamedType]
	}
	ops := []string{"null", "wrongkind"}
	if isRoot && !rootReplace {
		ops = nil
	}
	if !isRoot && !p.isItem && p.node != nil {
		ops = append(ops, "missing", "missing")
	}
	if p.node != nil && p.node.k == jArr && p.t.Elem != nil {
		ops = append(ops, "arr2obj", "unwrap", "wrap-extra", "append-junk", "append-null")
		if p.t.Elem.Elem != nil {
			ops = append(ops, "ragged", "inner-scalar", "inner-null", "inner-object")
		}
	}
	if def != nil && def.IsCompositeType() && p.node != nil && p.node.k == jObj {
		if !isRoot || rootReplace {
			ops = append(ops, "obj2arr")
		}
		ops = append(ops, "tn-unknown", "tn-missing", "tn-nonmember", "tn-nonstring", "tn-abstract-name", "tn-null", "extra-key", "extra-schema-key",
			"tn-degenerate", "tn-degenerate")
	}
	if p.tnOf != nil {
		// the value a selected __typename field delivers (aliased or not)
		ops = append(ops, "tnfield-degenerate", "tnfield-degenerate", "tnfield-other-name")
	}
	if def != nil && def.Kind == gast.Enum {
		ops = append(ops, "enum-invalid", "enum-invalid", "enum-case", "enum-number")
	}
	if def != nil && (def.Name == "Int" || def.Name == "Float") && def.Kind == gast.Scalar {
		ops = append(ops, "num-exotic")
	}
	op := ops[g.draw(len(ops), "mop")]
	at := op + "@" + pathKey(p.path)
	switch op {
	case "null":
		return setRoot(jnull()), at, p.cell
	case "missing":
		p.parent.del(p.key)
		return root, at, p.cell
	case "wrongkind":
		return setRoot(g.junkOtherThan(p.node)), at, p.cell
	case "arr2obj":
		o := jobj()
		if g.draw(2, "a2o") == 0 {
			for i, it := range p.node.arr {
				o.set(fmt.Sprint(i), it)
			}
		}
		return setRoot(o), at, p.cell
	case "unwrap":
		if len(p.node.arr) == 0 {
			return setRoot(jstr("unwrapped")), at, p.cell
		}
		return setRoot(p.node.arr[0]), at, p.cell
	case "wrap-extra":
		return setRoot(jarr(p.node)), at, p.cell
	case "append-junk":
		var cur *jv
		if len(p.node.arr) > 0 {
			cur = p.node.arr[0]
		}
		p.node.arr = append(p.node.arr, g.junkOtherThan(cur))
		return root, at, p.cell
	case "append-null":
		p.node.arr = append(p.node.arr, jnull())
		return root, at, p.cell
	case "ragged":
		p.node.arr = append(p.node.arr, jarr(), jarr(jnull(), jnull(), jnull()))
		return root, at, p.cell
	case "inner-scalar":
		p.node.arr = append([]*jv{jstr("flat")}, p.node.arr...)
		return root, at, p.cell
	case "inner-null":
		p.node.arr = append(p.node.arr, jnull())
		return root, at, p.cell
	case "inner-object":
		p.node.arr = append(p.node.arr, jobj())
		return root, at, p.cell
	case "obj2arr":
		if g.draw(2, "o2a") == 0 {
			return setRoot(jarr()), at, p.cell
		}
		return setRoot(jarr(p.node)), at, p.cell
	case "tn-unknown":
		p.node.set("__typename", jstr("Nope"))
		return root, at, p.cell
	case "tn-missing":
		p.node.del("__typename")
		return root, at, p.cell
	case "tn-null":
		p.node.set("__typename", jnull())
		return root, at, p.cell
	case "tn-degenerate":
		p.node.set("__typename", jstr(g.degenerateName(possibleNames(g.m.s, def))))
		return root, at, p.cell
	case "tnfield-degenerate":
		return setRoot(jstr(g.degenerateName(p.tnOf))), at, p.cell
	case "tnfield-other-name":
		// another possible type name when there is one (valid as a name, inconsistent with the
		// object), else an unknown one
		name := "Nope"
		for _, n := range p.tnOf {
			if p.node == nil || p.node.k != jStr || n != p.node.s {
				name = n
			}
		}
		return setRoot(jstr(name)), at, p.cell
	case "tn-nonstring":
		p.node.set("__typename", jnum("5"))
		return root, at, p.cell
	case "tn-abstract-name":
		name := def.Name
		if def.Kind == gast.Object {
			name = "N"
		}
		p.node.set("__typename", jstr(name))
		return root, at, p.cell
	case "tn-nonmember":
		p.node.set("__typename", jstr(g.nonMember(def)))
		return root, at, p.cell
	case "extra-key":
		p.node.set("zz_extra", g.junkOtherThan(nil))
		return root, at, p.cell
	case "extra-schema-key":
		// a real schema field that is not selected here (or is: then it overwrites with junk)
		name := fieldName(g.draw(numKinds, "xk"), g.draw(numShapes, "xs"))
		if p.node.has(name) {
			name = "k9_" + name
		}
		p.node.set(name, g.junkOtherThan(nil))
		return root, at, p.cell
	case "enum-invalid":
		return setRoot(jstr("ZZ_NOT_A_VALUE")), at, p.cell
	case "enum-case":
		s := "red"
		if p.node != nil && p.node.k == jStr {
			s = strings.ToLower(p.node.s)
			if s == p.node.s {
				s = strings.ToUpper(p.node.s)
			}
		}
		return setRoot(jstr(s)), at, p.cell
	case "enum-number":
		return setRoot(jnum("0")), at, p.cell
	case "num-exotic":
		ex := []string{"1.5", "3000000000", "-1e3", "1e-7", "0.0", "9007199254740993", "1E2"}
		return setRoot(jnum(ex[g.draw(len(ex), "numx")])), at, p.cell
	}
	return root, "", ""
}

// degenerateName: strings that are close to "no name" or close to a valid name without being one.
func (g *dataGen) degenerateName(valid []string) string {
	v := "A"
	if len(valid) > 0 {
		v = valid[g.draw(len(valid), "dnv")]
	}
	if g.draw(2, "dnempty") == 0 {
		return "" // GetStringBytes yields a non-nil EMPTY slice for it: neither absent nor a name
	}
	c := []string{" ", "null", strings.ToLower(v), v + " ", " " + v, "\u0000", v + "\u0000", "__typename", strings.ToUpper(v) + "_"}
	return c[g.draw(len(c), "dn")]
}

// nonMember names a real object type that is not a possible type of def ("Query" when
// every object type is possible).
func (g *dataGen) nonMember(def *gast.Definition) string {
	poss := possibleNames(g.m.s, def)
	var objs []string
	for n, d := range g.m.s.Types {
		if d.Kind == gast.Object && !strings.HasPrefix(n, "__") && n != g.m.rootName() && !contains(poss, n) {
			objs = append(objs, n)
		}
	}
	sort.Strings(objs)
	if len(objs) == 0 {
		return g.m.rootName()
	}
	return objs[g.draw(len(objs), "nonmember")]
}
