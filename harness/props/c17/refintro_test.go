package c17

// A small reference implementation of schema introspection over a gqlparser schema, and the
// tolerant comparison of its answers with the engine's.

import (
	"encoding/json"
	"fmt"
	"sort"
	"strings"

	gast "github.com/vektah/gqlparser/v2/ast"
)

// Tolerance markers produced by the reference.
type (
	setList    []any                   // list whose order is not demanded
	descStr    struct{ s *string }     // description: null and "" identified
	defaultLit struct{ s *gast.Value } // default value: compared as a parsed value
	naList     struct{}                // member that does not apply to this kind: null or []
)

// meta nodes
type (
	nSchema struct{}
	nType   struct {
		def  *gast.Definition
		wrap *gast.Type
	}
	nField struct{ f *gast.FieldDefinition }
	nInput struct {
		name, desc string
		ty         *gast.Type
		def        *gast.Value
		dirs       gast.DirectiveList
	}
	nEnumValue struct{ v *gast.EnumValueDefinition }
	nDirective struct{ d *gast.DirectiveDefinition }
)

type refIntro struct {
	s    *gast.Schema
	doc  *gast.QueryDocument
	op   *gast.OperationDefinition
	vars map[string]any
	err  error
}

func (e *refIntro) fail(format string, a ...any) {
	if e.err == nil {
		e.err = fmt.Errorf(format, a...)
	}
}

func (e *refIntro) varValue(name string) (any, bool) {
	if v, ok := e.vars[name]; ok {
		return v, true
	}
	if vd := e.op.VariableDefinitions.ForName(name); vd != nil && vd.DefaultValue != nil {
		switch vd.DefaultValue.Kind {
		case gast.BooleanValue:
			return vd.DefaultValue.Raw == "true", true
		case gast.StringValue, gast.BlockValue:
			return vd.DefaultValue.Raw, true
		case gast.NullValue:
			return nil, true
		}
		e.fail("unsupported variable default %s", vd.DefaultValue.String())
	}
	return nil, false
}

// argBool evaluates a Boolean argument (literal or variable); def is the argument's default.
func (e *refIntro) argBool(args gast.ArgumentList, name string, def bool) bool {
	a := args.ForName(name)
	if a == nil {
		return def
	}
	switch a.Value.Kind {
	case gast.BooleanValue:
		return a.Value.Raw == "true"
	case gast.Variable:
		v, ok := e.varValue(a.Value.Raw)
		if !ok {
			return def
		}
		b, _ := v.(bool)
		return b
	case gast.NullValue:
		return false
	}
	e.fail("unsupported boolean argument %s", a.Value.String())
	return def
}

func (e *refIntro) argString(args gast.ArgumentList, name string) (string, bool) {
	a := args.ForName(name)
	if a == nil {
		return "", false
	}
	switch a.Value.Kind {
	case gast.StringValue, gast.BlockValue:
		return a.Value.Raw, true
	case gast.Variable:
		v, ok := e.varValue(a.Value.Raw)
		if !ok {
			return "", false
		}
		s, isStr := v.(string)
		return s, isStr
	}
	e.fail("unsupported string argument %s", a.Value.String())
	return "", false
}

func (e *refIntro) included(dirs gast.DirectiveList) bool {
	if d := dirs.ForName("skip"); d != nil && e.argBool(d.Arguments, "if", false) {
		return false
	}
	if d := dirs.ForName("include"); d != nil && !e.argBool(d.Arguments, "if", true) {
		return false
	}
	return true
}

type collected struct {
	key    string
	fields []*gast.Field
}

// collect implements CollectFields for a concrete type name.
func (e *refIntro) collect(typeName string, sets []gast.SelectionSet) []*collected {
	var out []*collected
	idx := map[string]*collected{}
	var walk func(ss gast.SelectionSet)
	walk = func(ss gast.SelectionSet) {
		for _, sel := range ss {
			switch x := sel.(type) {
			case *gast.Field:
				if !e.included(x.Directives) {
					continue
				}
				k := x.Alias
				if k == "" {
					k = x.Name
				}
				c := idx[k]
				if c == nil {
					c = &collected{key: k}
					idx[k] = c
					out = append(out, c)
				}
				c.fields = append(c.fields, x)
			case *gast.InlineFragment:
				if !e.included(x.Directives) {
					continue
				}
				if x.TypeCondition != "" && x.TypeCondition != typeName {
					continue
				}
				walk(x.SelectionSet)
			case *gast.FragmentSpread:
				if !e.included(x.Directives) {
					continue
				}
				fd := e.doc.Fragments.ForName(x.Name)
				if fd == nil {
					e.fail("unknown fragment %s", x.Name)
					continue
				}
				if fd.TypeCondition != typeName {
					continue
				}
				walk(fd.SelectionSet)
			}
		}
	}
	for _, ss := range sets {
		walk(ss)
	}
	return out
}

func subSets(fs []*gast.Field) []gast.SelectionSet {
	out := make([]gast.SelectionSet, len(fs))
	for i, f := range fs {
		out[i] = f.SelectionSet
	}
	return out
}

func (e *refIntro) execObject(typeName string, node any, sets []gast.SelectionSet) map[string]any {
	out := map[string]any{}
	for _, c := range e.collect(typeName, sets) {
		f := c.fields[0]
		var v any
		if f.Name == "__typename" {
			v = typeName
		} else {
			v = e.resolve(typeName, node, f)
		}
		out[c.key] = e.complete(v, c.fields)
	}
	return out
}

func metaTypeOf(node any) string {
	switch node.(type) {
	case nSchema:
		return "__Schema"
	case nType:
		return "__Type"
	case nField:
		return "__Field"
	case nInput:
		return "__InputValue"
	case nEnumValue:
		return "__EnumValue"
	case nDirective:
		return "__Directive"
	}
	return ""
}

func (e *refIntro) complete(v any, fs []*gast.Field) any {
	switch x := v.(type) {
	case nil:
		return nil
	case setList:
		out := make(setList, len(x))
		for i, it := range x {
			out[i] = e.complete(it, fs)
		}
		return out
	case nSchema, nType, nField, nInput, nEnumValue, nDirective:
		return e.execObject(metaTypeOf(x), x, subSets(fs))
	}
	return v
}

func strPtr(s string) *string { return &s }

func (e *refIntro) typeNode(t *gast.Type) nType {
	if t.NonNull || t.Elem != nil {
		return nType{wrap: t}
	}
	d := e.s.Types[t.NamedType]
	if d == nil {
		e.fail("reference to unknown type %s", t.NamedType)
	}
	return nType{def: d}
}

func isDeprecated(dirs gast.DirectiveList) bool { return dirs.ForName("deprecated") != nil }

func (e *refIntro) deprecationReason(dirs gast.DirectiveList) any {
	d := dirs.ForName("deprecated")
	if d == nil {
		return nil
	}
	if a := d.Arguments.ForName("reason"); a != nil && a.Value != nil {
		if a.Value.Kind == gast.NullValue {
			return nil
		}
		return a.Value.Raw
	}
	if dd := e.s.Directives["deprecated"]; dd != nil {
		if a := dd.Arguments.ForName("reason"); a != nil && a.DefaultValue != nil {
			return a.DefaultValue.Raw
		}
	}
	return defaultDeprecationReason
}

func inputNodes(args gast.ArgumentDefinitionList, includeDeprecated bool) setList {
	out := setList{}
	for _, a := range args {
		if !includeDeprecated && isDeprecated(a.Directives) {
			continue
		}
		out = append(out, nInput{name: a.Name, desc: a.Description, ty: a.Type, def: a.DefaultValue, dirs: a.Directives})
	}
	return out
}

func (e *refIntro) resolve(typeName string, node any, f *gast.Field) any {
	switch n := node.(type) {
	case nSchema:
		switch f.Name {
		case "description":
			return descStr{strPtr(e.s.Description)}
		case "types":
			out := setList{}
			for _, name := range sortedTypeNames(e.s) {
				if strings.HasPrefix(name, "__") {
					continue // tolerated: the meta types are not listed by the engine
				}
				out = append(out, nType{def: e.s.Types[name]})
			}
			return out
		case "queryType":
			return nType{def: e.s.Query}
		case "mutationType":
			if e.s.Mutation == nil {
				return nil
			}
			return nType{def: e.s.Mutation}
		case "subscriptionType":
			if e.s.Subscription == nil {
				return nil
			}
			return nType{def: e.s.Subscription}
		case "directives":
			names := make([]string, 0, len(e.s.Directives))
			for dn := range e.s.Directives {
				names = append(names, dn)
			}
			sort.Strings(names)
			out := setList{}
			for _, dn := range names {
				out = append(out, nDirective{e.s.Directives[dn]})
			}
			return out
		}
	case nType:
		if n.wrap != nil {
			switch f.Name {
			case "kind":
				if n.wrap.NonNull {
					return "NON_NULL"
				}
				return "LIST"
			case "name", "specifiedByURL":
				return nil
			case "description":
				return descStr{}
			case "fields", "interfaces", "possibleTypes", "enumValues", "inputFields":
				return naList{}
			case "ofType":
				if n.wrap.NonNull {
					c := *n.wrap
					c.NonNull = false
					return e.typeNode(&c)
				}
				return e.typeNode(n.wrap.Elem)
			}
			break
		}
		d := n.def
		switch f.Name {
		case "kind":
			return kindName(d.Kind)
		case "name":
			return d.Name
		case "description":
			return descStr{strPtr(d.Description)}
		case "specifiedByURL":
			if sb := d.Directives.ForName("specifiedBy"); sb != nil && d.Kind == gast.Scalar {
				if a := sb.Arguments.ForName("url"); a != nil && a.Value != nil {
					return a.Value.Raw
				}
			}
			return nil
		case "fields":
			if d.Kind != gast.Object && d.Kind != gast.Interface {
				return naList{}
			}
			inc := e.argBool(f.Arguments, "includeDeprecated", false)
			out := setList{}
			for _, fd := range d.Fields {
				if strings.HasPrefix(fd.Name, "__") || (!inc && isDeprecated(fd.Directives)) {
					continue
				}
				out = append(out, nField{fd})
			}
			return out
		case "interfaces":
			if d.Kind != gast.Object && d.Kind != gast.Interface {
				return naList{}
			}
			out := setList{}
			for _, i := range d.Interfaces {
				out = append(out, nType{def: e.s.Types[i]})
			}
			return out
		case "possibleTypes":
			if d.Kind != gast.Interface && d.Kind != gast.Union {
				return naList{}
			}
			out := setList{}
			for _, o := range possibleObjects(e.s, d) {
				out = append(out, nType{def: e.s.Types[o]})
			}
			return out
		case "enumValues":
			if d.Kind != gast.Enum {
				return naList{}
			}
			inc := e.argBool(f.Arguments, "includeDeprecated", false)
			out := setList{}
			for _, ev := range d.EnumValues {
				if !inc && isDeprecated(ev.Directives) {
					continue
				}
				out = append(out, nEnumValue{ev})
			}
			return out
		case "inputFields":
			if d.Kind != gast.InputObject {
				return naList{}
			}
			inc := e.argBool(f.Arguments, "includeDeprecated", false)
			out := setList{}
			for _, fd := range d.Fields {
				if !inc && isDeprecated(fd.Directives) {
					continue
				}
				out = append(out, nInput{name: fd.Name, desc: fd.Description, ty: fd.Type, def: fd.DefaultValue, dirs: fd.Directives})
			}
			return out
		case "ofType":
			return nil
		}
	case nField:
		switch f.Name {
		case "name":
			return n.f.Name
		case "description":
			return descStr{strPtr(n.f.Description)}
		case "args":
			return inputNodes(n.f.Arguments, e.argBool(f.Arguments, "includeDeprecated", false))
		case "type":
			return e.typeNode(n.f.Type)
		case "isDeprecated":
			return isDeprecated(n.f.Directives)
		case "deprecationReason":
			return e.deprecationReason(n.f.Directives)
		}
	case nInput:
		switch f.Name {
		case "name":
			return n.name
		case "description":
			return descStr{strPtr(n.desc)}
		case "type":
			return e.typeNode(n.ty)
		case "defaultValue":
			return defaultLit{n.def}
		case "isDeprecated":
			return isDeprecated(n.dirs)
		case "deprecationReason":
			return e.deprecationReason(n.dirs)
		}
	case nEnumValue:
		switch f.Name {
		case "name":
			return n.v.Name
		case "description":
			return descStr{strPtr(n.v.Description)}
		case "isDeprecated":
			return isDeprecated(n.v.Directives)
		case "deprecationReason":
			return e.deprecationReason(n.v.Directives)
		}
	case nDirective:
		switch f.Name {
		case "name":
			return n.d.Name
		case "description":
			return descStr{strPtr(n.d.Description)}
		case "locations":
			out := setList{}
			for _, l := range n.d.Locations {
				out = append(out, string(l))
			}
			return out
		case "args":
			return inputNodes(n.d.Arguments, e.argBool(f.Arguments, "includeDeprecated", false))
		case "isRepeatable":
			return n.d.IsRepeatable
		}
	}
	e.fail("reference introspection does not know %s.%s", typeName, f.Name)
	return nil
}

// refIntrospect answers an (already validated) introspection query. staticData are the values
// of the non-introspection root fields the engine is configured to serve.
func refIntrospect(s *gast.Schema, doc *gast.QueryDocument, vars map[string]any, staticData map[string]any) (map[string]any, error) {
	if len(doc.Operations) != 1 {
		return nil, fmt.Errorf("reference handles exactly one operation")
	}
	e := &refIntro{s: s, doc: doc, op: doc.Operations[0], vars: vars}
	if e.op.Operation != gast.Query {
		return nil, fmt.Errorf("reference handles queries only")
	}
	rootName := s.Query.Name
	out := map[string]any{}
	for _, c := range e.collect(rootName, []gast.SelectionSet{e.op.SelectionSet}) {
		f := c.fields[0]
		switch f.Name {
		case "__typename":
			out[c.key] = rootName
		case "__schema":
			out[c.key] = e.complete(nSchema{}, c.fields)
		case "__type":
			name, ok := e.argString(f.Arguments, "name")
			d := s.Types[name]
			if !ok || d == nil || strings.HasPrefix(name, "__") {
				if ok && strings.HasPrefix(name, "__") && d != nil {
					e.fail("query asks for meta type %s (the engine is known not to list those; generator must not ask)", name)
				}
				out[c.key] = nil
				continue
			}
			out[c.key] = e.complete(nType{def: d}, c.fields)
		default:
			v, ok := staticData[f.Name]
			if !ok {
				e.fail("reference cannot answer root field %s", f.Name)
			}
			out[c.key] = v
		}
	}
	return out, e.err
}

// ---- tolerant comparison -------------------------------------------------------------------

// introDiff is one difference between the reference's and the engine's answer.
type introDiff struct {
	Path string // response path (response keys)
	Kind string // description | reason | default | missing | invented | na | other
	Want string
	Got  string
}

func (d introDiff) String() string {
	switch d.Kind {
	case "missing":
		return fmt.Sprintf("%s: MISSING item %s", d.Path, d.Want)
	case "invented":
		return fmt.Sprintf("%s: INVENTED item %s", d.Path, d.Got)
	}
	return fmt.Sprintf("%s: %s: schema says %s, engine says %s", d.Path, d.Kind, d.Want, d.Got)
}

func lastSegment(path string) string {
	if i := strings.LastIndexByte(path, '.'); i >= 0 {
		path = path[i+1:]
	}
	if i := strings.IndexByte(path, '['); i >= 0 {
		path = path[:i]
	}
	return path
}

func short(v any) string {
	b, err := json.Marshal(plain(v))
	if err != nil {
		return fmt.Sprint(v)
	}
	if len(b) > 300 {
		return string(b[:300]) + "…"
	}
	return string(b)
}

// plain turns reference values into printable JSON-like values.
func plain(v any) any {
	switch x := v.(type) {
	case setList:
		out := make([]any, len(x))
		for i, it := range x {
			out[i] = plain(it)
		}
		return out
	case map[string]any:
		out := map[string]any{}
		for k, it := range x {
			out[k] = plain(it)
		}
		return out
	case descStr:
		if x.s == nil {
			return nil
		}
		return *x.s
	case defaultLit:
		if x.s == nil {
			return nil
		}
		return "<literal> " + x.s.String()
	case naList:
		return "<null or []>"
	}
	return v
}

// plainJSON turns a reference answer into the JSON an exact implementation would send
// (default values as literal text, not-applicable members as null).
func plainJSON(v any) any {
	switch x := v.(type) {
	case setList:
		out := make([]any, len(x))
		for i, it := range x {
			out[i] = plainJSON(it)
		}
		return out
	case map[string]any:
		out := map[string]any{}
		for k, it := range x {
			out[k] = plainJSON(it)
		}
		return out
	case descStr:
		if x.s == nil || *x.s == "" {
			return nil
		}
		return *x.s
	case defaultLit:
		if x.s == nil {
			return nil
		}
		return x.s.String()
	case naList:
		return nil
	}
	return v
}

// cmpIntro compares a reference value with the engine's value; it returns the differences.
func cmpIntro(ref, eng any, path string) []introDiff {
	other := func(want string) []introDiff {
		return []introDiff{{Path: path, Kind: "other", Want: want, Got: short(eng)}}
	}
	switch r := ref.(type) {
	case naList:
		if eng == nil {
			return nil
		}
		if l, ok := eng.([]any); ok && len(l) == 0 {
			return nil
		}
		return []introDiff{{Path: path, Kind: "na", Want: "null (member does not apply to this kind)", Got: short(eng)}}
	case descStr:
		want := ""
		if r.s != nil {
			want = *r.s
		}
		got := ""
		switch g := eng.(type) {
		case nil:
		case string:
			got = g
		default:
			return other("a description string")
		}
		if want != got {
			return []introDiff{{Path: path, Kind: "description", Want: want, Got: got}}
		}
		return nil
	case defaultLit:
		if r.s == nil {
			if eng != nil {
				return []introDiff{{Path: path, Kind: "default", Want: "no default value", Got: short(eng)}}
			}
			return nil
		}
		g, ok := eng.(string)
		if !ok {
			return []introDiff{{Path: path, Kind: "default", Want: r.s.String(), Got: short(eng)}}
		}
		if a, b := canonValue(r.s), canonLiteral(&g); a != b {
			return []introDiff{{Path: path, Kind: "default", Want: r.s.String() + " (" + a + ")", Got: g + " (" + b + ")"}}
		}
		return nil
	case setList:
		l, ok := eng.([]any)
		if !ok {
			return other(fmt.Sprintf("a list of %d items", len(r)))
		}
		return cmpSet(r, l, path)
	case map[string]any:
		g, ok := eng.(map[string]any)
		if !ok {
			return other("an object " + short(ref))
		}
		var out []introDiff
		keys := make([]string, 0, len(r))
		for k := range r {
			keys = append(keys, k)
		}
		sort.Strings(keys)
		for _, k := range keys {
			gv, has := g[k]
			if !has {
				out = append(out, introDiff{Path: path + "." + k, Kind: "other", Want: short(r[k]), Got: "<key absent>"})
				continue
			}
			out = append(out, cmpIntro(r[k], gv, path+"."+k)...)
		}
		gk := make([]string, 0, len(g))
		for k := range g {
			gk = append(gk, k)
		}
		sort.Strings(gk)
		for _, k := range gk {
			if _, has := r[k]; !has {
				out = append(out, introDiff{Path: path + "." + k, Kind: "other", Want: "<key absent>", Got: short(g[k])})
			}
		}
		return out
	case nil:
		if eng != nil {
			return other("null")
		}
		return nil
	case string:
		if g, ok := eng.(string); !ok || g != r {
			kind := "other"
			if lastSegment(path) == "deprecationReason" {
				kind = "reason"
			}
			got := short(eng)
			if ok {
				got = g
			}
			return []introDiff{{Path: path, Kind: kind, Want: r, Got: got}}
		}
		return nil
	case bool:
		if g, ok := eng.(bool); !ok || g != r {
			return other(fmt.Sprint(r))
		}
		return nil
	}
	return []introDiff{{Path: path, Kind: "other", Want: fmt.Sprintf("<reference produced %T>", ref), Got: short(eng)}}
}

// explainable is consulted when unmatched list items have to be paired up for the report: a
// pairing in which every difference is attributed to a recorded finding is preferred over one
// that merely has few differences. Set by the engine check; nil = no preference.
var explainable func(d introDiff) bool

func itemName(v any) (string, bool) {
	if m, ok := v.(map[string]any); ok {
		n, isStr := m["name"].(string)
		return n, isStr
	}
	return "", false
}

// bipartite computes a maximum matching; edges[i] lists the right-hand candidates of left item i.
// It returns matchOfRight (index of the left item matched to each right item, or -1).
func bipartite(edges [][]int, nRight int) []int {
	matchOfRight := make([]int, nRight)
	for j := range matchOfRight {
		matchOfRight[j] = -1
	}
	var try func(i int, seen []bool) bool
	try = func(i int, seen []bool) bool {
		for _, j := range edges[i] {
			if seen[j] {
				continue
			}
			seen[j] = true
			if matchOfRight[j] < 0 || try(matchOfRight[j], seen) {
				matchOfRight[j] = i
				return true
			}
		}
		return false
	}
	for i := range edges {
		try(i, make([]bool, nRight))
	}
	return matchOfRight
}

// cmpSet compares two lists as multisets. The tolerances make "equal" non-transitive, so items
// are paired by a maximum bipartite matching: first pairs that compare equal, then — among the
// rest — pairs whose differences are all attributed to recorded findings, then closest pairs.
func cmpSet(r setList, l []any, path string) []introDiff {
	var out []introDiff
	refLeft := make([]int, len(r)) // indices of still unmatched reference items
	for i := range refLeft {
		refLeft[i] = i
	}
	used := make([]bool, len(l))
	label := func(it any) string {
		if n, ok := itemName(it); ok {
			return path + "[" + n + "]"
		}
		return path + "[]"
	}
	sameNameOrUnnamed := func(a, b any) bool {
		an, aok := itemName(a)
		bn, bok := itemName(b)
		return !aok || !bok || an == bn
	}
	for phase := 0; phase < 2; phase++ {
		if phase == 1 && explainable == nil {
			break
		}
		edges := make([][]int, len(refLeft))
		diffs := map[[2]int][]introDiff{}
		for k, i := range refLeft {
			for j, cand := range l {
				if used[j] || !sameNameOrUnnamed(r[i], cand) {
					continue
				}
				d := cmpIntro(r[i], cand, label(r[i]))
				ok := len(d) == 0
				if phase == 1 {
					ok = true
					for _, x := range d {
						if !explainable(x) {
							ok = false
							break
						}
					}
				}
				if ok {
					edges[k] = append(edges[k], j)
					diffs[[2]int{k, j}] = d
				}
			}
		}
		match := bipartite(edges, len(l))
		matched := make([]bool, len(refLeft))
		for j, k := range match {
			if k >= 0 {
				used[j], matched[k] = true, true
				out = append(out, diffs[[2]int{k, j}]...)
			}
		}
		var rest []int
		for k, i := range refLeft {
			if !matched[k] {
				rest = append(rest, i)
			}
		}
		refLeft = rest
	}
	// whatever is left: explain against the closest remaining candidate
	for _, i := range refLeft {
		best, bestN := -1, 0
		var bestDiffs []introDiff
		if _, isObj := r[i].(map[string]any); isObj {
			_, named := itemName(r[i])
			for j, cand := range l {
				if _, ok := cand.(map[string]any); !ok || used[j] {
					continue
				}
				if named && !sameNameOrUnnamed(r[i], cand) {
					continue
				}
				d := cmpIntro(r[i], cand, label(r[i]))
				if best < 0 || len(d) < bestN {
					best, bestN, bestDiffs = j, len(d), d
				}
			}
		}
		if best >= 0 {
			used[best] = true
			out = append(out, bestDiffs...)
		} else {
			out = append(out, introDiff{Path: path, Kind: "missing", Want: short(r[i])})
		}
	}
	for j, cand := range l {
		if !used[j] {
			out = append(out, introDiff{Path: path, Kind: "invented", Got: short(cand)})
		}
	}
	return out
}
