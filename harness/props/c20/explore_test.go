package c20

import (
	"encoding/json"
	"fmt"
	"os"
	"runtime"
	"strings"
	"testing"

	"github.com/wundergraph/graphql-go-tools/execution/graphql"
	"github.com/wundergraph/graphql-go-tools/v2/pkg/astnormalization"
	"github.com/wundergraph/graphql-go-tools/v2/pkg/astparser"
	"github.com/wundergraph/graphql-go-tools/v2/pkg/astprinter"
	grpcdatasource "github.com/wundergraph/graphql-go-tools/v2/pkg/engine/datasource/grpc_datasource"
	"github.com/wundergraph/graphql-go-tools/v2/pkg/grpctest"
	"github.com/wundergraph/graphql-go-tools/v2/pkg/grpctest/mapping"
)

func TestExplore(t *testing.T) {
	if os.Getenv("C20_EXPLORE") == "" {
		t.Skip()
	}
	name := "plain"
	qs := strings.Split(os.Getenv("C20_EXPLORE"), ";;")
	for _, q := range qs {
		q = strings.TrimSpace(q)
		if strings.HasPrefix(q, "fed:") {
			name, q = "fed", q[4:]
		} else {
			name = "plain"
		}
		g, err := rigByName(name)
		if err != nil {
			t.Fatal(err)
		}
		r := g.exec(q)
		fmt.Printf("Q[%s] %s\n  rpcs=%v err=%q\n  %s\n", name, q, r.RPCs, r.Err, r.Body)
		if r.Stack != "" && os.Getenv("C20_STACK") != "" {
			fmt.Println(r.Stack)
		}
	}
}

func TestUnits(t *testing.T) {
	if os.Getenv("C20_UNITS") == "" {
		t.Skip()
	}
	for _, name := range []string{"plain", "fed"} {
		st, err := unitStates(name)
		if err != nil {
			t.Fatal(err)
		}
		w, _ := worldByName(name)
		for _, k := range w.sortedUnitKeys() {
			s := st[k]
			if s.Status != "stable" || os.Getenv("C20_UNITS") == "all" {
				fmt.Printf("%s %-45s %-11s %s\n    %s\n", name, k, s.Status, s.Why, s.Probe)
			}
		}
		fmt.Println(name, len(st), "units")
	}
}

func TestNormalize(t *testing.T) {
	if os.Getenv("C20_NORM") == "" {
		t.Skip()
	}
	g, err := rigByName("plain")
	if err != nil {
		t.Fatal(err)
	}
	for _, q := range strings.Split(os.Getenv("C20_NORM"), ";;") {
		req := graphql.Request{Query: q}
		res, err := req.Normalize(g.sch, astnormalization.WithRemoveFragmentDefinitions(), astnormalization.WithInlineFragmentSpreads())
		fmt.Println(q, "\n  ->", err, res.Successful)
		s, _ := astprinter.PrintString(req.Document())
		fmt.Println("  ", s)
	}
}

func TestPlan(t *testing.T) {
	if os.Getenv("C20_PLAN") == "" {
		t.Skip()
	}
	schemaDoc := grpctest.MustGraphQLSchema(t)
	for _, q := range strings.Split(os.Getenv("C20_PLAN"), ";;") {
		op, rep := astparser.ParseGraphqlDocumentString(q)
		if rep.HasErrors() {
			t.Fatal(rep.Error())
		}
		pl, err := grpcdatasource.NewPlanner("Products", mapping.DefaultGRPCMapping(), nil)
		if err != nil {
			t.Fatal(err)
		}
		p, err := pl.PlanOperation(&op, &schemaDoc)
		fmt.Println(q, "\n  err:", err)
		if p != nil {
			b, _ := json.MarshalIndent(p.Calls, "  ", " ")
			fmt.Println(string(b))
		}
	}
}

func TestSites(t *testing.T) {
	if os.Getenv("C20_SITES") == "" {
		t.Skip()
	}
	for _, q := range strings.Split(os.Getenv("C20_SITES"), ";;") {
		name := "plain"
		if strings.HasPrefix(q, "fed:") {
			name, q = "fed", q[4:]
		}
		w, err := worldByName(name)
		if err != nil {
			t.Fatal(err)
		}
		p, err := parseOp(w, q)
		if err != nil {
			t.Fatal(err)
		}
		fmt.Println(q, "\n  drop:", w.aliasDropSites(p), "\n  multi:", w.typenameMultiSites(p), "\n  enum:", w.hasRepeatedEnumArg(p), "nullparent:", w.resolverUnderNullable(p))
	}
}

func TestAllocRate(t *testing.T) {
	if os.Getenv("C20_ALLOC") == "" {
		t.Skip()
	}
	g, err := rigByName("plain")
	if err != nil {
		t.Fatal(err)
	}
	var m0, m1 runtime.MemStats
	qs := []string{`{ users { id name } }`, `{ categories { id topSubcategory { name } childCategories { id totalProducts } } }`}
	for _, q := range qs {
		g.exec(q)
		runtime.ReadMemStats(&m0)
		for i := 0; i < 50; i++ {
			// vary the text so that every execution plans anew, like generated cases do
			g.exec(strings.Replace(q, "{", fmt.Sprintf("{ a%d: __typename ", i), 1))
		}
		runtime.ReadMemStats(&m1)
		fmt.Printf("%s: %.1f MB allocated per fresh execution\n", q, float64(m1.TotalAlloc-m0.TotalAlloc)/50/1e6)
		runtime.ReadMemStats(&m0)
		for i := 0; i < 50; i++ {
			g.exec(q)
		}
		runtime.ReadMemStats(&m1)
		fmt.Printf("%s: %.1f MB allocated per cached execution\n", q, float64(m1.TotalAlloc-m0.TotalAlloc)/50/1e6)
	}
}

func TestLiveHeap(t *testing.T) {
	if os.Getenv("C20_ALLOC") == "" {
		t.Skip()
	}
	g, err := rigByName("plain")
	if err != nil {
		t.Fatal(err)
	}
	q := `{ categories { id topSubcategory { name } childCategories { id totalProducts } } }`
	var m runtime.MemStats
	for n := 0; n <= 2400; n++ {
		if n%300 == 0 {
			runtime.GC()
			runtime.ReadMemStats(&m)
			fmt.Printf("after %4d distinct operations: live heap %4d MB, heapSys %4d MB\n", n, m.HeapAlloc>>20, m.HeapSys>>20)
		}
		g.exec(strings.Replace(q, "{", fmt.Sprintf("{ a%d: __typename ", n), 1))
	}
}

// C20_SEQ='[fed:]query ## {"vars":...} ;; query ## vars' executes a request sequence on the shared rig.
func TestSeq(t *testing.T) {
	if os.Getenv("C20_SEQ") == "" {
		t.Skip()
	}
	for _, st := range strings.Split(os.Getenv("C20_SEQ"), ";;") {
		name := "plain"
		st = strings.TrimSpace(st)
		if strings.HasPrefix(st, "fed:") {
			name, st = "fed", st[4:]
		}
		q, vars, _ := strings.Cut(st, "##")
		g, err := rigByName(name)
		if err != nil {
			t.Fatal(err)
		}
		r := g.execVars(strings.TrimSpace(q), strings.TrimSpace(vars))
		fmt.Printf("Q[%s] %s  vars=%s\n  rpcs=%v err=%q\n  %s\n", name, strings.TrimSpace(q), strings.TrimSpace(vars), r.RPCs, r.Err, clip(r.Body))
	}
}
