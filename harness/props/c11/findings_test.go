package c11

import (
	"strings"
	"time"

	"verif/harness/pbt"
)

// Directed probes of the recorded findings: each runs the minimal schedule WITHOUT steering and
// reports while the oracle still flags it with the matching recogniser.

var probe17 = Case{
	Layer: layerInbound, OpType: "query", Keys: []Key{{0, 0, 0}},
	Parts: []Participant{
		{Key: 0, Script: scNormal, Park: []string{"finish_ok"}},  // leader, held on entering FinishOk
		{Key: 0, Script: scNormal, Park: []string{"before_add"}}, // follower, held between LoadOrStore and AddFollower
	},
	// start(p0) start(p1) resume(p0) resume(p1)
	Sched: []int{0, 0, 0, 0},
}

// the same window reached from the other side: the leader is held between its follower check and close
var probe17b = Case{
	Layer: layerInbound, OpType: "query", Keys: []Key{{0, 0, 0}},
	Parts: []Participant{
		{Key: 0, Script: scNormal, Park: []string{"finish_ok", "before_close"}},
		{Key: 0, Script: scNormal, Park: []string{"before_add"}},
	},
	// start(p0) start(p1) resume(p0: runs the follower check, parks before close) resume(p1: registers, waits) resume(p0: closes)
	Sched: []int{0, 0, 0, 1, 0},
}

var probe18Inbound = Case{
	Layer: layerInbound, OpType: "query", Keys: []Key{{0, 0, 0}},
	Parts: []Participant{
		{Key: 0, Script: scCancel, Park: []string{"load"}}, // leader whose client disconnects during its load
		{Key: 0, Script: scNormal},                         // follower, never cancelled
	},
	// start(p0) start(p1) cancel(p0) resume(p0)  (enabled order: starts, cancels, resumes)
	Sched: []int{0, 0, 0, 0},
}

var probe18InboundHard = Case{
	Layer: layerInbound, OpType: "query", HardCancel: true, Keys: []Key{{0, 0, 0}},
	Parts: []Participant{
		{Key: 0, Script: scCancel, Park: []string{"prefetch"}},
		{Key: 0, Script: scNormal},
	},
	Sched: []int{0, 0, 0, 0},
}

var probe18Sub = Case{
	Layer: layerSubgraph, OpType: "query", Keys: []Key{{0, 0, 0}},
	Parts: []Participant{
		{Key: 0, Script: scCancel, Park: []string{"load"}}, // client operation A, leader of the subgraph fetch
		{Key: 0, Alt: true, Script: scNormal},              // client operation B, identical subgraph fetch
	},
	Sched: []int{0, 0, 0, 0},
}

func probeRun(id string, cases ...Case) func() string {
	return func() string {
		var hits []string
		for _, c := range cases {
			v, _ := runScheduled(c, rec{}, runOpts{watchdog: 20 * time.Second})
			if v.Msg != "" && v.Finding == id {
				hits = append(hits, firstLine(v.Msg))
			}
		}
		return strings.Join(hits, " | ")
	}
}

func probes() pbt.Probes {
	return pbt.Probes{
		f17:        {Input: []Case{probe17, probe17b}, Fn: probeRun(f17, probe17, probe17b)},
		f18Inbound: {Input: []Case{probe18Inbound, probe18InboundHard}, Fn: probeRun(f18Inbound, probe18Inbound, probe18InboundHard)},
		f18Sub:     {Input: []Case{probe18Sub}, Fn: probeRun(f18Sub, probe18Sub)},
	}
}
