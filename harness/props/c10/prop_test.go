package c10

import (
	"encoding/json"
	"testing"

	"verif/harness/pbt"
)

func TestProp(t *testing.T) {
	r := pbt.Start(t, "C10")
	defer r.Finish()
	r.Rule("generated federation queries with @defer on inline fragments and fragment spreads (nested, sibling, in lists, under abstract types, around entity boundaries, with/without label, if: literal/variable) x generated release orders of the gated deferred subgraph requests; non-trivial = >= 2 incremental frames, or a defer inside a list, or a nested defer; distinct by (layout, operation, variables, seed, order)")
	r.Assume("the reference for a deferred query is the same query without @defer (gateway's own non-deferred answer and the monolith)", "release orders are owned at the transport gate with a settle interval: too short an interval only reduces interleaving diversity, it cannot fabricate a violation")
	r.Regress(dispatch())
	r.RunProbes(probes())
	deferPart.Run(r)
}

func TestReplay(t *testing.T) { pbt.StdReplay(t, "C10", dispatch()) }

func dispatch() pbt.Dispatch {
	return pbt.Dispatch{}.Add(deferPart.Name, deferPart.Handler()).WithProbes(probes())
}

func probes() pbt.Probes {
	return pbt.KnownCaseProbes("known", func(part string, raw json.RawMessage) pbt.Verdict { return deferPart.CheckRaw(raw) })
}

func TestMinimize(t *testing.T) {
	pbt.StdMinimize(t, "C10", pbt.Minimizers{deferPart.Name: minimizeDefer})
}
