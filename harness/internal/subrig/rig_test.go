//go:build verif

package subrig

import (
	"encoding/json"
	"os"
	"sort"
	"time"

	"fmt"
	"pgregory.net/rapid"
	"strings"
	"testing"
)

func show(t *testing.T, name string, h History) *Result {
	res := Execute(h)
	fmt.Printf("=== %s: %s\n", name, h)
	for _, v := range res.Violations {
		fmt.Println("  VIOL", v)
	}
	if res.Inconclusive != "" {
		fmt.Println("  INCONCLUSIVE", res.Inconclusive[:min(len(res.Inconclusive), 3000)])
	}
	if testing.Verbose() {
		fmt.Println(strings.Join(res.Trace, "\n"))
	}
	fmt.Println("  labels", res.Labels)
	return res
}

// TestDev is the self-test of the rig: a clean history stays clean, the directed histories of
// the recorded findings are attributed to them (while the defects are in the tree) or are clean.
func TestDev(t *testing.T) {
	res := show(t, "plain", History{Steps: []Step{
		{Op: OpSubscribe, Sub: 0, Conn: 1, Key: 0},
		{Op: OpSubscribe, Sub: 1, Conn: 2, Key: 0, Filter: FIn0, Shape: 1},
		{Op: OpEvent, Period: 0, N: 1, K: 0},
		{Op: OpEvent, Period: 0, N: 2, K: 1},
		{Op: OpUnsubscribe, Sub: 0},
		{Op: OpEvent, Period: 0, N: 3, K: 0, Kind: EvNoTag},
		{Op: OpComplete, Period: 0},
		{Op: OpDone, Period: 0},
	}})
	if len(res.Violations) != 0 || res.Inconclusive != "" {
		t.Fatalf("plain history: %v %s", res.Violations, res.Inconclusive)
	}
	res = show(t, "sync", History{Steps: []Step{
		{Op: OpSubscribe, Sub: 0, Key: 1, Sync: true, HB: true},
		{Op: OpSubscribe, Sub: 1, Conn: 2, Key: 1, Hook: HookEmit},
		{Op: OpHeartbeat, Period: 0},
		{Op: OpEvent, Period: 0, N: 1, K: 0, Split: &Split{Point: PtUpdate, Target: 0, Nested: []Step{{Op: OpUnsubscribe, Sub: 0}, {Op: OpEvent, Period: 0, N: 2, K: 1}}}},
		{Op: OpEvent, Period: 0, N: 3, K: 2, Kind: EvMalformed},
		{Op: OpShutdown},
	}})
	if len(res.Violations) != 0 || res.Inconclusive != "" || res.SplitReached != 1 {
		t.Fatalf("sync history: %v %s reached=%d", res.Violations, res.Inconclusive, res.SplitReached)
	}
	for _, id := range FindingIDs {
		res := show(t, id, ProbeHistory(id))
		if len(res.Violations) > 0 && Attribute(res) != id {
			t.Fatalf("probe of %s fails in another way: %v", id, Unexplained(res))
		}
	}
	if msg := SoloSanity(); msg != "" {
		t.Fatal(msg)
	}
}

// TestDevRand, TestDevLen and TestDevSolo are development aids (generator statistics, soak runs
// outside the driver): SUBRIG_DEV=1 go test -tags verif -run TestDevRand ./internal/subrig/ -rapid.checks=N
// STEER=0 switches the steering around recorded findings off, BIAS=13 selects the C13 generator.
func TestDevRand(t *testing.T) {
	if os.Getenv("SUBRIG_DEV") == "" {
		t.Skip("development aid; set SUBRIG_DEV=1")
	}
	stats := map[string]int{}
	steer := os.Getenv("STEER") != "0"
	bias := BiasC12
	if os.Getenv("BIAS") == "13" {
		bias = BiasC13
	}
	n := 0
	rapid.Check(t, func(rt *rapid.T) {
		h := Gen(rt, bias, func(string) bool { return steer })
		res := Execute(h)
		n++
		for k, v := range res.Labels {
			stats[k] += v
		}
		for _, e := range h.Excluded {
			stats["excluded:"+e]++
		}
		stats["steps"] += len(h.Steps)
		if res.RacedRemoval {
			stats["NT12"]++
		}
		if res.Inconclusive != "" {
			stats["inconclusive"]++
			fmt.Println("INCONCLUSIVE", h, res.Inconclusive[:min(2000, len(res.Inconclusive))])
		}
		if len(res.Violations) > 0 {
			id := Attribute(res)
			stats["viol:"+id]++
			if id == "" {
				rt.Fatalf("history %s\n%s\nUNEXPLAINED: %v\nshapes: %+v\n%s", h, h.JSON(), Unexplained(res), res.Model.Shapes, strings.Join(res.Trace, "\n"))
			}
		}
	})
	keys := make([]string, 0)
	for k := range stats {
		keys = append(keys, k)
	}
	sort.Strings(keys)
	for _, k := range keys {
		fmt.Printf("%6d %s\n", stats[k], k)
	}
	fmt.Println("cases", n, "soloRuns", SoloRuns)
}

// TestDevOne runs the history given as JSON in $H and prints the trace.
func TestDevOne(t *testing.T) {
	if os.Getenv("H") == "" {
		t.Skip("set H to a history in JSON")
	}
	var h History
	if err := json.Unmarshal([]byte(os.Getenv("H")), &h); err != nil {
		t.Fatal(err)
	}
	res := show(t, "one", h)
	fmt.Println(res.Inconclusive)
}

func TestDevSolo(t *testing.T) {
	if os.Getenv("SUBRIG_DEV") == "" {
		t.Skip("development aid; set SUBRIG_DEV=1")
	}
	for i := 0; i < 5; i++ {
		t0 := time.Now()
		it := soloRun(0, FIn0, EventPayload(i, 0, ""))
		fmt.Println(time.Since(t0), it)
	}
	uptime, _ := os.ReadFile("/proc/loadavg")
	fmt.Println(string(uptime))
}

func TestDevLen(t *testing.T) {
	if os.Getenv("SUBRIG_DEV") == "" {
		t.Skip("development aid; set SUBRIG_DEV=1")
	}
	hist := map[int]int{}
	ops := map[string]int{}
	rapid.Check(t, func(rt *rapid.T) {
		h := Gen(rt, BiasC12, func(string) bool { return true })
		hist[len(h.Steps)]++
		for _, s := range h.Steps {
			ops[s.Op]++
		}
	})
	fmt.Println(hist)
	fmt.Println(ops)
}
