package c17

// Part 3: one introspection.Generator used for several schemas in a row must describe each
// schema exactly as a fresh Generator does (NewGenerator returns a reusable walker+visitor pair,
// Generate takes the document and the output per call).

import (
	"encoding/json"
	"fmt"
	"strings"

	"pgregory.net/rapid"

	"github.com/wundergraph/graphql-go-tools/execution/graphql"
	"github.com/wundergraph/graphql-go-tools/v2/pkg/introspection"
	"github.com/wundergraph/graphql-go-tools/v2/pkg/operationreport"

	"verif/harness/pbt"
)

type reuseCase struct {
	SDLs []string `json:"sdls"`
}

// genReuseCase draws 2-3 schemas that share type names (same name pools), with different roots.
func genReuseCase(t *rapid.T) reuseCase {
	n := rapid.IntRange(2, 3).Draw(t, "n-schemas")
	var c reuseCase
	for i := 0; i < n; i++ {
		sdl, _ := genSDL(t)
		c.SDLs = append(c.SDLs, sdl)
	}
	return c
}

var reusePart = pbt.Part[reuseCase]{Name: "generator-reuse", Quick: 3000, Thorough: 30000, Gen: genReuseCase, Check: checkReuseCase}

func generateWith(g *introspection.Generator, schema *graphql.Schema) (jobj, error) {
	var data introspection.Data
	var report operationreport.Report
	g.Generate(schema.Document(), &report, &data)
	if report.HasErrors() {
		return nil, fmt.Errorf("generator reports: %s", report.Error())
	}
	raw, err := json.Marshal(data)
	if err != nil {
		return nil, err
	}
	var top jobj
	if err := json.Unmarshal(raw, &top); err != nil {
		return nil, err
	}
	s, _ := top["__schema"].(jobj)
	if s == nil {
		return nil, fmt.Errorf("no __schema object")
	}
	return s, nil
}

func checkReuseCase(c reuseCase, o *pbt.Rec) pbt.Verdict {
	v, bad := evalReuseCase(c, o)
	if v == nil {
		return bad
	}
	return v.verdict("schemas, in order:\n" + strings.Join(c.SDLs, "\n-----\n"))
}

func evalReuseCase(c reuseCase, o *pbt.Rec) (*verdictBuilder, pbt.Verdict) {
	var schemas []*graphql.Schema
	rootsDiffer := false
	var prevRoots string
	for i, sdl := range c.SDLs {
		truth, err := loadTruth(sdl)
		if err != nil || truth.Query == nil {
			o.Discard("gqlparser-rejects-sdl")
			return nil, pbt.OK
		}
		schema, err := graphql.NewSchemaFromString(sdl)
		if err != nil {
			o.Discard("repo-rejects-sdl")
			return nil, pbt.OK
		}
		schemas = append(schemas, schema)
		f := schemaFacts(truth)
		roots := f["root.query"] + "/" + f["root.mutation"] + "/" + f["root.subscription"]
		if i > 0 && roots != prevRoots {
			rootsDiffer = true
		}
		prevRoots = roots
	}
	if rootsDiffer {
		o.Label("reuse:root-types-change-between-schemas")
		o.NonTrivial(strings.Join(c.SDLs, "\x00"))
	}
	v := newVerdict(o)
	shared := introspection.NewGenerator()
	for i, schema := range schemas {
		fresh, err := generateWith(introspection.NewGenerator(), schema)
		if err != nil {
			return nil, pbt.Bad("fresh Generator fails on schema #%d: %v", i, err)
		}
		reused, err := generateWith(shared, schema)
		if err != nil {
			v.add("", fmt.Sprintf("reused Generator fails on schema #%d where a fresh one succeeds: %v", i, err))
			continue
		}
		for _, d := range diffFacts(introspectionFacts(fresh), introspectionFacts(reused)) {
			id := ""
			if strings.HasPrefix(d.Key, "root.") && d.Kind == "changed" {
				id = "C17-generator-reuse-keeps-root-type-names"
			}
			v.add(id, fmt.Sprintf("schema #%d, reused Generator vs fresh Generator: %s", i, strings.Replace(d.String(), "schema says", "fresh says", 1)))
		}
	}
	return v, pbt.OK
}
