package c19

import (
	"fmt"
	"strings"

	"pgregory.net/rapid"

	"verif/harness/pbt"
)

var ids = []string{"1", "2", "3"}

// pool is a weighted choice whose order is a smooth interleaving (every prefix has roughly the
// weights' proportions): rapid draws small indices far more often than large ones, and with
// this order that bias does not distort the proportions. Index 0 (the shrink target) is the
// heaviest item.
type pool []string

func newPool(kv ...any) pool {
	type it struct {
		s      string
		w, cur int
	}
	var items []*it
	total := 0
	for i := 0; i+1 < len(kv); i += 2 {
		items = append(items, &it{s: kv[i].(string), w: kv[i+1].(int)})
		total += kv[i+1].(int)
	}
	var out pool
	for n := 0; n < total; n++ { // smooth weighted round-robin
		var best *it
		for _, x := range items {
			x.cur += x.w
			if best == nil || x.cur > best.cur {
				best = x
			}
		}
		best.cur -= total
		out = append(out, best.s)
	}
	return out
}

// first rotates the pool so that item s is at index 0 (rapid shrinks towards index 0).
func (p pool) first(s string) pool {
	for i, x := range p {
		if x == s {
			return append(append(pool{}, p[i:]...), p[:i]...)
		}
	}
	return p
}

func (p pool) draw(t *rapid.T, label string) string {
	return rapid.SampledFrom([]string(p)).Draw(t, label)
}

func pct(p int) pool { return newPool("y", p, "n", 100-p) }

var (
	poolOp       = newPool("subscription", 50, "query", 38, "mutation", 12)
	poolSubEnd   = newPool("hold", 62, "ok", 15, "error", 23)
	poolRelOff   = newPool("0", 3, "1", 4, "2", 4, "3", 3, "4", 2, "5", 2, "7", 1, "11", 1)
	poolMinLen   = newPool("1", 3, "4", 3, "7", 3, "10", 2).first("1")
	poolQEnd     = newPool("ok", 75, "error", 25)
	poolOnCancel = newPool("ignore", 40, "return", 35, "error", 25)
	poolN        = newPool("1", 30, "2", 30, "0", 20, "3", 20)
	poolLen      = newPool("12", 10, "11", 10, "10", 10, "9", 10, "8", 10, "7", 10, "6", 10, "5", 9, "4", 8, "3", 6, "2", 4, "1", 3).first("1")
	poolLast     = newPool("sub", 32, "complete", 20, "init", 8, "ping", 4, "pong", 3, "terminate", 4, "unknown", 6, "nonjson", 6, "shape", 6, "srvtype", 9, "empty", 2)
	poolInner    = newPool("sub", 44, "complete", 27, "init", 3, "ping", 5, "pong", 4, "terminate", 1, "unknown", 2, "nonjson", 2, "shape", 6, "srvtype", 3, "empty", 3)
	poolInnerGWS = newPool("sub", 39, "complete", 25, "init", 5, "ping", 2, "pong", 2, "terminate", 3, "unknown", 4, "nonjson", 4, "shape", 6, "srvtype", 8, "empty", 2)
	pct7, pct10  = pct(7), pct(10)
	pct30        = pct(30)
	pct35, pct40 = pct(35), pct(40)
	pct70, pct75 = pct(70), pct(75)
	pct85        = pct(85)
	poolID       = newPool("1", 1, "2", 1, "3", 1)
	poolInitOK   = newPool("0", 2, "1", 1, "2", 1)
	poolInitAny  = newPool("0", 3, "3", 3, "1", 1, "2", 1)
	poolBadSub   = newPool("1", 1, "2", 1, "3", 1, "4", 1)
)

func atoi(s string) int {
	n := 0
	for _, c := range s {
		n = n*10 + int(c-'0')
	}
	return n
}

// uniform draws an int in [lo,hi] without rapid's bias towards lo.
func uniform(t *rapid.T, label string, lo, hi int) int {
	if hi <= lo {
		return lo
	}
	// a fixed stride permutation of the range spreads the bias
	n := hi - lo + 1
	i := rapid.IntRange(0, n-1).Draw(t, label)
	stride := []int{1, 1, 1, 2, 3, 2, 5, 3, 3, 5, 3, 7, 5}[n%13]
	for gcd(stride, n) != 1 {
		stride++
	}
	return lo + (i*stride)%n
}

func gcd(a, b int) int {
	for b != 0 {
		a, b = b, a%b
	}
	return a
}

// raw is one drawn element of a sequence before it is placed: everything positional (the
// release point, which pool the kind comes from, the aimed id of a complete) is resolved
// afterwards, so that rapid can shrink by deleting elements of the slice.
type raw struct {
	Inner, Last string // kind if the element is an inner / the last one
	ID          string
	V           int
	BadSub      int // 0 usable payload
	Rich        bool
	X           Script
	RelOff      int // release after message (own index + RelOff), capped to the last index
	Released    bool
	Aimed       bool
	Aim         int
	Promote     bool // a complete drawn while nothing is live becomes a subscribe
	Refuse      bool // the before-start hook (if the case configures one) refuses this operation
}

func genRaw(proto string) *rapid.Generator[raw] {
	return rapid.Custom(func(t *rapid.T) raw {
		var r raw
		if proto == protoGWS {
			r.Inner = poolInnerGWS.draw(t, "kind")
		} else {
			r.Inner = poolInner.draw(t, "kind")
		}
		r.Last = poolLast.draw(t, "lastkind")
		r.ID = poolID.draw(t, "id")
		r.V = uniform(t, "v", 0, 35)
		if pct7.draw(t, "badpayload") == "y" {
			r.BadSub = atoi(poolBadSub.draw(t, "subv"))
		}
		r.Rich = pct10.draw(t, "rich") == "y"
		x := Script{Op: poolOp.draw(t, "op"), Gate: -1, Rel: -1}
		if x.Op == "subscription" {
			x.N = atoi(poolN.draw(t, "n"))
			x.End = poolSubEnd.draw(t, "end")
			if pct35.draw(t, "gated") == "y" {
				x.Gate = uniform(t, "gate", 0, x.N)
			}
		} else {
			x.End = poolQEnd.draw(t, "end")
			if pct40.draw(t, "gated") == "y" {
				x.Gate = 0
			}
		}
		if x.Gate >= 0 {
			x.OnCancel = poolOnCancel.draw(t, "oncancel")
			r.Released = pct85.draw(t, "released") == "y"
			r.RelOff = atoi(poolRelOff.draw(t, "reloff"))
		}
		r.X = x
		r.Aimed = pct75.draw(t, "aimed") == "y"
		r.Aim = uniform(t, "aim", 0, 2)
		r.Promote = pct70.draw(t, "promote") == "y"
		r.Refuse = pct30.draw(t, "refuse") == "y"
		return r
	})
}

// genSeq generates a client sequence (k <= 12) with executor scripts for one protocol. A
// rough generator-side state steers towards sequences that stay open long enough to be
// interesting (most sequences start with an accepted init; closing messages are rare except
// in the last position) and towards completes of live ids.
func genSeq(proto string) func(t *rapid.T) Case {
	g := genRaw(proto)
	lead := pct(80)
	if proto == protoGWS {
		lead = pct(60)
	}
	return func(t *rapid.T) Case {
		c := Case{Proto: proto, Hook: pct30.draw(t, "hook") == "y"}
		if lead.draw(t, "leadInit") == "y" {
			c.Msgs = append(c.Msgs, Msg{K: "init", V: atoi(poolInitOK.draw(t, "initv"))})
		}
		minLen := atoi(poolMinLen.draw(t, "minlen"))
		raws := rapid.SliceOfN(g, minLen, 12-len(c.Msgs)).Draw(t, "msgs")
		k := len(c.Msgs) + len(raws)
		live := map[string]bool{}
		for _, r := range raws {
			i := len(c.Msgs)
			kind := r.Inner
			if i == k-1 {
				kind = r.Last
			}
			var liveIDs []string
			for _, id := range ids {
				if live[id] {
					liveIDs = append(liveIDs, id)
				}
			}
			if kind == "complete" && len(liveIDs) == 0 && r.Promote {
				kind = "sub"
			}
			m := Msg{K: kind}
			switch kind {
			case "init":
				m.V = atoi(pick([]string{"0", "3", "0", "3", "1", "2", "0", "3"}, r.V))
			case "sub":
				m.ID = r.ID
				m.V = r.BadSub
				if m.V == 0 && r.Rich {
					m.V = 5
				}
				if subPayloadValid(m.V) && m.V != 4 {
					x := r.X
					if x.Gate >= 0 && r.Released {
						x.Rel = i + r.RelOff
						if x.Rel > k-1 {
							x.Rel = k - 1
						}
					}
					m.X = &x
					m.Refuse = c.Hook && r.Refuse
					if !live[m.ID] && !m.Refuse {
						live[m.ID] = x.Op == "subscription" || x.Gate >= 0
					}
				}
			case "complete":
				if len(liveIDs) > 0 && r.Aimed {
					m.ID = liveIDs[r.Aim%len(liveIDs)]
				} else {
					m.ID = r.ID
				}
				live[m.ID] = false
			case "terminate":
				if proto == protoGWS {
					live = map[string]bool{}
				}
			case "srvtype":
				m.V = r.V
				m.ID = r.ID
				if len(liveIDs) > 0 && r.Aimed {
					m.ID = liveIDs[r.Aim%len(liveIDs)]
				}
			case "ping", "unknown", "nonjson", "shape":
				m.V = r.V
			}
			c.Msgs = append(c.Msgs, m)
		}
		return c
	}
}

var (
	twsPart = pbt.Part[Case]{Name: "seq-transport-ws", Quick: 110000, Thorough: 1600000, Gen: genSeq(protoTWS), Check: checkCase}
	gwsPart = pbt.Part[Case]{Name: "seq-graphql-ws", Quick: 75000, Thorough: 1100000, Gen: genSeq(protoGWS), Check: checkCase}
)

func short(s string, n int) string {
	if len(s) <= n {
		return s
	}
	return s[:n] + "…"
}

// checkCase drives the case against a fresh handler and runs the acceptor on the history.
func checkCase(c Case, o *pbt.Rec) pbt.Verdict {
	if c.Proto != protoTWS && c.Proto != protoGWS {
		return pbt.Bad("malformed case: proto %q", c.Proto)
	}
	for i, m := range c.Msgs {
		if m.X != nil && (m.X.Rel >= len(c.Msgs) || m.X.Rel >= 0 && m.X.Rel < i) {
			return pbt.Bad("malformed case: message #%d releases at %d", i, m.X.Rel)
		}
	}
	o.Journal() // a panic in an operation goroutine of the engine kills the process
	out := drive(c)
	if out.wedged != "" {
		return pbt.Bad("the connection is wedged: %s\nhistory: %s", out.wedged, histString(out.hist))
	}
	if out.inconclusive != "" {
		o.Discard("watchdog")
		o.Label("inconclusive:" + strings.SplitN(out.inconclusive, " ", 3)[0])
		return pbt.OK
	}
	if out.leak {
		o.Label("hygiene:goroutines-above-baseline-after-case")
	}
	if out.settleTimeout {
		o.Label("settle:error-message-of-failed-subscription-late")
	}
	res := accept(c, out.hist, true)
	if res.inconclusive != "" {
		o.Discard("race-window")
		return pbt.OK
	}
	return verdictOf(c, out, res, o)
}

func verdictOf(c Case, out outcome, res *result, o *pbt.Rec) pbt.Verdict {
	o.Label("proto:" + c.Proto)
	seen := map[string]bool{}
	for _, l := range res.labels {
		if !seen[l] {
			seen[l] = true
			o.Label(l)
		}
	}
	o.Labelf("delivered:%s", bucket(res.delivered))
	o.Labelf("operations-started:%s", bucket(res.started))
	wx := 0
	relAfterCancel := false
	cancelAt := map[int]bool{}
	for _, e := range out.hist {
		switch e.K {
		case evWX:
			wx++
		case evXCANCEL:
			cancelAt[e.M] = true
		case evREL:
			// released while the operation's context was already cancelled?
			if x := c.Msgs[e.M].X; x != nil && x.OnCancel == "ignore" {
				relAfterCancel = true
			}
		}
	}
	if wx > 0 {
		o.Label("write-attempt-after-close(not-delivered)")
	}
	if relAfterCancel {
		o.Label("gate-released-uninterruptible-executor")
	}
	if res.acked {
		o.Label("acked")
	}
	if res.nontrivial {
		o.NonTrivial(c.key())
	}
	if len(res.viols) == 0 {
		o.Label("accepted")
		return pbt.OK
	}
	// report an unattributed violation if there is one; a violation attributed to a finding
	// that is not (or no longer) listed as known is reported as well
	pickv := res.viols[0]
	for _, v := range res.viols {
		if v.Finding == "" || !pbt.IsKnown(v.Finding) {
			pickv = v
			break
		}
	}
	msg := fmt.Sprintf("%s\nprotocol: %s\nhistory: %s", pickv.Msg, c.Proto, short(histString(out.hist), 3000))
	if pickv.Finding != "" {
		o.Label("known-shape:" + pickv.Finding)
		return pbt.BadKnown(pickv.Finding, "%s", msg)
	}
	return pbt.Bad("%s", msg)
}

func bucket(n int) string {
	switch {
	case n == 0:
		return "0"
	case n <= 2:
		return "1-2"
	case n <= 5:
		return "3-5"
	case n <= 8:
		return "6-8"
	}
	return "9-12"
}
