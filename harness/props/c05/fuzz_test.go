package c05

import (
	"encoding/json"
	"flag"
	"fmt"
	"os"
	"path/filepath"
	"sort"
	"strconv"
	"strings"
	"sync"
	"sync/atomic"
	"testing"

	"verif/harness/pbt"
)

// FuzzParse is the native (coverage-guided) fuzz target; it applies exactly the oracle of the
// bytes part (checkInput: totality, bounds, round trip compact+indented, limits). It is
// registered in check.json for the thorough tier only.
//
// A violation that a recogniser attributes to a finding listed as known does not fail the
// target (a shallow recorded defect must not end every campaign); such inputs are counted per
// finding. The counters of every worker process are written to fuzzstats-<pid>.json in
// $VERIF_FUZZ_STATS, or next to the -test.fuzzcachedir the driver passes (its run directory).
//
// Seeds: the hostile constants, documents written by the grammar generator's callers in the
// repo's test data (*.graphql / *.graphqls under $VERIF_REPO or /repo, <= 16 KiB each).

type countLabels struct {
	mu sync.Mutex
	m  map[string]int
}

func (c *countLabels) Label(l string) {
	c.mu.Lock()
	c.m[l]++
	c.mu.Unlock()
}

var (
	fuzzLabels   = &countLabels{m: map[string]int{}}
	fuzzExecs    atomic.Int64
	fuzzSkipped  atomic.Int64
	fuzzKnown    = &countLabels{m: map[string]int{}}
	fuzzStatsDir = sync.OnceValue(func() string {
		if d := os.Getenv("VERIF_FUZZ_STATS"); d != "" {
			return d
		}
		if f := flag.Lookup("test.fuzzcachedir"); f != nil && f.Value.String() != "" {
			return filepath.Dir(f.Value.String())
		}
		return ""
	})
)

func writeFuzzStats() {
	dir := fuzzStatsDir()
	if dir == "" {
		return
	}
	fuzzLabels.mu.Lock()
	labels := make(map[string]int, len(fuzzLabels.m))
	for k, v := range fuzzLabels.m {
		labels[k] = v
	}
	fuzzLabels.mu.Unlock()
	fuzzKnown.mu.Lock()
	known := make(map[string]int, len(fuzzKnown.m))
	for k, v := range fuzzKnown.m {
		known[k] = v
	}
	fuzzKnown.mu.Unlock()
	b, _ := json.Marshal(map[string]any{"target": "FuzzParse", "pid": os.Getpid(), "execs": fuzzExecs.Load(), "skipped_too_long": fuzzSkipped.Load(),
		"known_finding_exclusions": known, "classes": labels})
	tmp := filepath.Join(dir, fmt.Sprintf(".fuzzstats-%d.tmp", os.Getpid()))
	if os.WriteFile(tmp, b, 0o644) == nil {
		_ = os.Rename(tmp, filepath.Join(dir, fmt.Sprintf("fuzzstats-%d.json", os.Getpid())))
	}
}

func repoSeedFiles() []string {
	root := os.Getenv("VERIF_REPO")
	if root == "" {
		root = "/repo"
	}
	var out []string
	for _, pat := range []string{"v2/pkg/astparser/testdata/*.graphql", "v2/pkg/*/testdata/*.graphql", "v2/pkg/*/*/testdata/*.graphql", "v2/pkg/*/testdata/*.graphqls",
		"v2/pkg/*/*/testdata/*.graphqls", "v2/pkg/*/*/*/testdata/*.graphql*", "execution/*/testdata/*.graphql*", "execution/*/*/testdata/*.graphql*", "v2/pkg/*/fixtures/*.graphql", "v2/pkg/*/*/fixtures/*.graphql"} {
		m, _ := filepath.Glob(filepath.Join(root, pat))
		out = append(out, m...)
	}
	sort.Strings(out)
	return out
}

const fuzzMaxInput = 64 << 10

func FuzzParse(f *testing.F) {
	for _, s := range hostile {
		f.Add([]byte(s))
	}
	for _, s := range []string{
		`query Q($a: Int = 1 @d) { a(b: [1, {c: "x"}]) @skip(if: $a) { ...F ... on T { b } } } fragment F on T { c }`,
		`type T implements A & B @k(f: "x") { "desc" f(a: Int = 1): [T!]! @deprecated } extend type T { g: Int }`,
		`"""d""" directive @a(b: Int) repeatable on FIELD | OBJECT`,
		`schema { query: Q } union U = | A | B enum E { A B } input I { a: Int = 1 } scalar S interface I implements J { a: Int }`,
		`extend schema @a { mutation: M } extend scalar S @a extend union U = C extend enum E { C } extend input I { b: Int } extend interface I @a`,
	} {
		f.Add([]byte(s))
	}
	seen := 0
	for _, p := range repoSeedFiles() {
		b, err := os.ReadFile(p)
		if err != nil || len(b) > 16<<10 {
			continue
		}
		f.Add(b)
		seen++
	}
	f.Logf("seeded with %d hostile constants and %d repo test documents", len(hostile)+5, seen)
	f.Fuzz(func(t *testing.T, data []byte) {
		if len(data) > fuzzMaxInput {
			fuzzSkipped.Add(1)
			return
		}
		n := fuzzExecs.Add(1)
		v := checkInput("fuzz:FuzzParse", data, fuzzLabels, nil)
		if v.Msg != "" {
			if v.Finding != "" && pbt.IsKnown(v.Finding) {
				fuzzKnown.Label(v.Finding)
			} else {
				writeFuzzStats()
				if v.Finding != "" {
					t.Fatalf("[recognised as %s, which is not listed as a known finding] %s", v.Finding, v.Msg)
				}
				t.Fatalf("%s", v.Msg)
			}
		}
		if n%20000 == 0 {
			writeFuzzStats()
		}
	})
}

// fuzzReplay re-checks a saved fuzz crasher: either the driver's wrapper around a Go fuzz
// corpus file ({"corpus_file": "go test fuzz v1\n[]byte(\"…\")\n"}) or a plain {"in": …} case.
func fuzzReplay(raw json.RawMessage) string {
	var c struct {
		CorpusFile string    `json:"corpus_file"`
		In         pbt.Bytes `json:"in"`
	}
	if err := json.Unmarshal(raw, &c); err != nil {
		return "cannot decode case: " + err.Error()
	}
	in := []byte(c.In)
	if c.CorpusFile != "" {
		b, err := parseCorpusFile(c.CorpusFile)
		if err != nil {
			return "cannot decode corpus file: " + err.Error()
		}
		in = b
	}
	v := checkInput("fuzz:FuzzParse", in, nopLabels{}, nil)
	if v.Msg != "" && v.Finding != "" && pbt.IsKnown(v.Finding) {
		return ""
	}
	return v.Msg
}

func parseCorpusFile(s string) ([]byte, error) {
	lines := strings.Split(strings.TrimSpace(s), "\n")
	if len(lines) < 2 || !strings.HasPrefix(lines[0], "go test fuzz v1") {
		return nil, fmt.Errorf("not a go fuzz corpus file")
	}
	l := strings.TrimSpace(lines[1])
	if !strings.HasPrefix(l, "[]byte(") || !strings.HasSuffix(l, ")") {
		return nil, fmt.Errorf("unexpected corpus value %q", l)
	}
	u, err := strconv.Unquote(l[len("[]byte(") : len(l)-1])
	if err != nil {
		return nil, err
	}
	return []byte(u), nil
}
