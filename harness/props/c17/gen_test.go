package c17

// Generator of valid GraphQL type systems (SDL text). Everything is drawn from rapid; the
// model below only lives inside Gen — the case that is saved and replayed is the SDL text.

import (
	"fmt"
	"sort"
	"strings"

	"pgregory.net/rapid"
)

// ---- type references ---------------------------------------------------------------------

type tref struct {
	Name string
	Wrap string // outermost first: 'N' = non-null, 'L' = list
}

func (t tref) String() string {
	s := t.Name
	for i := len(t.Wrap) - 1; i >= 0; i-- {
		if t.Wrap[i] == 'N' {
			s += "!"
		} else {
			s = "[" + s + "]"
		}
	}
	return s
}

func (t tref) nonNull() bool { return strings.HasPrefix(t.Wrap, "N") }

// ---- model -------------------------------------------------------------------------------

type descr struct {
	Text string // rendered literal (including the quotes); "" = none
}

type depr struct {
	On     bool
	Reason string // rendered literal; "" = no reason argument
}

type inputVal struct {
	Name    string
	Desc    descr
	Type    tref
	Default string // rendered literal; "" = none
	Dep     depr
	Dirs    []string
}

type fieldDef struct {
	Name string
	Desc descr
	Args []inputVal
	Type tref
	Dep  depr
	Dirs []string
}

type enumVal struct {
	Name string
	Desc descr
	Dep  depr
	Dirs []string
}

type typeDef struct {
	Kind       string // SCALAR OBJECT INTERFACE UNION ENUM INPUT_OBJECT
	Name       string
	Desc       descr
	Implements []string
	Fields     []fieldDef
	Inputs     []inputVal
	Values     []enumVal
	Members    []string
	SpecURL    string // rendered literal
	Dirs       []string
}

type dirDef struct {
	Name       string
	Desc       descr
	Args       []inputVal
	Repeatable bool
	Locations  []string
}

type model struct {
	t *rapid.T

	explicitSchema bool
	schemaDesc     descr
	schemaDirs     []string
	query          string
	mutation       string
	subscription   string

	types []*typeDef
	byNm  map[string]*typeDef
	dirs  []*dirDef

	built    map[string]bool
	ifaceSig map[string]fieldDef // field name -> canonical signature inside the interface family

	// knobs that steer away from (or into) recorded findings
	rawStrings  bool // descriptions / reasons whose source form differs from their value
	shadowRoots bool
	nameClash   bool // a directive named like a type
}

var allLocations = []string{
	"QUERY", "MUTATION", "SUBSCRIPTION", "FIELD", "FRAGMENT_DEFINITION", "FRAGMENT_SPREAD", "INLINE_FRAGMENT",
	"VARIABLE_DEFINITION", "SCHEMA", "SCALAR", "OBJECT", "FIELD_DEFINITION", "ARGUMENT_DEFINITION", "INTERFACE",
	"UNION", "ENUM", "ENUM_VALUE", "INPUT_OBJECT", "INPUT_FIELD_DEFINITION",
}

var builtinScalars = []string{"Int", "Float", "String", "Boolean", "ID"}

var (
	typeNamesPlain   = []string{"A", "B", "C", "D", "Node", "Named", "Item", "User", "T1", "T2", "_X", "X_y", "Z9", "Str", "Inty", "Thing", "Kind", "Ab", "AB", "Date"}
	typeNamesHostile = []string{"type", "input", "on", "Type", "query", "enum", "scalar", "union", "interface", "directive", "extend", "implements", "fragment", "True", "Null", "repeatable", "mutation"}
	fieldNames       = []string{"id", "name", "a", "b", "c", "x1", "_y", "value", "items", "type", "on", "query", "input", "true", "null", "fragment", "ofType", "kind", "fields", "node"}
	argNames         = []string{"x", "y", "z", "first", "after", "if", "input", "type", "on", "_a", "includeDeprecated", "name", "reason"}
	enumValueNames   = []string{"A", "B", "C", "RED", "GREEN", "ACTIVE", "on", "type", "_x", "V1", "query", "enum", "Null", "TRUE"}
	dirNames         = []string{"tag", "auth", "once", "key", "_d", "cost", "type", "on", "live", "upper"}

	plainTexts = []string{"desc", "A thing.", "Über cool ✓", "with `code` and 'single' quotes", "x", "Use something else", "1 < 2 & 3 > 2", "trailing space ", "#not a comment", "{ braces } [ and ] ( parens )"}
	// plain string literals whose source text differs from their value
	escapedTexts = []string{`say \"hi\" now`, `back\\slash`, `tab\there`, `uni\u00e9code`, `line\nbreak`}
	blockFlat    = []string{"single block line", "line one\nline two", "first\n\nthird after blank", "ends with dot.\nsecond ✓"}
)

type picker struct {
	plain, hostile []string
}

func newPicker(t *rapid.T, label string, plain, hostile []string) *picker {
	p := &picker{plain: rapid.Permutation(plain).Draw(t, label+"-perm")}
	if len(hostile) > 0 {
		p.hostile = rapid.Permutation(hostile).Draw(t, label+"-hperm")
	}
	return p
}

func (p *picker) next(t *rapid.T, taken map[string]bool) string {
	for {
		var n string
		if len(p.hostile) > 0 && (len(p.plain) == 0 || rapid.IntRange(0, 9).Draw(t, "hostile") == 9) {
			n, p.hostile = p.hostile[0], p.hostile[1:]
		} else if len(p.plain) > 0 {
			n, p.plain = p.plain[0], p.plain[1:]
		} else {
			n = fmt.Sprintf("N%d", len(taken))
		}
		if !taken[n] {
			taken[n] = true
			return n
		}
	}
}

func chance(t *rapid.T, pct int, label string) bool {
	return rapid.IntRange(0, 99).Draw(t, label) >= 100-pct // shrinks towards "no"
}

// pickNames draws n distinct names from pool (n <= len(pool)).
func pickNames(t *rapid.T, pool []string, n int, label string) []string {
	if n > len(pool) {
		n = len(pool)
	}
	return append([]string{}, rapid.Permutation(pool).Draw(t, label)[:n]...)
}

func (m *model) genDescr(label string) descr {
	t := m.t
	k := rapid.IntRange(0, 99).Draw(t, label+"-desc")
	switch {
	case k < 55:
		return descr{}
	case k < 75:
		return descr{Text: `"` + rapid.SampledFrom(plainTexts).Draw(t, "ptext") + `"`}
	case k < 83:
		return descr{Text: `"""` + rapid.SampledFrom(blockFlat[:1]).Draw(t, "btext1") + `"""`}
	case k < 93:
		return descr{Text: "\"\"\"\n" + rapid.SampledFrom(blockFlat).Draw(t, "btext") + "\n\"\"\""}
	default:
		if !m.rawStrings {
			return descr{Text: `"` + rapid.SampledFrom(plainTexts).Draw(t, "ptext") + `"`}
		}
		if rapid.Bool().Draw(t, "esc-or-indent") {
			return descr{Text: `"` + rapid.SampledFrom(escapedTexts).Draw(t, "etext") + `"`}
		}
		return descr{Text: "\"\"\"\n    indented first\n      deeper second\n    third\n    \"\"\""}
	}
}

func (m *model) genDepr(label string, pct int) depr {
	t := m.t
	if !chance(t, pct, label+"-dep") {
		return depr{}
	}
	k := rapid.IntRange(0, 9).Draw(t, label+"-depkind")
	switch {
	case k < 4:
		return depr{On: true}
	case k < 8:
		return depr{On: true, Reason: `"` + rapid.SampledFrom(plainTexts).Draw(t, "rtext") + `"`}
	case k < 9:
		return depr{On: true, Reason: `"""` + rapid.SampledFrom(blockFlat[:1]).Draw(t, "rbtext") + `"""`}
	default:
		if m.rawStrings {
			return depr{On: true, Reason: `"` + rapid.SampledFrom(escapedTexts).Draw(t, "retext") + `"`}
		}
		return depr{On: true, Reason: `""`}
	}
}

func (m *model) genWrap(label string) string {
	t := m.t
	d := rapid.IntRange(0, 99).Draw(t, label+"-depth")
	lists := 0
	switch {
	case d < 42:
		lists = 0
	case d < 70:
		lists = 1
	case d < 83:
		lists = 2
	case d < 93:
		lists = 3
	default:
		lists = 4
	}
	var b strings.Builder
	for i := 0; i <= lists; i++ {
		if chance(t, 45, label+"-nn") {
			b.WriteByte('N')
		}
		if i < lists {
			b.WriteByte('L')
		}
	}
	return b.String()
}

func (m *model) namesOfKind(kinds ...string) []string {
	var out []string
	for _, td := range m.types {
		for _, k := range kinds {
			if td.Kind == k {
				out = append(out, td.Name)
			}
		}
	}
	return out
}

// ---- default values ----------------------------------------------------------------------

var (
	intLits    = []string{"0", "1", "-1", "42", "2147483647", "-2147483648", "7"}
	floatLits  = []string{"0.0", "1.5", "-2.5e3", "1e10", "3", "1.50", "6.0221413e23", "-0.25", "1E2"}
	stringLits = []string{`""`, `"x"`, `"hello world"`, `"he\"llo"`, `"back\\slash"`, `"tab\tnew\nline"`, `"uni\u00e9"`, `"é✓ direct"`, `"# { } [ ] , :"`, `"""block"""`, "\"\"\"\nblock one\nblock two\n\"\"\""}
	idLits     = []string{`"id-1"`, `"1"`, `1`, `0`, `""`}
	anyLits    = []string{`1`, `"s"`, `true`, `1.5`, `[1, 2]`, `{k: 1, l: ["a"]}`, `ENUMISH`, `[]`, `{}`}
)

func (m *model) genValue(ty tref, depth int, label string) string {
	t := m.t
	if ty.Wrap != "" && ty.Wrap[0] == 'N' {
		return m.genValueNN(tref{ty.Name, ty.Wrap[1:]}, depth, label)
	}
	if chance(t, 12, label+"-null") {
		return "null"
	}
	return m.genValueNN(ty, depth, label)
}

func (m *model) genValueNN(ty tref, depth int, label string) string {
	t := m.t
	if ty.Wrap != "" { // list
		inner := tref{ty.Name, ty.Wrap[1:]}
		n := rapid.IntRange(0, 3).Draw(t, label+"-len")
		if depth > 3 && n > 1 {
			n = 1
		}
		items := make([]string, n)
		for i := range items {
			items[i] = m.genValue(inner, depth+1, label)
		}
		sep := ", "
		if chance(t, 20, label+"-sep") {
			sep = " "
		}
		return "[" + strings.Join(items, sep) + "]"
	}
	switch ty.Name {
	case "Int":
		return rapid.SampledFrom(intLits).Draw(t, label+"-int")
	case "Float":
		return rapid.SampledFrom(floatLits).Draw(t, label+"-float")
	case "String":
		return rapid.SampledFrom(stringLits).Draw(t, label+"-str")
	case "Boolean":
		return rapid.SampledFrom([]string{"true", "false"}).Draw(t, label+"-bool")
	case "ID":
		return rapid.SampledFrom(idLits).Draw(t, label+"-id")
	}
	td := m.byNm[ty.Name]
	switch td.Kind {
	case "SCALAR":
		return rapid.SampledFrom(anyLits).Draw(t, label+"-any")
	case "ENUM":
		return td.Values[rapid.IntRange(0, len(td.Values)-1).Draw(t, label+"-ev")].Name
	case "INPUT_OBJECT":
		var fs []string
		for _, f := range td.Inputs {
			required := f.Type.nonNull() && f.Default == ""
			if !required {
				if depth > 2 || !chance(t, 50, label+"-of") {
					continue
				}
			}
			fs = append(fs, f.Name+": "+m.genValue(f.Type, depth+1, label))
		}
		if len(fs) > 1 && chance(t, 30, label+"-shuffle") {
			fs = rapid.Permutation(fs).Draw(t, label+"-perm")
		}
		sep := ", "
		if chance(t, 20, label+"-osep") {
			sep = " "
		}
		return "{" + strings.Join(fs, sep) + "}"
	}
	panic("genValue: not an input type: " + ty.Name)
}

// ---- input values, fields -----------------------------------------------------------------

// genInputType picks a type for an argument / input field. ownerIdx is the index of the input
// object being defined (-1 for arguments): references to input objects that are not strictly
// earlier must not be non-null at the outermost level (no unbreakable cycles).
func (m *model) genInputType(ownerIdx int, label string) tref {
	t := m.t
	cands := append([]string{}, builtinScalars...)
	cands = append(cands, m.namesOfKind("SCALAR", "ENUM")...)
	inputs := m.namesOfKind("INPUT_OBJECT")
	// weight input objects up a little
	cands = append(cands, inputs...)
	cands = append(cands, inputs...)
	name := rapid.SampledFrom(cands).Draw(t, label+"-tname")
	w := m.genWrap(label)
	if td := m.byNm[name]; td != nil && td.Kind == "INPUT_OBJECT" && ownerIdx >= 0 {
		idx := indexOf(inputs, name)
		if idx >= ownerIdx {
			w = strings.TrimPrefix(w, "N")
		}
	}
	return tref{name, w}
}

func indexOf(s []string, x string) int {
	for i, v := range s {
		if v == x {
			return i
		}
	}
	return -1
}

// literalReady reports whether literals of this type can be generated already: an input object
// only once all its fields exist (required fields refer to strictly earlier input objects only,
// so a complete object can always be written down).
func (m *model) literalReady(ty tref) bool {
	td := m.byNm[ty.Name]
	if td == nil || td.Kind != "INPUT_OBJECT" {
		return true
	}
	return m.built[td.Name]
}

func (m *model) genInputVal(name string, ownerIdx int, mustBeOptional bool, label string) inputVal {
	t := m.t
	iv := inputVal{Name: name, Desc: m.genDescr(label), Type: m.genInputType(ownerIdx, label)}
	if mustBeOptional {
		iv.Type.Wrap = strings.TrimPrefix(iv.Type.Wrap, "N")
	}
	if m.literalReady(iv.Type) && chance(t, 50, label+"-hasdef") {
		iv.Default = m.genValue(iv.Type, 0, label+"-def")
	}
	if !iv.Type.nonNull() || iv.Default != "" {
		iv.Dep = m.genDepr(label, 18)
	}
	return iv
}

func (m *model) genArgs(label string, maxN int) []inputVal {
	t := m.t
	n := 0
	if chance(t, 45, label+"-hasargs") {
		n = rapid.IntRange(1, maxN).Draw(t, label+"-nargs")
	}
	names := pickNames(t, argNames, n, label+"-argnames")
	out := make([]inputVal, 0, n)
	for _, nm := range names {
		out = append(out, m.genInputVal(nm, -1, false, label+"-arg"))
	}
	return out
}

func (m *model) genOutputType(label string) tref {
	t := m.t
	cands := append([]string{}, builtinScalars...)
	cands = append(cands, m.namesOfKind("SCALAR", "ENUM")...)
	comp := m.namesOfKind("OBJECT", "INTERFACE", "UNION")
	cands = append(cands, comp...)
	cands = append(cands, comp...)
	return tref{rapid.SampledFrom(cands).Draw(t, label+"-oname"), m.genWrap(label)}
}

func (m *model) genField(name, label string) fieldDef {
	return fieldDef{Name: name, Desc: m.genDescr(label), Args: m.genArgs(label, 3), Type: m.genOutputType(label), Dep: m.genDepr(label, 18)}
}

// inheritField copies an interface field into an implementer, possibly narrowing it.
func (m *model) inheritField(f fieldDef, intoObject bool, label string) fieldDef {
	t := m.t
	out := fieldDef{Name: f.Name, Type: f.Type, Desc: f.Desc, Dep: f.Dep}
	for _, a := range f.Args {
		out.Args = append(out.Args, a)
	}
	if chance(t, 30, label+"-redesc") {
		out.Desc = m.genDescr(label)
	}
	if chance(t, 30, label+"-redep") {
		out.Dep = m.genDepr(label, 40)
	}
	if intoObject {
		if !out.Type.nonNull() && chance(t, 25, label+"-narrowNN") {
			out.Type.Wrap = "N" + out.Type.Wrap
		}
		if td := m.byNm[out.Type.Name]; td != nil && (td.Kind == "INTERFACE" || td.Kind == "UNION") && chance(t, 35, label+"-narrowNamed") {
			var poss []string
			for _, o := range m.types {
				if o.Kind != "OBJECT" {
					continue
				}
				if td.Kind == "UNION" && indexOf(td.Members, o.Name) >= 0 || td.Kind == "INTERFACE" && indexOf(o.Implements, td.Name) >= 0 {
					poss = append(poss, o.Name)
				}
			}
			if len(poss) > 0 {
				out.Type.Name = rapid.SampledFrom(poss).Draw(t, label+"-narrowTo")
			}
		}
		// an implementer may add optional arguments
		if chance(t, 15, label+"-extraArg") {
			taken := map[string]bool{}
			for _, a := range out.Args {
				taken[a.Name] = true
			}
			for _, nm := range pickNames(t, argNames, 3, label+"-extraArgName") {
				if !taken[nm] {
					out.Args = append(out.Args, m.genInputVal(nm, -1, true, label+"-xarg"))
					break
				}
			}
		}
	}
	return out
}

// ---- the generator -----------------------------------------------------------------------

func genModel(t *rapid.T, rawStrings, shadowRoots, nameClash bool) *model {
	m := &model{t: t, byNm: map[string]*typeDef{}, built: map[string]bool{}, ifaceSig: map[string]fieldDef{}, rawStrings: rawStrings, shadowRoots: shadowRoots, nameClash: nameClash}
	taken := map[string]bool{"Query": true, "Mutation": true, "Subscription": true}
	for _, s := range builtinScalars {
		taken[s] = true
	}
	hostile := typeNamesHostile
	if nameClash {
		hostile = append(append([]string{}, hostile...), "schema") // collides with the schema definition in the repo's index
	}
	names := newPicker(t, "tn", typeNamesPlain, hostile)
	add := func(kind, name string) *typeDef {
		td := &typeDef{Kind: kind, Name: name}
		m.types = append(m.types, td)
		m.byNm[name] = td
		return td
	}

	// roots
	m.query = "Query"
	if chance(t, 40, "rename-query") {
		m.query = names.next(t, taken)
		m.explicitSchema = true
	}
	if chance(t, 50, "has-mutation") {
		m.mutation = "Mutation"
		if chance(t, 40, "rename-mutation") {
			m.mutation = names.next(t, taken)
			m.explicitSchema = true
		}
	}
	if chance(t, 35, "has-subscription") {
		m.subscription = "Subscription"
		if chance(t, 40, "rename-subscription") {
			m.subscription = names.next(t, taken)
			m.explicitSchema = true
		}
	}
	if !m.explicitSchema && chance(t, 30, "explicit-schema") {
		m.explicitSchema = true
	}

	lo := 0
	if chance(t, 55, "rich") { // at least one of every kind
		lo = 1
	}
	nScalar := rapid.IntRange(0, 2).Draw(t, "n-scalar")
	nEnum := rapid.IntRange(lo, 2).Draw(t, "n-enum")
	nInput := rapid.IntRange(lo, 3).Draw(t, "n-input")
	nIface := rapid.IntRange(lo, 3).Draw(t, "n-iface")
	nObj := rapid.IntRange(0, 3).Draw(t, "n-object")
	nUnion := rapid.IntRange(lo, 2).Draw(t, "n-union")
	nDir := rapid.IntRange(lo, 3).Draw(t, "n-dir")

	for i := 0; i < nScalar; i++ {
		add("SCALAR", names.next(t, taken))
	}
	for i := 0; i < nEnum; i++ {
		add("ENUM", names.next(t, taken))
	}
	for i := 0; i < nInput; i++ {
		add("INPUT_OBJECT", names.next(t, taken))
	}
	for i := 0; i < nIface; i++ {
		add("INTERFACE", names.next(t, taken))
	}
	add("OBJECT", m.query)
	if m.mutation != "" {
		add("OBJECT", m.mutation)
	}
	if m.subscription != "" {
		add("OBJECT", m.subscription)
	}
	for i := 0; i < nObj; i++ {
		add("OBJECT", names.next(t, taken))
	}
	if m.shadowRoots && m.explicitSchema {
		// an ordinary object type that merely carries a default root name while the schema
		// definition does not list it
		if m.mutation != "Mutation" && (m.subscription == "Subscription" || rapid.Bool().Draw(t, "shadow-which")) {
			add("OBJECT", "Mutation")
		} else if m.subscription != "Subscription" {
			add("OBJECT", "Subscription")
		}
		if m.query != "Query" && chance(t, 30, "shadow-query") {
			add("OBJECT", "Query")
		}
	}
	for i := 0; i < nUnion; i++ {
		add("UNION", names.next(t, taken))
	}

	// headers: implements lists (transitively closed), union members
	ifaces := m.namesOfKind("INTERFACE")
	closure := func(picked []string) []string {
		set := map[string]bool{}
		var walk func(n string)
		walk = func(n string) {
			if set[n] {
				return
			}
			set[n] = true
			for _, p := range m.byNm[n].Implements {
				walk(p)
			}
		}
		for _, p := range picked {
			walk(p)
		}
		var out []string
		for _, n := range ifaces { // stable order
			if set[n] {
				out = append(out, n)
			}
		}
		return out
	}
	for i, n := range ifaces {
		if i == 0 {
			continue
		}
		var picked []string
		for _, p := range ifaces[:i] {
			if chance(t, 45, "iface-impl") {
				picked = append(picked, p)
			}
		}
		m.byNm[n].Implements = closure(picked)
	}
	for _, td := range m.types {
		if td.Kind != "OBJECT" || len(ifaces) == 0 {
			continue
		}
		if td.Name == m.subscription {
			// the repo's schema validation rejects a subscription root type that implements an
			// interface ("does not implement field '__typename'"): not this property's business
			continue
		}
		var picked []string
		for _, p := range ifaces {
			if chance(t, 35, "obj-impl") {
				picked = append(picked, p)
			}
		}
		td.Implements = closure(picked)
		if len(td.Implements) > 1 && chance(t, 30, "impl-shuffle") {
			td.Implements = rapid.Permutation(td.Implements).Draw(t, "impl-perm")
		}
	}
	objs := m.namesOfKind("OBJECT")
	for _, td := range m.types {
		if td.Kind != "UNION" {
			continue
		}
		k := rapid.IntRange(1, min(3, len(objs))).Draw(t, "n-members")
		td.Members = pickNames(t, objs, k, "members")
	}

	// scalars, enums
	for _, td := range m.types {
		td.Desc = m.genDescr("type")
		switch td.Kind {
		case "SCALAR":
			if chance(t, 40, "specifiedBy") {
				td.SpecURL = rapid.SampledFrom([]string{`"https://example.com/spec"`, `"urn:x"`, `"https://e.org/a?b=c&d=e#f"`}).Draw(t, "url")
			}
		case "ENUM":
			n := rapid.IntRange(1, 4).Draw(t, "n-values")
			for _, nm := range pickNames(t, enumValueNames, n, "ev-names") {
				td.Values = append(td.Values, enumVal{Name: nm, Desc: m.genDescr("ev"), Dep: m.genDepr("ev", 25)})
			}
		}
	}
	// input objects, in order (later ones may reference earlier ones non-null)
	inputs := m.namesOfKind("INPUT_OBJECT")
	for i, n := range inputs {
		td := m.byNm[n]
		k := rapid.IntRange(1, 4).Draw(t, "n-inputfields")
		for _, fn := range pickNames(t, fieldNames, k, "if-names") {
			td.Inputs = append(td.Inputs, m.genInputVal(fn, i, false, "if"))
		}
		m.built[n] = true
	}
	// interfaces in order
	for _, n := range ifaces {
		td := m.byNm[n]
		m.fillFields(td, false)
		for _, f := range td.Fields {
			if _, ok := m.ifaceSig[f.Name]; !ok {
				m.ifaceSig[f.Name] = f
			}
		}
	}
	for _, td := range m.types {
		if td.Kind == "OBJECT" {
			m.fillFields(td, true)
		}
	}

	// directives
	var dn []string
	for _, n := range pickNames(t, dirNames, len(dirNames), "dir-names") {
		if len(dn) < nDir && !taken[n] { // directives and types have separate namespaces; sharing a name is its own class
			dn = append(dn, n)
		}
	}
	if m.nameClash {
		clash := m.types[rapid.IntRange(0, len(m.types)-1).Draw(t, "clash-with")].Name
		if len(dn) == 0 {
			dn = append(dn, clash)
		} else {
			dn[0] = clash
		}
	}
	for _, n := range dn {
		d := &dirDef{Name: n, Desc: m.genDescr("dir"), Repeatable: chance(t, 40, "repeatable")}
		k := rapid.IntRange(1, 4).Draw(t, "n-locs")
		if chance(t, 10, "all-locs") {
			k = len(allLocations)
		}
		d.Locations = pickNames(t, allLocations, k, "locs")
		d.Args = m.genArgs("dir", 3)
		m.dirs = append(m.dirs, d)
	}
	m.schemaDesc = descr{}
	if m.explicitSchema && chance(t, 60, "schema-desc") {
		m.schemaDesc = m.genDescr("schema")
	}
	m.applyDirectives()
	return m
}

func (m *model) fillFields(td *typeDef, isObject bool) {
	t := m.t
	have := map[string]bool{}
	if td.Name == m.query {
		td.Fields = append(td.Fields, fieldDef{Name: "ping", Type: tref{Name: "String"}})
		have["ping"] = true
	}
	// inherited: for each field name the narrowest signature among the implemented interfaces
	inherited := map[string]fieldDef{}
	var order []string
	for _, in := range td.Implements {
		for _, f := range m.byNm[in].Fields {
			cur, ok := inherited[f.Name]
			if !ok {
				order = append(order, f.Name)
				inherited[f.Name] = f
			} else if f.Type.nonNull() && !cur.Type.nonNull() {
				inherited[f.Name] = f
			}
		}
	}
	sort.Strings(order)
	for _, n := range order {
		if have[n] {
			continue
		}
		have[n] = true
		td.Fields = append(td.Fields, m.inheritField(inherited[n], isObject, "inh"))
	}
	lo := 0
	if len(td.Fields) == 0 {
		lo = 1
	}
	k := rapid.IntRange(lo, 3).Draw(t, "n-own")
	for _, fn := range pickNames(t, fieldNames, k+2, "own-names") {
		if k == 0 {
			break
		}
		if have[fn] {
			continue
		}
		have[fn] = true
		k--
		if !isObject {
			if sig, ok := m.ifaceSig[fn]; ok {
				td.Fields = append(td.Fields, m.inheritField(sig, false, "sig"))
				continue
			}
		}
		td.Fields = append(td.Fields, m.genField(fn, "own"))
	}
	if len(td.Fields) == 0 {
		td.Fields = append(td.Fields, m.genField("only", "own"))
	}
	if len(td.Fields) > 1 && td.Name != m.query && chance(t, 30, "field-shuffle") {
		td.Fields = rapid.Permutation(td.Fields).Draw(t, "field-perm")
	}
}

// applyDirectives decorates definitions with applications of the custom directives. Directives
// with arguments are only applied on output-side locations, so that no directive definition can
// reach itself through an input type or an argument.
func (m *model) applyDirectives() {
	t := m.t
	if len(m.dirs) == 0 {
		return
	}
	used := func(existing []string, loc string, inputSide bool, exclude string) []string {
		if !chance(t, 18, "apply") {
			return existing
		}
		var cands []*dirDef
		for _, d := range m.dirs {
			if indexOf(d.Locations, loc) < 0 || d.Name == exclude {
				continue
			}
			if inputSide && len(d.Args) > 0 {
				continue
			}
			ok := true
			for _, a := range d.Args {
				if !m.literalReady(a.Type) && a.Type.nonNull() && a.Default == "" {
					ok = false
				}
			}
			if ok {
				cands = append(cands, d)
			}
		}
		if len(cands) == 0 {
			return existing
		}
		d := cands[rapid.IntRange(0, len(cands)-1).Draw(t, "apply-which")]
		n := 1
		if d.Repeatable && chance(t, 30, "apply-twice") {
			n = 2
		}
		for i := 0; i < n; i++ {
			var args []string
			for _, a := range d.Args {
				required := a.Type.nonNull() && a.Default == ""
				if required || (m.literalReady(a.Type) && chance(t, 40, "apply-optarg")) {
					args = append(args, a.Name+": "+m.genValue(a.Type, 1, "apply-val"))
				}
			}
			s := "@" + d.Name
			if len(args) > 0 {
				s += "(" + strings.Join(args, ", ") + ")"
			}
			existing = append(existing, s)
		}
		return existing
	}
	if m.explicitSchema {
		m.schemaDirs = used(nil, "SCHEMA", false, "")
	}
	for _, td := range m.types {
		switch td.Kind {
		case "SCALAR":
			td.Dirs = used(td.Dirs, "SCALAR", true, "")
		case "ENUM":
			td.Dirs = used(td.Dirs, "ENUM", true, "")
			for i := range td.Values {
				td.Values[i].Dirs = used(td.Values[i].Dirs, "ENUM_VALUE", true, "")
			}
		case "INPUT_OBJECT":
			td.Dirs = used(td.Dirs, "INPUT_OBJECT", true, "")
			for i := range td.Inputs {
				td.Inputs[i].Dirs = used(td.Inputs[i].Dirs, "INPUT_FIELD_DEFINITION", true, "")
			}
		case "UNION":
			td.Dirs = used(td.Dirs, "UNION", false, "")
		case "OBJECT", "INTERFACE":
			td.Dirs = used(td.Dirs, td.Kind, false, "")
			for i := range td.Fields {
				if td.Fields[i].Name == "ping" {
					continue
				}
				td.Fields[i].Dirs = used(td.Fields[i].Dirs, "FIELD_DEFINITION", false, "")
				for j := range td.Fields[i].Args {
					td.Fields[i].Args[j].Dirs = used(td.Fields[i].Args[j].Dirs, "ARGUMENT_DEFINITION", true, "")
				}
			}
		}
	}
	for _, d := range m.dirs {
		for j := range d.Args {
			d.Args[j].Dirs = used(d.Args[j].Dirs, "ARGUMENT_DEFINITION", true, d.Name)
		}
	}
}

// ---- rendering ---------------------------------------------------------------------------

type style struct {
	argSep   string
	leadAmp  bool
	leadPipe bool
	depFirst bool
}

func (d descr) render(indent string) string {
	if d.Text == "" {
		return ""
	}
	return indent + d.Text + "\n"
}

func renderDirs(dep depr, dirs []string, depFirst bool) string {
	var parts []string
	ds := ""
	if dep.On {
		ds = "@deprecated"
		if dep.Reason != "" {
			ds += "(reason: " + dep.Reason + ")"
		}
	}
	if ds != "" && depFirst {
		parts = append(parts, ds)
	}
	parts = append(parts, dirs...)
	if ds != "" && !depFirst {
		parts = append(parts, ds)
	}
	if len(parts) == 0 {
		return ""
	}
	return " " + strings.Join(parts, " ")
}

func renderInputVal(iv inputVal, st style, indent string, inline bool) string {
	var b strings.Builder
	if iv.Desc.Text != "" {
		if inline {
			b.WriteString(iv.Desc.Text + " ")
		} else {
			b.WriteString(iv.Desc.render(indent))
		}
	}
	if !inline {
		b.WriteString(indent)
	}
	b.WriteString(iv.Name + ": " + iv.Type.String())
	if iv.Default != "" {
		b.WriteString(" = " + iv.Default)
	}
	b.WriteString(renderDirs(iv.Dep, iv.Dirs, st.depFirst))
	return b.String()
}

func renderArgs(args []inputVal, st style) string {
	if len(args) == 0 {
		return ""
	}
	parts := make([]string, len(args))
	for i, a := range args {
		parts[i] = renderInputVal(a, st, "", true)
	}
	return "(" + strings.Join(parts, st.argSep) + ")"
}

func renderField(f fieldDef, st style, indent string) string {
	return f.Desc.render(indent) + indent + f.Name + renderArgs(f.Args, st) + ": " + f.Type.String() + renderDirs(f.Dep, f.Dirs, st.depFirst)
}

func renderImplements(impl []string, st style) string {
	if len(impl) == 0 {
		return ""
	}
	s := " implements "
	if st.leadAmp {
		s += "& "
	}
	return s + strings.Join(impl, " & ")
}

func (m *model) renderType(td *typeDef, st style) string {
	var b strings.Builder
	b.WriteString(td.Desc.render(""))
	dirs := ""
	if len(td.Dirs) > 0 {
		dirs = " " + strings.Join(td.Dirs, " ")
	}
	switch td.Kind {
	case "SCALAR":
		b.WriteString("scalar " + td.Name)
		if td.SpecURL != "" {
			b.WriteString(" @specifiedBy(url: " + td.SpecURL + ")")
		}
		b.WriteString(dirs)
	case "ENUM":
		b.WriteString("enum " + td.Name + dirs + " {\n")
		for _, v := range td.Values {
			b.WriteString(v.Desc.render("  ") + "  " + v.Name + renderDirs(v.Dep, v.Dirs, st.depFirst) + "\n")
		}
		b.WriteString("}")
	case "INPUT_OBJECT":
		b.WriteString("input " + td.Name + dirs + " {\n")
		for _, f := range td.Inputs {
			b.WriteString(renderInputVal(f, st, "  ", false) + "\n")
		}
		b.WriteString("}")
	case "UNION":
		b.WriteString("union " + td.Name + dirs + " = ")
		if st.leadPipe {
			b.WriteString("| ")
		}
		b.WriteString(strings.Join(td.Members, " | "))
	case "OBJECT", "INTERFACE":
		kw := "type "
		if td.Kind == "INTERFACE" {
			kw = "interface "
		}
		b.WriteString(kw + td.Name + renderImplements(td.Implements, st) + dirs + " {\n")
		for _, f := range td.Fields {
			b.WriteString(renderField(f, st, "  ") + "\n")
		}
		b.WriteString("}")
	}
	return b.String()
}

func (m *model) renderDirective(d *dirDef, st style) string {
	var b strings.Builder
	b.WriteString(d.Desc.render(""))
	b.WriteString("directive @" + d.Name + renderArgs(d.Args, st))
	if d.Repeatable {
		b.WriteString(" repeatable")
	}
	b.WriteString(" on ")
	if st.leadPipe {
		b.WriteString("| ")
	}
	b.WriteString(strings.Join(d.Locations, " | "))
	return b.String()
}

func (m *model) renderSchemaDef() string {
	if !m.explicitSchema {
		return ""
	}
	var b strings.Builder
	b.WriteString(m.schemaDesc.render(""))
	b.WriteString("schema")
	if len(m.schemaDirs) > 0 {
		b.WriteString(" " + strings.Join(m.schemaDirs, " "))
	}
	b.WriteString(" {\n  query: " + m.query + "\n")
	if m.mutation != "" {
		b.WriteString("  mutation: " + m.mutation + "\n")
	}
	if m.subscription != "" {
		b.WriteString("  subscription: " + m.subscription + "\n")
	}
	b.WriteString("}")
	return b.String()
}

func (m *model) render() string {
	t := m.t
	st := style{argSep: ", "}
	if chance(t, 25, "st-argsep") {
		st.argSep = " "
	}
	st.leadAmp = chance(t, 15, "st-amp")
	st.leadPipe = chance(t, 15, "st-pipe")
	st.depFirst = chance(t, 50, "st-depfirst")
	var defs []string
	if s := m.renderSchemaDef(); s != "" {
		defs = append(defs, s)
	}
	for _, td := range m.types {
		defs = append(defs, m.renderType(td, st))
	}
	for _, d := range m.dirs {
		defs = append(defs, m.renderDirective(d, st))
	}
	if len(defs) > 1 && chance(t, 60, "def-shuffle") {
		defs = rapid.Permutation(defs).Draw(t, "def-perm")
	}
	return strings.Join(defs, "\n\n") + "\n"
}

// genSDL draws one type system. A small share of the schemas is allowed to contain the shapes
// of recorded findings (see NOTES.md); all others steer away from them by construction.
func genSDL(t *rapid.T) (string, *model) {
	raw := chance(t, 12, "class-raw-strings")
	shadow := chance(t, 6, "class-shadow-roots")
	clash := chance(t, 4, "class-directive-named-like-type")
	m := genModel(t, raw, shadow, clash)
	return m.render(), m
}
