//go:build verif

// Package subrig is the shared machinery of the subscription properties C12 (delivery is
// ordered, exact and stops at completion) and C13 (triggers are shared, started once and
// always cleaned up): a fake SubscriptionDataSource that captures the SubscriptionUpdater, a
// recording SubscriptionResponseWriter and Reporter, a park/resume scheduler over the
// verifhook yield points, a model of the resolver's subscription registry, a generator of
// action histories and the executor that drives one resolve.Resolver through a history purely
// through its exported API and compares what happened with the model.
package subrig

import (
	"encoding/json"
	"fmt"
	"strings"
)

// Operations of a history step.
const (
	OpSubscribe    = "subscribe"    // Sub (new index), Conn, Key, Filter, Shape, Sync, HB, Hook, StartMode, FlushFailAt, HBFail
	OpEvent        = "event"        // Period, N (unique counter), K (filter field), Kind
	OpUpdateSub    = "updateSub"    // Period, Sub, N, K, Kind          updater.UpdateSubscription
	OpComplete     = "complete"     // Period                            updater.Complete
	OpError        = "error"        // Period                            updater.Error
	OpDone         = "done"         // Period                            updater.Done
	OpCloseSub     = "closeSub"     // Period, Sub                       updater.CloseSubscription
	OpUnsubscribe  = "unsubscribe"  // Sub     async: UnsubscribeSubscription; sync: cancel the client context
	OpRemoveClient = "removeClient" // Conn                              UnsubscribeClient
	OpHeartbeat    = "heartbeat"    // Period                            updater.Heartbeat
	OpShutdown     = "shutdown"     // cancel the resolver context
	OpReleaseStart = "releaseStart" // Period, Err: let a blocked Start return (nil or an error)
)

// Yield points (names as in /repo behind the verif tag).
const (
	PtUpdate   = "sub.update.before_lock"
	PtComplete = "sub.complete.before_write"
	PtError    = "sub.error.before_write"
	PtInit     = "trigger.init.before_store"
	PtStart    = "trigger.start.begin"
	// PtHeartbeat: executeSubscriptionHeartbeat, after the context checks and before sendHeartbeat
	// takes the write lock (key = SubscriptionIdentifier).
	PtHeartbeat = "sub.heartbeat.before_lock"
)

// Windows owned by the harness itself: the recording writer parks inside the call, i.e. while
// the resolver holds the subscription's write lock.
const (
	PtWFlush     = "writer.flush"     // event / updateSub: inside the target's Flush
	PtWComplete  = "writer.complete"  // complete: inside the target's Complete
	PtWError     = "writer.error"     // error: inside the target's Error
	PtWHeartbeat = "writer.heartbeat" // heartbeat: inside the target's Heartbeat
)

// IsWriterPoint reports whether the window is inside a writer call.
func IsWriterPoint(p string) bool {
	return p == PtWFlush || p == PtWComplete || p == PtWError || p == PtWHeartbeat
}

// Filter kinds (field data.k of the event, k in 0..2).
const (
	FNone   = ""       // no filter
	FIn0    = "in0"    // k == 0
	FIn1    = "in1"    // k == 1
	FIn01   = "in01"   // k in {0,1}, two values
	FArr01  = "arr01"  // k in [0,1], one array-valued template
	FNot0   = "not0"   // not (k == 0)
	FAndOr  = "andor"  // and(or(k==0,k==1), not(k==1))  == (k == 0)
	FBroken = "broken" // template with two arrays -> SkipEvent returns an error for every event
)

// Filters lists the filter kinds.
var Filters = []string{FNone, FIn0, FIn1, FIn01, FArr01, FNot0, FAndOr, FBroken}

// Event payload kinds.
const (
	EvPlain     = ""       // {"data":{"counter":N,"k":K,"tag":"tN"}}
	EvNoTag     = "notag"  // tag missing
	EvErrors    = "errors" // with an upstream errors array
	EvMalformed = "bad"    // truncated JSON
)

// EventKinds lists the event payload kinds.
var EventKinds = []string{EvPlain, EvNoTag, EvErrors, EvMalformed}

// Start modes of the fake source for the subscriber that creates a trigger.
const (
	StartOK    = ""      // Start returns nil at once
	StartErr   = "err"   // Start returns an error at once
	StartBlock = "block" // Start blocks until a releaseStart step (or the end of the history)
)

// Hook modes of a subscriber's plan.
const (
	HookNone = ""     // source does not implement HookableSubscriptionDataSource
	HookOK   = "ok"   // SubscriptionOnStart returns nil
	HookFail = "fail" // SubscriptionOnStart returns an error
	HookEmit = "emit" // SubscriptionOnStart sends one initial message through ctx.Updater, returns nil
)

// Step is one action of a history. Plain data.
type Step struct {
	Op     string `json:"op"`
	Sub    int    `json:"sub,omitempty"`
	Conn   int    `json:"conn,omitempty"`
	Key    int    `json:"key,omitempty"`    // trigger key index: (input, headers) pair, see Keys
	Period int    `json:"period,omitempty"` // index of the trigger live period (creation order)
	N      int    `json:"n,omitempty"`
	K      int    `json:"k,omitempty"`
	Kind   string `json:"kind,omitempty"`

	Filter      string `json:"filter,omitempty"`
	Shape       int    `json:"shape,omitempty"`
	Sync        bool   `json:"sync,omitempty"`
	HB          bool   `json:"hb,omitempty"`
	Hook        string `json:"hook,omitempty"`
	StartMode   string `json:"start,omitempty"`
	FlushFailAt int    `json:"flushFailAt,omitempty"` // the n-th Flush of this writer fails (0: never)
	HBFail      bool   `json:"hbFail,omitempty"`      // writer.Heartbeat returns an error
	Err         bool   `json:"err,omitempty"`         // releaseStart: return an error

	Split *Split `json:"split,omitempty"`
}

// Split parks the step's action at a yield point, runs Nested, then resumes it.
type Split struct {
	Point  string `json:"point"`
	Target int    `json:"target,omitempty"` // subscriber whose arrival parks (sub.* points)
	Nested []Step `json:"nested,omitempty"`
}

// History is the replayable case.
type History struct {
	Steps []Step `json:"steps"`
	// Excluded lists, one entry per occurrence, the recorded findings whose history shape the
	// generator steered around while drawing this history (bookkeeping only).
	Excluded []string `json:"excluded,omitempty"`
}

// Key is one (input, headers) pair. Keys 0 and 1 differ in input only, 0 and 2 in headers
// only, 2 and 3 in the header value only.
type Key struct {
	Input  string
	Header string // "" = no SubgraphHeadersBuilder
}

// Keys are the trigger keys a history can use.
var Keys = []Key{{"a", ""}, {"b", ""}, {"a", "h1"}, {"a", "h2"}}

func (s Step) String() string {
	var b strings.Builder
	switch s.Op {
	case OpSubscribe:
		fmt.Fprintf(&b, "subscribe(s%d c%d key%d", s.Sub, s.Conn, s.Key)
		if s.Filter != "" {
			fmt.Fprintf(&b, " filter=%s", s.Filter)
		}
		if s.Shape != 0 {
			fmt.Fprintf(&b, " shape=%d", s.Shape)
		}
		if s.Sync {
			b.WriteString(" sync")
		}
		if s.HB {
			b.WriteString(" hb")
		}
		if s.Hook != "" {
			fmt.Fprintf(&b, " hook=%s", s.Hook)
		}
		if s.StartMode != "" {
			fmt.Fprintf(&b, " start=%s", s.StartMode)
		}
		if s.FlushFailAt != 0 {
			fmt.Fprintf(&b, " flushFailAt=%d", s.FlushFailAt)
		}
		if s.HBFail {
			b.WriteString(" hbFail")
		}
		b.WriteString(")")
	case OpEvent:
		fmt.Fprintf(&b, "event(p%d n%d k%d %s)", s.Period, s.N, s.K, s.Kind)
	case OpUpdateSub:
		fmt.Fprintf(&b, "updateSub(p%d s%d n%d k%d %s)", s.Period, s.Sub, s.N, s.K, s.Kind)
	case OpCloseSub:
		fmt.Fprintf(&b, "closeSub(p%d s%d)", s.Period, s.Sub)
	case OpUnsubscribe:
		fmt.Fprintf(&b, "unsubscribe(s%d)", s.Sub)
	case OpRemoveClient:
		fmt.Fprintf(&b, "removeClient(c%d)", s.Conn)
	case OpShutdown:
		b.WriteString("shutdown")
	case OpReleaseStart:
		fmt.Fprintf(&b, "releaseStart(p%d err=%v)", s.Period, s.Err)
	default:
		fmt.Fprintf(&b, "%s(p%d)", s.Op, s.Period)
	}
	if s.Split != nil {
		fmt.Fprintf(&b, " SPLIT@%s", s.Split.Point)
		if strings.HasPrefix(s.Split.Point, "sub.") || IsWriterPoint(s.Split.Point) {
			fmt.Fprintf(&b, "[s%d]", s.Split.Target)
		}
		b.WriteString("{")
		for i, n := range s.Split.Nested {
			if i > 0 {
				b.WriteString("; ")
			}
			b.WriteString(n.String())
		}
		b.WriteString("}")
	}
	return b.String()
}

func (h History) String() string {
	parts := make([]string, len(h.Steps))
	for i, s := range h.Steps {
		parts[i] = s.String()
	}
	return strings.Join(parts, " | ")
}

// JSON is the canonical text of the history (fingerprint key).
func (h History) JSON() string { b, _ := json.Marshal(h); return string(b) }

// EventPayload is the upstream message of an event.
func EventPayload(n, k int, kind string) string {
	switch kind {
	case EvNoTag:
		return fmt.Sprintf(`{"data":{"counter":%d,"k":%d}}`, n, k)
	case EvErrors:
		return fmt.Sprintf(`{"data":{"counter":%d,"k":%d,"tag":"t%d"},"errors":[{"message":"boom%d"}]}`, n, k, n, n)
	case EvMalformed:
		return fmt.Sprintf(`{"data":{"counter":%d,"k":%d`, n, k)
	}
	return fmt.Sprintf(`{"data":{"counter":%d,"k":%d,"tag":"t%d"}}`, n, k, n)
}

// HookEmitPayload is the initial message a HookEmit subscriber's hook sends to itself.
func HookEmitPayload(sub int) string {
	return fmt.Sprintf(`{"data":{"counter":%d,"k":0,"tag":"init%d"}}`, 1000+sub, sub)
}

// ErrorPayload is what the source passes to updater.Error.
func ErrorPayload(period int) string {
	return fmt.Sprintf(`{"errors":[{"message":"source error p%d"}]}`, period)
}
