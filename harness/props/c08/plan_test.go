package c08

import (
	"fmt"
	"os"
	"sort"
	"strings"

	"pgregory.net/rapid"

	"github.com/wundergraph/graphql-go-tools/v2/pkg/engine/plan"

	"verif/harness/internal/fedgen"
	"verif/harness/internal/ftree"
	"verif/harness/internal/kit"
	"verif/harness/internal/opgen"
	"verif/harness/internal/sim"
	"verif/harness/pbt"
)

type planCase struct {
	Layout *fedgen.Layout `json:"layout"`
	Ops    []opgen.Op     `json:"ops"`
}

func allowFromEnv() map[string]bool {
	m := map[string]bool{}
	for _, c := range strings.Split(os.Getenv("C08_ALLOW"), ",") {
		if c != "" {
			m[c] = true
		}
	}
	return m
}

var planPart = pbt.Part[planCase]{Name: "real-plan-structural", Quick: 1500, Thorough: 30000, Check: checkPlan,
	Gen: func(t *rapid.T) planCase {
		l := fedgen.Gen(t, fedgen.Options{Allow: allowFromEnv()})
		super, err := sim.LoadSuper(l.Super)
		if err != nil {
			t.Fatalf("generator produced an invalid supergraph: %v", err)
		}
		c := planCase{Layout: l}
		n := rapid.IntRange(1, 8).Draw(t, "nops")
		for i := 0; i < n; i++ {
			c.Ops = append(c.Ops, opgen.Gen(t, super, opgen.Options{Mutations: true, Allow: allowFromEnv(), MaxDepth: 6, Budget: 30}))
		}
		return c
	}}

var engineOptionSets = map[string]kit.EngineOptions{
	"default":             {},
	"schedule":            {ScheduleFetches: true},
	"multifetch":          {MultiFetch: true},
	"multifetch-schedule": {MultiFetch: true, ScheduleFetches: true},
	"nodedupe":            {DisableDedupe: true},
}

func checkPlan(c planCase, o *pbt.Rec) pbt.Verdict {
	var names []string
	for k := range engineOptionSets {
		names = append(names, k)
	}
	sort.Strings(names)
	gws := map[string]*kit.Gateway{}
	for _, name := range names {
		gw, err := kit.New(c.Layout, 1, engineOptionSets[name])
		if err != nil {
			return pbt.Bad("engine construction failed (%s): %v", name, err)
		}
		defer gw.Close()
		gws[name] = gw
	}
	for i, op := range c.Ops {
		if _, err := gws["default"].World.Reference(op); err != nil {
			o.Label("oracle-disagreement:generator-vs-gqlparser")
			continue
		}
		idsDefault := map[int]bool{}
		nontrivial := false
		for _, name := range names {
			p, err := gws[name].Plan(op)
			if err != nil {
				// planning failures are C01's business
				o.Label("planning-failed(C01)")
				continue
			}
			sp, ok := p.(*plan.SynchronousResponsePlan)
			if !ok || sp.Response == nil || sp.Response.Fetches == nil {
				continue
			}
			root := sp.Response.Fetches
			v, dangling := ftree.CheckOrder(root)
			if v != "" {
				return pbt.Bad("option set %s: %s\noperation[%d]: %s", name, v, i, op.Query)
			}
			if len(dangling) > 0 {
				o.Label("dangling-dependency-ids:" + name)
			}
			leaves, _, _ := ftree.Leaves(root)
			edges := 0
			for _, l := range leaves {
				edges += len(l.Deps)
			}
			if len(leaves) >= 3 && edges >= 1 {
				nontrivial = true
			}
			if strings.Contains(ftree.Dump(root), "Par(") {
				o.Label("tree-has-parallel:" + name)
			}
			switch name {
			case "default":
				for id := range leaves {
					idsDefault[id] = true
				}
			case "schedule":
				// scheduling only re-orders: same fetch set as the default tree
				same := len(leaves) == len(idsDefault)
				for id := range leaves {
					if !idsDefault[id] {
						same = false
					}
				}
				if !same && len(idsDefault) > 0 {
					return pbt.Bad("the scheduled tree does not contain exactly the fetches of the default tree: %s\noperation[%d]: %s", ftree.Dump(root), i, op.Query)
				}
			}
		}
		key := ""
		if nontrivial {
			key = fmt.Sprint(c.Layout.Subs) + op.Query
		}
		o.Sub(key)
	}
	return pbt.OK
}
