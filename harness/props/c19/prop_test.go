package c19

import (
	"testing"

	"verif/harness/pbt"
)

// TestProp is the entry point the driver runs in every shard.
func TestProp(t *testing.T) {
	r := pbt.Start(t, "C19")
	defer r.Finish()
	r.Rule("a case (protocol, client message sequence k<=12 over the protocol alphabet, executor scripts) is non-trivial when the sequence reaches the acknowledged state and starts >= 1 operation (graphql-ws: starts >= 1 operation), or ends in a 44xx close; distinct by case JSON")
	r.Assume(
		"the fake TransportClient behaves like websocket.Client: writes after a disconnect are refused (counted, not judged), a pending read fails when the connection is closed",
		"the fake ExecutorPool refuses exactly the payloads graphql.UnmarshalRequest refuses; executors honour or ignore cancellation as scripted",
		"the before-start hook (30% of the sequence cases) lives in one shared real ExecutionEngine; only operations it refuses get a real ExecutorV2 (the engine consults the hook for that type only), everything it lets through runs a scripted fake executor",
		"keep-alive, subscription-update and read-error intervals are one hour (never fire); the init timeout is one hour except in the init-timeout part",
		"rendezvous on ReadBytesFromClient and on executor park states makes the history exact; watchdog expiry discards the case (inconclusive), it never alarms, except a Handle goroutine blocked in the same call twice (wedged)",
	)
	r.RequireLabel(
		"proto:tws", "proto:gws", "acked", "started:query", "started:mutation", "started:subscription",
		"close-4400", "close-4401", "close-4409", "close-4429", "close-4408",
		"duplicate-id", "id-reused", "client-complete:live", "client-complete:executor-running",
		"sub-before-init", "second-init", "unknown-type", "non-json", "wrong-shape:ignored", "init-rejected",
		"gate-released-uninterruptible-executor", "tick:before-init", "tick:after-init", "accepted",
		"hook-refused", "hook-refused:on-live-id", "id-reused-after-hook-refusal",
		"server-only-type:next", "server-only-type:error", "server-only-type:connection_ack", "server-only-type:data",
		"server-only-type:complete", "server-only-type:ka", "server-only-type:connection_error",
		"server-only-type:before-init", "server-only-type:after-init", "server-only-type:id-of-live-operation",
	)
	if r.FirstShard() {
		if msg := acceptorSelfTest(); msg != "" {
			t.Fatalf("harness defect: the acceptor accepts a trace it must reject: %s", msg)
		}
	}
	r.Regress(dispatch())
	r.RunProbes(probes())
	twsPart.Run(r)
	gwsPart.Run(r)
	tickPart.Run(r)
}

func TestReplay(t *testing.T) { pbt.StdReplay(t, "C19", dispatch()) }

func dispatch() pbt.Dispatch {
	return pbt.Dispatch{}.
		Add(twsPart.Name, twsPart.Handler()).
		Add(gwsPart.Name, gwsPart.Handler()).
		Add(tickPart.Name, tickPart.Handler()).
		WithProbes(probes())
}
