// Package ref is the independent reference semantics used as oracle: a GraphQL executor
// written from spec §6 on top of gqlparser's AST (it shares no code with /repo), a
// deterministic hash "universe" that resolves every field, and JSON helpers.
package ref

import (
	"bytes"
	"encoding/json"
	"fmt"
	"math/big"
	"sort"
	"strconv"
	"strings"
)

// Decode parses JSON keeping numbers exact.
func Decode(b []byte) (any, error) {
	d := json.NewDecoder(bytes.NewReader(b))
	d.UseNumber()
	var v any
	if err := d.Decode(&v); err != nil {
		return nil, err
	}
	if d.More() {
		return nil, fmt.Errorf("trailing data after JSON value")
	}
	// reject trailing garbage
	if _, err := d.Token(); err == nil {
		return nil, fmt.Errorf("trailing tokens after JSON value")
	}
	return v, nil
}

// MustDecode panics on invalid JSON (for harness-produced text only).
func MustDecode(s string) any {
	v, err := Decode([]byte(s))
	if err != nil {
		panic(fmt.Sprintf("ref.MustDecode(%q): %v", s, err))
	}
	return v
}

func canonNumber(s string) string {
	r, ok := new(big.Rat).SetString(s)
	if !ok {
		return "NUM(" + s + ")"
	}
	if r.IsInt() {
		return r.Num().String()
	}
	return r.RatString()
}

// Canon renders a JSON value (as produced by Decode or built from Go maps/slices/int/float
// /string/bool/nil) canonically: object keys sorted, numbers compared by exact value.
func Canon(v any) string {
	var sb strings.Builder
	canon(&sb, v)
	return sb.String()
}

func canon(sb *strings.Builder, v any) {
	switch x := v.(type) {
	case nil:
		sb.WriteString("null")
	case bool:
		if x {
			sb.WriteString("true")
		} else {
			sb.WriteString("false")
		}
	case string:
		b, _ := json.Marshal(x)
		sb.Write(b)
	case json.Number:
		sb.WriteString(canonNumber(string(x)))
	case int:
		sb.WriteString(strconv.Itoa(x))
	case int64:
		sb.WriteString(strconv.FormatInt(x, 10))
	case float64:
		sb.WriteString(canonNumber(strconv.FormatFloat(x, 'f', -1, 64)))
	case []any:
		sb.WriteByte('[')
		for i, e := range x {
			if i > 0 {
				sb.WriteByte(',')
			}
			canon(sb, e)
		}
		sb.WriteByte(']')
	case map[string]any:
		keys := make([]string, 0, len(x))
		for k := range x {
			keys = append(keys, k)
		}
		sort.Strings(keys)
		sb.WriteByte('{')
		for i, k := range keys {
			if i > 0 {
				sb.WriteByte(',')
			}
			b, _ := json.Marshal(k)
			sb.Write(b)
			sb.WriteByte(':')
			canon(sb, x[k])
		}
		sb.WriteByte('}')
	case *OMap:
		m := map[string]any{}
		for i, k := range x.Keys {
			m[k] = x.Vals[i]
		}
		canon(sb, m)
	default:
		sb.WriteString(fmt.Sprintf("?%T(%v)", v, v))
	}
}

// Equal compares two JSON values ignoring object key order and number spelling.
func Equal(a, b any) bool { return Canon(a) == Canon(b) }

// OMap is an insertion-ordered JSON object (the reference executor keeps spec field order so
// that order differences can be reported as a statistic).
type OMap struct {
	Keys []string
	Vals []any
}

// Set appends or replaces.
func (m *OMap) Set(k string, v any) {
	for i, kk := range m.Keys {
		if kk == k {
			m.Vals[i] = v
			return
		}
	}
	m.Keys = append(m.Keys, k)
	m.Vals = append(m.Vals, v)
}

// Get looks a key up.
func (m *OMap) Get(k string) (any, bool) {
	for i, kk := range m.Keys {
		if kk == k {
			return m.Vals[i], true
		}
	}
	return nil, false
}

// MarshalJSON keeps insertion order.
func (m *OMap) MarshalJSON() ([]byte, error) {
	var b bytes.Buffer
	b.WriteByte('{')
	for i, k := range m.Keys {
		if i > 0 {
			b.WriteByte(',')
		}
		kb, _ := json.Marshal(k)
		b.Write(kb)
		b.WriteByte(':')
		vb, err := json.Marshal(m.Vals[i])
		if err != nil {
			return nil, err
		}
		b.Write(vb)
	}
	b.WriteByte('}')
	return b.Bytes(), nil
}

// Plain converts OMap trees into map[string]any trees (via JSON) with exact numbers.
func Plain(v any) any {
	b, err := json.Marshal(v)
	if err != nil {
		panic(err)
	}
	out, err := Decode(b)
	if err != nil {
		panic(err)
	}
	return out
}

// JSON marshals v (OMap order preserved).
func JSON(v any) string {
	b, err := json.Marshal(v)
	if err != nil {
		return fmt.Sprintf("<unmarshalable %v>", err)
	}
	return string(b)
}
