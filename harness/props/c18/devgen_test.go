package c18

import "pgregory.net/rapid"

func genSteppedSeed(seed int) Case { return rapid.Custom(genStepped).Example(seed) }
func genBurstSeed(seed int) Case   { return rapid.Custom(genBurst).Example(seed) }

func rapidExamplePing(seed int) Case { return rapid.Custom(genPing).Example(seed) }
