package c20

import (
	"fmt"
	"os"
	"sort"
	"strconv"
	"strings"

	"github.com/vektah/gqlparser/v2/ast"
	"pgregory.net/rapid"

	"verif/harness/pbt"
)

// node is one selection of a generated operation: a field, an inline fragment or a named
// fragment spread.
type node struct {
	Alias  string
	Name   string // field name ("" for fragments/spreads)
	Args   string // rendered argument list, e.g. `(id: "1")`
	Frag   bool   // inline fragment
	On     string // type condition of the inline fragment ("" = none)
	Spread string // named fragment spread
	Kids   []*node

	scope string // name of the type whose selection set the kids of this node live in ("" for leaves)
}

type fragDef struct {
	Name string
	On   string
	Kids []*node
}

type opTree struct {
	Mutation bool
	Roots    []*node
	Frags    []*fragDef
	rootType string
}

func (n *node) clone() *node {
	c := *n
	c.Kids = cloneKids(n.Kids)
	return &c
}

func cloneKids(k []*node) []*node {
	out := make([]*node, len(k))
	for i := range k {
		out[i] = k[i].clone()
	}
	return out
}

func (o *opTree) clone() *opTree {
	c := &opTree{Mutation: o.Mutation, Roots: cloneKids(o.Roots), rootType: o.rootType}
	for _, f := range o.Frags {
		c.Frags = append(c.Frags, &fragDef{Name: f.Name, On: f.On, Kids: cloneKids(f.Kids)})
	}
	return c
}

func renderKids(b *strings.Builder, kids []*node) {
	b.WriteString("{")
	for _, k := range kids {
		b.WriteString(" ")
		switch {
		case k.Spread != "":
			b.WriteString("..." + k.Spread)
		case k.Frag:
			b.WriteString("...")
			if k.On != "" {
				b.WriteString(" on " + k.On)
			}
			b.WriteString(" ")
			renderKids(b, k.Kids)
		default:
			if k.Alias != "" {
				b.WriteString(k.Alias + ": ")
			}
			b.WriteString(k.Name + k.Args)
			if len(k.Kids) > 0 {
				b.WriteString(" ")
				renderKids(b, k.Kids)
			}
		}
	}
	b.WriteString(" }")
}

func (o *opTree) render() string {
	var b strings.Builder
	if o.Mutation {
		b.WriteString("mutation ")
	}
	renderKids(&b, o.Roots)
	for _, f := range o.Frags {
		b.WriteString(" fragment " + f.Name + " on " + f.On + " ")
		renderKids(&b, f.Kids)
	}
	return b.String()
}

// ---- argument values -----------------------------------------------------------------------

// chooser abstracts rapid so that the stability pre-pass can build deterministic operations
// with the same value generator.
type chooser interface {
	Int(n int, label string) int // uniform in [0,n)
}

type rapidChooser struct{ t *rapid.T }

func (c rapidChooser) Int(n int, label string) int {
	if n <= 1 {
		return 0
	}
	return rapid.IntRange(0, n-1).Draw(c.t, label)
}

// fixedChooser always takes the k-th alternative (modulo the number of alternatives), except
// that it never omits an optional argument and never picks a null literal.
type fixedChooser struct{ k int }

func (c fixedChooser) Int(n int, label string) int {
	if label == "optarg" || label == "optfield" || label == "null" || n <= 1 {
		return 0
	}
	return c.k % n
}

type zeroChooser = fixedChooser

var (
	poolString = []string{"test", "ap", "unavailable", "error_action", "Tech", "a b", "alpha", ""}
	poolID     = []string{"1", "2", "simple", "complex", "not-found", "full-data", "partial-data", "minimal-data", "minimal", "experienced", "non-existent", "null-test", "abc-3"}
	poolInt    = []string{"1", "0", "2", "3", "10", "60", "100"} // no negative values: the mock allocates slices of that size
	poolFloat  = []string{"1.5", "0", "100", "2.25", "50.0", "-3.5"}
)

func genValue(c chooser, w *world, t *ast.Type, depth int) string {
	if !t.NonNull && depth > 0 && c.Int(20, "null") == 1 {
		return "null"
	}
	if t.Elem != nil {
		n := []int{1, 2, 0, 3}[c.Int(4, "listlen")]
		if depth > 3 {
			n = 0
		}
		parts := make([]string, n)
		for i := range parts {
			parts[i] = genValue(c, w, t.Elem, depth+1)
		}
		return "[" + strings.Join(parts, ", ") + "]"
	}
	def := w.schema.Types[t.NamedType]
	switch {
	case def == nil:
		return "null"
	case def.Kind == ast.Enum:
		return def.EnumValues[c.Int(len(def.EnumValues), "enum")].Name
	case def.Kind == ast.InputObject:
		var parts []string
		for _, f := range def.Fields {
			required := f.Type.NonNull && f.DefaultValue == nil
			if !required && (depth >= 3 || c.Int(2, "optfield") == 1) {
				continue
			}
			parts = append(parts, f.Name+": "+genValue(c, w, f.Type, depth+1))
		}
		return "{" + strings.Join(parts, ", ") + "}"
	}
	switch def.Name {
	case "String":
		return strconv.Quote(poolString[c.Int(len(poolString), "str")])
	case "ID":
		return strconv.Quote(poolID[c.Int(len(poolID), "id")])
	case "Int":
		return poolInt[c.Int(len(poolInt), "int")]
	case "Float":
		return poolFloat[c.Int(len(poolFloat), "float")]
	case "Boolean":
		return []string{"true", "false"}[c.Int(2, "bool")]
	}
	return "null"
}

func genArgs(c chooser, w *world, f *ast.FieldDefinition) string {
	var parts []string
	for _, a := range f.Arguments {
		required := a.Type.NonNull && a.DefaultValue == nil
		if !required && c.Int(2, "optarg") == 1 {
			continue
		}
		if a.Name == "depth" && a.Type.Name() == "Int" {
			// Storage.linkedStorages(depth): the mock answers depth items per parent and
			// the field nests, so large values multiply into millions of objects
			parts = append(parts, a.Name+": "+[]string{"1", "2", "3", "0"}[c.Int(4, "depth")])
			continue
		}
		parts = append(parts, a.Name+": "+genValue(c, w, a.Type, 0))
	}
	if len(parts) == 0 {
		return ""
	}
	return "(" + strings.Join(parts, ", ") + ")"
}

// ---- base operation ------------------------------------------------------------------------

type opGen struct {
	t        *rapid.T
	c        chooser
	w        *world
	usable   func(unitKey string) (bool, string) // false + finding id ("" if the mock lacks the RPC)
	excluded map[string]bool
	maxDepth int
	nAlias   int

	// sequence mode: every argument becomes an operation variable (values are drawn per
	// request), unstable units are not selected, resolver fields are preferred
	varMode bool
	vars    []varSpec
	skip    func(unitKey string) bool
}

// varSpec is one operation variable of a generated operation.
type varSpec struct {
	Name string
	Arg  string // argument it feeds
	Type *ast.Type
}

// varArgs renders the arguments of f with one fresh variable each.
func (g *opGen) varArgs(f *ast.FieldDefinition) string {
	var parts []string
	for _, a := range f.Arguments {
		required := a.Type.NonNull && a.DefaultValue == nil
		if !required && g.c.Int(3, "optarg") == 1 {
			continue
		}
		v := varSpec{Name: fmt.Sprintf("v%d", len(g.vars)+1), Arg: a.Name, Type: a.Type}
		g.vars = append(g.vars, v)
		parts = append(parts, a.Name+": $"+v.Name)
	}
	if len(parts) == 0 {
		return ""
	}
	return "(" + strings.Join(parts, ", ") + ")"
}

func (g *opGen) fresh() string { g.nAlias++; return fmt.Sprintf("a%d", g.nAlias) }

func isLeafType(w *world, t *ast.Type) bool {
	d := w.schema.Types[t.Name()]
	return d == nil || d.Kind == ast.Scalar || d.Kind == ast.Enum
}

// selectable returns the allowed fields of def the mock can answer; leavesOnly restricts to
// scalar/enum results.
func (g *opGen) selectable(def *ast.Definition, leavesOnly bool) []*ast.FieldDefinition {
	var out []*ast.FieldDefinition
	for _, f := range g.w.allowed[def.Name] {
		if u := g.w.units[def.Name+"."+f.Name]; u != nil {
			if ok, finding := g.usable(u.Key); !ok && finding == "" {
				continue // the mock does not implement it / probe broken for an unrecorded reason
			}
			if g.skip != nil && g.skip(u.Key) {
				continue
			}
		}
		if leavesOnly && !isLeafType(g.w, f.Type) {
			continue
		}
		out = append(out, f)
	}
	return out
}

// steering: the generator avoids the class of a finding only while it is listed as known
// (recorded, unrepaired); once it is fixed the class is explored like everything else.
// C20_NO_STEER=1 switches all steering off (to try a candidate repair with an overlay).
func steering(finding string) bool {
	return os.Getenv("C20_NO_STEER") == "" && pbt.IsKnown(finding)
}

// steerAway reports (and counts) that the chosen field falls into a recorded finding class
// that depends only on which field is selected where; the selection is then skipped so that
// the search continues behind the finding (its directed probe keeps watching it).
func (g *opGen) steerAway(def *ast.Definition, f *ast.FieldDefinition, anc ancestry) bool {
	u := g.w.units[def.Name+"."+f.Name]
	if u == nil {
		return false
	}
	switch {
	case u.Kind == unitResolver && anc.nestedList && steering(findNestedListParent):
		g.excluded[findNestedListParent] = true
		return true
	case u.Kind == unitResolver && anc.abstract && steering(findResolverInUnion):
		g.excluded[findResolverInUnion] = true
		return true
	case u.Kind == unitResolver && anc.sinceResolver >= 1 && steering(findResolverInResolverResult):
		g.excluded[findResolverInResolverResult] = true
		return true
	}
	if ok, finding := g.usable(u.Key); !ok {
		if finding != "" {
			g.excluded[finding] = true
		}
		return true
	}
	return false
}

// used tracks response keys of one selection-set scope (including nested inline fragments):
// key -> field name + args.
type used map[string]string

func (g *opGen) selSet(def *ast.Definition, depth int, u used, anc ancestry) []*node {
	n := 1 + g.c.Int(4, "nsel")
	if depth == 0 {
		n = 1 + []int{0, 0, 1, 1, 2}[g.c.Int(5, "nroot")]
	}
	var out []*node
	for i := 0; i < n; i++ {
		if k := g.selection(def, depth, u, anc); k != nil {
			out = append(out, k)
		}
	}
	if len(out) == 0 {
		if def == g.w.schema.Query || def == g.w.schema.Mutation {
			// a root selection must fetch something
			fs := g.selectable(def, false)
			for try := 0; try < 4; try++ {
				f := fs[g.c.Int(len(fs), "rootfield")]
				if k := g.field(def, f, depth, u, anc); k != nil {
					return []*node{k}
				}
			}
		}
		if _, ok := u["__typename"]; !ok {
			u["__typename"] = "__typename"
			return []*node{{Name: "__typename"}}
		}
		return []*node{{Alias: g.fresh(), Name: "__typename"}}
	}
	return out
}

func (g *opGen) selection(def *ast.Definition, depth int, u used, anc ancestry) *node {
	root := def == g.w.schema.Query || def == g.w.schema.Mutation
	abstract := def.Kind == ast.Interface || def.Kind == ast.Union
	r := g.c.Int(20, "selkind")
	switch {
	case !root && r == 0, !root && abstract && r <= 3:
		if _, ok := u["__typename"]; ok {
			return nil
		}
		u["__typename"] = "__typename"
		return &node{Name: "__typename"}
	case abstract && (r <= 12 || def.Kind == ast.Union):
		pts := g.w.possible(def)
		pt := pts[g.c.Int(len(pts), "ptype")]
		kids := g.selSet(pt, depth, u, anc) // same depth and same key scope: a fragment does not nest the response
		return &node{Frag: true, On: pt.Name, Kids: kids, scope: pt.Name}
	}
	fs := g.selectable(def, depth >= g.maxDepth)
	if g.varMode && g.c.Int(2, "resolver?") == 0 {
		var rs []*ast.FieldDefinition
		for _, f := range fs {
			if u := g.w.units[def.Name+"."+f.Name]; u != nil && (u.Kind == unitResolver || (u.Kind == unitRoot && len(f.Arguments) > 0)) {
				rs = append(rs, f)
			}
		}
		if len(rs) > 0 {
			fs = rs
		}
	}
	if len(fs) == 0 {
		return nil
	}
	// bias towards units (resolvers, @requires, lookups) and composite fields
	f := fs[g.c.Int(len(fs), "field")]
	if g.w.units[def.Name+"."+f.Name] == nil && isLeafType(g.w, f.Type) && g.c.Int(3, "retry") == 0 {
		f = fs[g.c.Int(len(fs), "field2")]
	}
	return g.field(def, f, depth, u, anc)
}

func (g *opGen) field(def *ast.Definition, f *ast.FieldDefinition, depth int, u used, anc ancestry) *node {
	if g.steerAway(def, f, anc) {
		return nil
	}
	k := &node{Name: f.Name}
	if g.varMode {
		k.Args = g.varArgs(f)
	} else {
		k.Args = genArgs(g.c, g.w, f)
	}
	sig := k.Name + k.Args
	if prev, ok := u[f.Name]; ok {
		if prev == sig {
			return nil // already selected identically
		}
		k.Alias = g.fresh()
	} else if g.c.Int(8, "basealias") == 0 {
		k.Alias = g.fresh()
	}
	key := k.Alias
	if key == "" {
		key = k.Name
	}
	u[key] = sig
	if !isLeafType(g.w, f.Type) {
		rt := g.w.schema.Types[f.Type.Name()]
		k.scope = rt.Name
		k.Kids = g.selSet(rt, depth+1, used{}, anc.below(g.w, def, f))
	}
	return k
}

func genBase(t *rapid.T, w *world, usable func(string) (bool, string), maxDepth int, excluded map[string]bool) *opTree {
	g := &opGen{t: t, c: rapidChooser{t}, w: w, usable: usable, maxDepth: maxDepth, excluded: excluded}
	o := &opTree{}
	rootDef := w.schema.Query
	if w.schema.Mutation != nil && len(w.allowed[w.schema.Mutation.Name]) > 0 && rapid.IntRange(0, 11).Draw(t, "mutation") == 0 {
		rootDef, o.Mutation = w.schema.Mutation, true
	}
	o.rootType = rootDef.Name
	o.Roots = g.selSet(rootDef, 0, used{}, noAncestry())
	return o
}

// ---- reformulations ------------------------------------------------------------------------

type reformer struct {
	t      *rapid.T
	w      *world
	nAlias int
	nFrag  int
	o      *opTree
	kinds  map[string]bool
}

func (r *reformer) fresh() string { r.nAlias++; return fmt.Sprintf("x%d", r.nAlias) }

func (r *reformer) flip(p int, label string) bool {
	return rapid.IntRange(0, p-1).Draw(r.t, label) == 0
}

// sets visits every selection list of the operation (roots, field kids, fragment kids) with
// the name of the type it selects on.
func (r *reformer) sets(fn func(scope string, kids *[]*node)) {
	var rec func(scope string, kids *[]*node)
	rec = func(scope string, kids *[]*node) {
		fn(scope, kids)
		for _, k := range *kids {
			if len(k.Kids) > 0 {
				rec(k.scope, &k.Kids)
			}
		}
	}
	rec(r.o.rootType, &r.o.Roots)
	for _, f := range r.o.Frags {
		rec(f.On, &f.Kids)
	}
}

func isField(k *node) bool { return !k.Frag && k.Spread == "" }

func (r *reformer) alias() {
	r.sets(func(_ string, kids *[]*node) {
		for _, k := range *kids {
			if isField(k) && k.Alias == "" && r.flip(3, "alias?") {
				k.Alias = r.fresh()
				r.kinds["alias"] = true
			}
		}
	})
}

func (r *reformer) aliasDup() {
	r.sets(func(_ string, kids *[]*node) {
		var out []*node
		for _, k := range *kids {
			if isField(k) && r.flip(4, "aliasdup?") {
				c := k.clone()
				c.Alias = r.fresh()
				r.kinds["aliasdup"] = true
				if r.flip(2, "before?") {
					out = append(out, c, k)
				} else {
					out = append(out, k, c)
				}
				continue
			}
			out = append(out, k)
		}
		*kids = out
	})
}

func (r *reformer) reorder() {
	r.sets(func(_ string, kids *[]*node) {
		if len(*kids) > 1 && r.flip(2, "reorder?") {
			*kids = rapid.Permutation(*kids).Draw(r.t, "perm")
			r.kinds["reorder"] = true
		}
	})
}

func (r *reformer) dup() {
	r.sets(func(_ string, kids *[]*node) {
		var extra []*node
		for _, k := range *kids {
			if !isField(k) || !r.flip(4, "dup?") {
				continue
			}
			r.kinds["dup"] = true
			c := k.clone()
			if len(k.Kids) > 1 && r.flip(2, "split?") {
				// f { a b } -> f { a } f { b }: same response key, selections merge
				cut := rapid.IntRange(1, len(k.Kids)-1).Draw(r.t, "cut")
				c.Kids = c.Kids[cut:]
				k.Kids = k.Kids[:cut]
				r.kinds["dup-split"] = true
			}
			extra = append(extra, c)
		}
		for _, c := range extra {
			at := rapid.IntRange(0, len(*kids)).Draw(r.t, "dupat")
			*kids = append((*kids)[:at:at], append([]*node{c}, (*kids)[at:]...)...)
		}
	})
}

// pick removes a random non-empty sub-list of kids (keeping order) and returns it with the
// index where it started.
func (r *reformer) pick(kids *[]*node) ([]*node, int) {
	n := len(*kids)
	from := rapid.IntRange(0, n-1).Draw(r.t, "from")
	to := rapid.IntRange(from+1, n).Draw(r.t, "to")
	picked := append([]*node{}, (*kids)[from:to]...)
	*kids = append((*kids)[:from:from], (*kids)[to:]...)
	return picked, from
}

func insertAt(kids *[]*node, at int, k *node) {
	*kids = append((*kids)[:at:at], append([]*node{k}, (*kids)[at:]...)...)
}

func (r *reformer) inlineFrag() {
	r.sets(func(scope string, kids *[]*node) {
		if len(*kids) == 0 || !r.flip(3, "inline?") {
			return
		}
		picked, at := r.pick(kids)
		on := scope
		if r.flip(4, "nocond?") {
			on = ""
		}
		insertAt(kids, at, &node{Frag: true, On: on, Kids: picked, scope: scope})
		r.kinds["inline-fragment"] = true
	})
}

func (r *reformer) namedFrag() {
	var defs []*fragDef
	r.sets(func(scope string, kids *[]*node) {
		if len(*kids) == 0 || !r.flip(3, "named?") {
			return
		}
		picked, at := r.pick(kids)
		r.nFrag++
		name := fmt.Sprintf("F%d", r.nFrag)
		defs = append(defs, &fragDef{Name: name, On: scope, Kids: picked})
		insertAt(kids, at, &node{Spread: name})
		r.kinds["named-fragment"] = true
	})
	r.o.Frags = append(r.o.Frags, defs...)
}

func (r *reformer) subset() {
	r.sets(func(_ string, kids *[]*node) {
		if len(*kids) < 2 {
			return
		}
		var out []*node
		for _, k := range *kids {
			if r.flip(3, "drop?") {
				r.kinds["subset"] = true
				continue
			}
			out = append(out, k)
		}
		if len(out) == 0 {
			out = (*kids)[:1]
		}
		*kids = out
	})
}

func reformulate(t *rapid.T, w *world, base *opTree) (*opTree, string) {
	r := &reformer{t: t, w: w, o: base.clone(), kinds: map[string]bool{}}
	steps := []func(){r.alias, r.aliasDup, r.reorder, r.dup, r.inlineFrag, r.namedFrag, r.subset}
	n := rapid.IntRange(1, 3).Draw(t, "nsteps")
	for i := 0; i < n; i++ {
		steps[rapid.IntRange(0, len(steps)-1).Draw(t, "step")]()
	}
	if len(r.kinds) == 0 {
		// nothing fired: force one visible change
		r.aliasDupForced()
	}
	ks := make([]string, 0, len(r.kinds))
	for k := range r.kinds {
		ks = append(ks, k)
	}
	sort.Strings(ks)
	return r.o, strings.Join(ks, "+")
}

func (r *reformer) aliasDupForced() {
	done := false
	r.sets(func(_ string, kids *[]*node) {
		if done {
			return
		}
		for i, k := range *kids {
			if isField(k) {
				c := k.clone()
				c.Alias = r.fresh()
				insertAt(kids, i, c)
				r.kinds["aliasdup"] = true
				done = true
				return
			}
		}
	})
}
