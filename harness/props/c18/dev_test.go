package c18

import (
	"fmt"
	"testing"
	"time"

	"pgregory.net/rapid"
)

func TestDevTiming(t *testing.T) {
	for _, mode := range []string{"stepped", "burst"} {
		buckets := map[string]time.Duration{}
		counts := map[string]int{}
		var worst time.Duration
		var worstCase string
		for seed := 0; seed < 200; seed++ {
			var c Case
			if mode == "stepped" {
				c = rapid.Custom(genStepped).Example(seed)
			} else {
				c = rapid.Custom(genBurst).Example(seed)
			}
			t0 := time.Now()
			o := run(c)
			d := time.Since(t0)
			on := false
			for _, s := range c.Subs {
				on = on || s.On != nil
			}
			chain := false
			for _, s := range c.Steps {
				chain = chain || s.Op == "abandon"
			}
			key := fmt.Sprintf("on=%v chain=%v aid=%d", on, chain, len(o.aidExpired))
			buckets[key] += d
			counts[key]++
			if d > worst {
				worst, worstCase = d, c.key()
			}
		}
		fmt.Println(mode, "worst", worst, worstCase)
		for k, v := range buckets {
			fmt.Println("   ", k, counts[k], v/time.Duration(counts[k]))
		}
	}
}
