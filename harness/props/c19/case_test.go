package c19

import (
	"encoding/json"
	"fmt"
	"strconv"
)

// ---- case data (plain JSON) -------------------------------------------------------------

// Script is what the fake executor created for one subscribe/start message does.
type Script struct {
	Op string `json:"op"` // query | mutation | subscription
	// N is the number of results a subscription emits (each one flushed); a query or
	// mutation always writes exactly one result document.
	N int `json:"n"`
	// End: ok (Execute returns nil), error (Execute returns an error), hold (subscription
	// only: block until the operation context is cancelled, then return nil - what the real
	// engine does).
	End string `json:"end"`
	// Gate: -1 none. Otherwise the executor parks before emitting result #Gate (Gate == N:
	// after all results, before End) until the case releases it.
	Gate int `json:"gate"`
	// OnCancel says what a parked executor does when its context is cancelled: ignore (keeps
	// waiting for the release: in-flight work that cannot be interrupted), return (returns
	// nil), error (returns the context error).
	OnCancel string `json:"oncancel,omitempty"`
	// Rel: the gate is released after client message #Rel has been handled; -1: only at
	// cleanup, after Handle returned.
	Rel int `json:"rel"`
}

// Msg is one element of the client sequence.
type Msg struct {
	K  string  `json:"k"` // init sub complete ping pong terminate unknown nonjson shape srvtype empty tick
	ID string  `json:"id,omitempty"`
	V  int     `json:"v,omitempty"` // variant (payload / malformed-ness flavour)
	X  *Script `json:"x,omitempty"`
	// Refuse: the operation text carries the marker the before-start hook refuses (only
	// meaningful for a subscribe with a usable payload in a case that configures the hook).
	Refuse bool `json:"refuse,omitempty"`
}

// Case is one generated history: a protocol, a client message sequence and executor scripts.
type Case struct {
	Proto     string `json:"proto"`                // tws (graphql-transport-ws) | gws (graphql-ws)
	TimeoutMs int    `json:"timeout_ms,omitempty"` // init-timeout part only: CustomInitTimeOutDuration
	// Hook: the engine behind the executor pool has a WebsocketBeforeStartHook configured; it
	// refuses every operation whose text contains hookMarker.
	Hook bool  `json:"hook,omitempty"`
	Msgs []Msg `json:"msgs"`
}

func (c Case) key() string { b, _ := json.Marshal(c); return string(b) }

const (
	protoTWS = "tws"
	protoGWS = "gws"
)

// ---- wire encoding ----------------------------------------------------------------------

var (
	initPayloads = []string{"", `{"a":1}`, `null`, `{"reject":true}`}
	nonJSON      = []string{`{"type":`, `nope`, `{"type":"ping"}}`, "\xff\xfe", `{'type':'ping'}`, `{"type":"connection_init"`}
	unknownTWS   = []string{`{"type":"bogus"}`, `{"id":"1","type":"start","payload":{"query":"{ x }"}}`, `{"id":"1","type":"stop"}`, `{"type":"CONNECTION_INIT"}`, `{"type":"Subscribe","id":"2"}`, `{"type":"ka"}`}
	unknownGWS   = []string{`{"type":"bogus"}`, `{"id":"1","type":"subscribe","payload":{"query":"{ x }"}}`, `{"type":"ping"}`, `{"type":"START","id":"1"}`, `{"type":"pong"}`, `{"id":"2","type":"next"}`}
	// wrong JSON shape: the reference accepts "ignored" as well as "closed with 4400"
	shapes = []string{`[1,2]`, `"str"`, `123`, `{"id":5,"type":"%s"}`, `{"type":5}`, `null`, `{}`, `{"type":null}`, `true`, `{"id":["1"],"type":"%s","payload":{"query":"{ x }"}}`, `{"type":{"a":1}}`}
	// message types only the SERVER may send, as well-formed client messages (complete is
	// bidirectional under graphql-transport-ws; under graphql-ws the client's word is stop)
	srvTypeTWS = []string{"next", "connection_ack", "error"}
	srvTypeGWS = []string{"data", "connection_ack", "error", "complete", "ka", "connection_error"}
)

func pick(xs []string, v int) string {
	if v < 0 {
		v = -v
	}
	return xs[v%len(xs)]
}

func subType(proto string) string {
	if proto == protoGWS {
		return "start"
	}
	return "subscribe"
}

func completeType(proto string) string {
	if proto == protoGWS {
		return "stop"
	}
	return "complete"
}

// queryText is the operation text of message i; the marker m<i> is only for readability of
// histories (the fake pool attributes by "message currently being handled").
func queryText(i int, m Msg) string {
	op := "query"
	if m.X != nil {
		op = m.X.Op
	}
	if m.Refuse {
		return fmt.Sprintf("%s { m%d %s }", op, i, hookMarker)
	}
	return fmt.Sprintf("%s { m%d }", op, i)
}

const (
	hookMarker = "hookRefuse"
	// hookErrText / hookErrPayload: what the hook answers and how both protocols put it on the
	// wire (type "error", the id, and this payload) - pinned on the unchanged tree.
	hookErrText    = "refused by before-start hook"
	hookErrPayload = `[{"message":"` + hookErrText + `"}]`
)

// hookRefused: the configured before-start hook refuses the operation of this message.
func hookRefused(c Case, m Msg) bool {
	return c.Hook && m.K == "sub" && m.Refuse && (m.V == 0 || m.V == 5)
}

// subPayloadValid reports whether the subscribe variant carries a payload the executor pool
// accepts (a JSON object whose "query" is a string).
func subPayloadValid(v int) bool { return v == 0 || v == 4 || v == 5 }

// effectiveScript is the script the fake pool will use for message i (variant 4 has no
// query at all: like the real engine the pool hands out an executor whose execution fails).
func effectiveScript(m Msg) Script {
	if m.V == 4 || m.X == nil {
		return Script{Op: "query", End: "error", Gate: -1, Rel: -1}
	}
	return *m.X
}

func wire(proto string, i int, m Msg) []byte {
	q := func(s string) string { return strconv.Quote(s) }
	switch m.K {
	case "init":
		p := pick(initPayloads, m.V)
		if p == "" {
			return []byte(`{"type":"connection_init"}`)
		}
		return []byte(`{"type":"connection_init","payload":` + p + `}`)
	case "sub":
		head := `{"id":` + q(m.ID) + `,"type":"` + subType(proto) + `"`
		switch m.V {
		case 1:
			return []byte(head + `}`)
		case 2:
			return []byte(head + `,"payload":"str"}`)
		case 3:
			return []byte(head + `,"payload":{"query":5}}`)
		case 4:
			return []byte(head + `,"payload":{}}`)
		case 5:
			return []byte(head + `,"payload":{"operationName":"","query":` + q(queryText(i, m)) + `,"variables":{"a":[1,2]},"extensions":{"e":1}}}`)
		default:
			return []byte(head + `,"payload":{"query":` + q(queryText(i, m)) + `}}`)
		}
	case "complete":
		return []byte(`{"id":` + q(m.ID) + `,"type":"` + completeType(proto) + `"}`)
	case "ping":
		if m.V%2 == 1 {
			return []byte(`{"type":"ping","payload":{"p":1}}`)
		}
		return []byte(`{"type":"ping"}`)
	case "pong":
		return []byte(`{"type":"pong"}`)
	case "terminate":
		return []byte(`{"type":"connection_terminate"}`)
	case "unknown":
		if proto == protoGWS {
			return []byte(pick(unknownGWS, m.V))
		}
		return []byte(pick(unknownTWS, m.V))
	case "nonjson":
		return []byte(pick(nonJSON, m.V))
	case "shape":
		s := pick(shapes, m.V)
		if n := countVerbs(s); n > 0 {
			return []byte(fmt.Sprintf(s, subType(proto)))
		}
		return []byte(s)
	case "srvtype":
		typ, shape := srvType(proto, m.V)
		switch shape {
		case 1:
			return []byte(`{"id":` + q(m.ID) + `,"type":"` + typ + `"}`)
		case 2:
			return []byte(`{"id":` + q(m.ID) + `,"type":"` + typ + `","payload":` + srvPayload(typ) + `}`)
		}
		return []byte(`{"type":"` + typ + `"}`)
	case "empty":
		return []byte{}
	}
	return []byte(`{"type":"bogus"}`)
}

// srvType: variant v of a "srvtype" message selects the server-only type and the shape
// (0 bare, 1 with the message's id, 2 with id and a payload of the type's usual form).
func srvType(proto string, v int) (typ string, shape int) {
	if v < 0 {
		v = -v
	}
	list := srvTypeTWS
	if proto == protoGWS {
		list = srvTypeGWS
	}
	return list[v%len(list)], (v / len(list)) % 3
}

func srvPayload(typ string) string {
	switch typ {
	case "next", "data":
		return `{"data":null}`
	case "error":
		return `[{"message":"x"}]`
	case "connection_error":
		return `"x"`
	}
	return `{}`
}

// wireType is the "type" of a well-formed client message ("" if there is none).
func wireType(raw []byte) string {
	var mm struct {
		Type string `json:"type"`
	}
	_ = json.Unmarshal(raw, &mm)
	return mm.Type
}

func countVerbs(s string) int {
	n := 0
	for i := 0; i+1 < len(s); i++ {
		if s[i] == '%' && s[i+1] == 's' {
			n++
		}
	}
	return n
}

// sem is what a client message means to the reference state machine of the protocol.
type sem int

const (
	semInit sem = iota
	semSub
	semComplete
	semPing      // tws only
	semPong      // tws only
	semTerminate // gws only
	semUnknown   // message type the protocol does not define
	semNonJSON
	semEither  // wrong JSON shape: ignoring it and closing with 4400 are both accepted
	semSrvType // well-formed message of a type only the server may send: an invalid message
	semEmpty
	semTick
)

func classify(proto string, m Msg) sem {
	switch m.K {
	case "init":
		return semInit
	case "sub":
		return semSub
	case "complete":
		return semComplete
	case "ping":
		if proto == protoGWS {
			return semUnknown
		}
		return semPing
	case "pong":
		if proto == protoGWS {
			return semUnknown
		}
		return semPong
	case "terminate":
		if proto == protoTWS {
			return semUnknown
		}
		return semTerminate
	case "unknown":
		return semUnknown
	case "nonjson":
		return semNonJSON
	case "shape":
		return semEither
	case "srvtype":
		return semSrvType
	case "empty":
		return semEmpty
	case "tick":
		return semTick
	}
	return semUnknown
}

func initRejected(m Msg) bool { return pick(initPayloads, m.V) == `{"reject":true}` }
