package c15

import (
	"strings"

	ir "verif/harness/internal/inputref"
	"verif/harness/pbt"
)

// Known findings (see FINDINGS.json).
const (
	fIntMin = "C15-int-min-literal-rejected"
)

const intMin = "-2147483648"

type recogniser struct {
	id    string
	where []string // which failure sites it may explain
	match func(c *Case, vars *ir.Value, lits map[string]*ir.Value, msg string) bool
}

var recognisers = []recogniser{
	{fIntMin, []string{"rejected"}, func(c *Case, _ *ir.Value, _ map[string]*ir.Value, msg string) bool {
		return strings.Contains(msg, "Int cannot represent non 32-bit signed integer value: "+intMin) && strings.Contains(c.Query, intMin)
	}},
}

// known attributes a violation to a recorded finding when a narrow recogniser matches.
func known(c *Case, vars *ir.Value, lits map[string]*ir.Value, where string, v pbt.Verdict) pbt.Verdict {
	for _, r := range recognisers {
		for _, w := range r.where {
			if w == where && r.match(c, vars, lits, v.Msg) {
				return pbt.BadKnown(r.id, "%s", v.Msg)
			}
		}
	}
	return v
}
