package c20

import (
	"fmt"
	"sort"
	"strings"
	"sync"

	"github.com/vektah/gqlparser/v2/ast"
)

// Per-run pre-pass (DESIGN §4 C20): every unit (root field, field resolver, @requires field,
// entity-lookup field) is executed alone — below a shortest path of already-stable units —
// stabilityRuns times. Any variation of the response excludes the unit from the consistency
// oracle; a unit whose RPC the mock service does not implement is excluded from generation.
const stabilityRuns = 8

type unitState struct {
	Status  string // stable | unstable | unavailable (mock lacks the RPC) | broken (solo probe fails) | unreached
	Why     string
	Probe   string
	Finding string // broken: the recorded finding the failure is attributed to, if any
}

type step struct {
	field *ast.FieldDefinition
	on    string // inline fragment needed below this field ("" if the result type is an object)
}

// argument variants tried for a probe until the unit's own RPC is actually issued (a path
// argument may make a parent null, e.g. recommendedCategory(maxPrice: 1))
const probeVariants = 4

var (
	statesMu sync.Mutex
	statesBy = map[string]map[string]*unitState{}
)

func unitStates(rigName string) (map[string]*unitState, error) {
	statesMu.Lock()
	defer statesMu.Unlock()
	// always plain first: RPCs found unimplemented there are not probed through a null parent
	// in the federated rig
	for _, name := range []string{"plain", rigName} {
		if _, ok := statesBy[name]; ok {
			continue
		}
		w, err := worldByName(name)
		if err != nil {
			return nil, err
		}
		g, err := rigByName(name)
		if err != nil {
			return nil, err
		}
		statesBy[name] = computeStates(w, g)
	}
	return statesBy[rigName], nil
}

func leafSelection(w *world, def *ast.Definition) string {
	obj := func(d *ast.Definition) string {
		var parts []string
		for _, f := range w.allowed[d.Name] {
			if w.units[d.Name+"."+f.Name] == nil && isLeafType(w, f.Type) {
				parts = append(parts, f.Name)
			}
		}
		return strings.Join(parts, " ")
	}
	if def.Kind == ast.Object {
		if s := obj(def); s != "" {
			return "{ " + s + " }"
		}
		return "{ __typename }"
	}
	var b strings.Builder
	b.WriteString("{ __typename")
	for _, pt := range w.possible(def) {
		if s := obj(pt); s != "" {
			b.WriteString(" ... on " + pt.Name + " { " + s + " }")
		}
	}
	b.WriteString(" }")
	return b.String()
}

func probeText(w *world, mutation bool, path []step, f *ast.FieldDefinition, c chooser) string {
	inner := f.Name + genArgs(c, w, f)
	if !isLeafType(w, f.Type) {
		inner += " " + leafSelection(w, w.schema.Types[f.Type.Name()])
	}
	for i := len(path) - 1; i >= 0; i-- {
		s := path[i]
		if s.on != "" {
			inner = "... on " + s.on + " { " + inner + " }"
		}
		inner = s.field.Name + genArgs(c, w, s.field) + " { " + inner + " }"
	}
	if mutation {
		return "mutation { " + inner + " }"
	}
	return "{ " + inner + " }"
}

// unavailableRPCs: RPCs the mock answered Unimplemented in any rig (the mock is the same).
var unavailableRPCs = map[string]bool{}

func probeUnit(w *world, g *rig, u *unit, mutation bool, path []step) *unitState {
	if u != nil && unavailableRPCs[u.RPC] {
		return &unitState{Status: "unavailable", Why: "mock service does not implement the RPC (seen in the other rig)"}
	}
	var last *unitState
	for k := 0; k < probeVariants; k++ {
		text := probeText(w, mutation, path, u.Def, fixedChooser{k})
		st, issued := probeOnce(w, g, u, text)
		if st.Status == "unavailable" && u.RPC != "" {
			unavailableRPCs[u.RPC] = true
		}
		if issued || st.Status == "unavailable" || st.Status == "broken" {
			return st
		}
		if last == nil {
			last = st
		}
	}
	// the unit's RPC was never issued (its parent is null for every argument variant tried):
	// nothing is known about it
	last.Status, last.Why = "unreached", "the probe never issued "+u.RPC
	return last
}

func probeOnce(w *world, g *rig, u *unit, text string) (*unitState, bool) {
	st := &unitState{Status: "stable", Probe: text}
	p, err := parseOp(w, text)
	if err != nil {
		return &unitState{Status: "broken", Why: "probe is not a valid operation: " + err.Error(), Probe: text}, false
	}
	first := ""
	issued := u.RPC == ""
	for i := 0; i < stabilityRuns; i++ {
		out, f := runOne(g, w, p, func(string) bool { return false }, "q")
		if strings.Contains(out.res.Body, "code = Unimplemented") {
			return &unitState{Status: "unavailable", Why: "mock service does not implement the RPC", Probe: text}, true
		}
		if f != nil {
			return &unitState{Status: "broken", Why: clip(f.msg), Probe: text, Finding: recognise(w, p, nil, *f)}, true
		}
		if contains(out.res.RPCs, u.RPC) {
			issued = true
		}
		if i == 0 {
			first = out.res.Body
			if !issued {
				return st, false // try another argument variant
			}
		} else if out.res.Body != first && st.Status == "stable" {
			st.Status, st.Why = "unstable", fmt.Sprintf("run %d differs from run 0", i)
		}
	}
	return st, issued
}

func computeStates(w *world, g *rig) map[string]*unitState {
	states := map[string]*unitState{}
	reach := map[string][]step{}
	var queue []*ast.Definition
	reach[w.schema.Query.Name] = nil
	queue = append(queue, w.schema.Query)
	if w.schema.Mutation != nil {
		for _, f := range w.allowed[w.schema.Mutation.Name] {
			key := w.schema.Mutation.Name + "." + f.Name
			states[key] = probeUnit(w, g, w.units[key], true, nil)
		}
	}
	for len(queue) > 0 {
		def := queue[0]
		queue = queue[1:]
		path := reach[def.Name]
		for _, f := range w.allowed[def.Name] {
			key := def.Name + "." + f.Name
			if u := w.units[key]; u != nil {
				if _, done := states[key]; !done {
					states[key] = probeUnit(w, g, u, false, path)
				}
				if states[key].Status != "stable" {
					continue
				}
			}
			if isLeafType(w, f.Type) {
				continue
			}
			rt := w.schema.Types[f.Type.Name()]
			for _, pt := range w.possible(rt) {
				if _, ok := reach[pt.Name]; ok {
					continue
				}
				on := ""
				if rt.Kind != ast.Object {
					on = pt.Name
				}
				reach[pt.Name] = append(append([]step{}, path...), step{field: f, on: on})
				queue = append(queue, pt)
			}
		}
	}
	for _, k := range w.sortedUnitKeys() {
		if _, ok := states[k]; !ok {
			states[k] = &unitState{Status: "unreached", Why: "parent type not reachable through stable units"}
		}
	}
	return states
}

func statesSummary(states map[string]*unitState) map[string][]string {
	out := map[string][]string{}
	ks := make([]string, 0, len(states))
	for k := range states {
		ks = append(ks, k)
	}
	sort.Strings(ks)
	for _, k := range ks {
		out[states[k].Status] = append(out[states[k].Status], k)
	}
	return out
}
