package c06

import (
	"fmt"
	"testing"

	"github.com/wundergraph/graphql-go-tools/v2/pkg/astprinter"

	ir "verif/harness/internal/inputref"
)

func TestDbg(t *testing.T) {
	s := &ir.Schema{Echoes: []ir.Echo{{Name: "f0", Arg: ir.Field{Name: "v", Type: "[Int]"}}, {Name: "f1", Arg: ir.Field{Name: "v", Type: "[[Int]]"}}}}
	rig, err := ir.NewRig(s)
	if err != nil {
		t.Fatal(err)
	}
	for _, c := range [][2]string{
		{`query($v0: Int!, $v1: [Int!] = null) { r0: f0(v: [$v0]) r1: f1(v: [$v1]) }`, `{"undeclared":1}`},
		{`query($v0: Int!, $v1: [Int!] = null) { r0: f0(v: [$v0]) r1: f1(v: [$v1]) }`, `{"v0":1}`},
		{`query($v1: [Int!] = null) { r1: f1(v: [$v1]) }`, `{}`},
		{`query($v1: [Int!] = null) { r1: f1(v: $v1) }`, `{}`},
	} {
		adm := rig.Admit(c[0], []byte(c[1]), "")
		op, _ := astprinter.PrintString(adm.Request.Document())
		fmt.Printf("Q %s VARS %s\n  stage=%q err=%v\n  op=%s\n  vars=%s\n  remap=%v\n", c[0], c[1], adm.Stage, adm.Err, op, adm.Request.Variables, adm.Remap)
		e, _ := rig.ValidateVariables(adm, false)
		fmt.Printf("  validate: %v\n", e)
		res := rig.Execute(c[0], []byte(c[1]), "")
		fmt.Printf("  execute: %v up=%d\n", res.Err, len(res.Upstream))
		for _, u := range res.Upstream {
			fmt.Println("   UP", u.Body)
		}
	}
}
