package c09

import (
	"encoding/json"
	"fmt"
	"os"
	"regexp"
	"strconv"
	"sync"
	"time"

	"verif/harness/internal/fedgen"
	"verif/harness/internal/kit"
	"verif/harness/internal/opgen"
	"verif/harness/internal/sim"
	"verif/harness/pbt"
)

const fScheduledTwin = "C09-scheduled-twin-fetch-runs-before-sibling-producer"

var fetchIDRe = regexp.MustCompile(`^(?:query|mutation) \w*__s\d+__(\d+)\b`)

// probeScheduledTwin demonstrates the finding deterministically: under DAG scheduling the
// plan of the saved operation is Seq(0 1 Par(Seq(2 4) Seq(3 5))) where 2/3 fetch f5 for the
// two mirrored branches and 4/5 are the @requires fetches; 4 and 5 work on the same response
// path without type conditions. The transport holds request 3 until request 4 has been sent
// (4 then also carries the entities of the other branch, with "f5":null) and holds 4's answer
// until 5 has returned (so the value computed from null is merged last).
func probeScheduledTwin() string {
	raw, err := os.ReadFile("known/scheduled-twin.json")
	if err != nil {
		return ""
	}
	var c struct {
		Layout *fedgen.Layout `json:"layout"`
		Seed   uint64         `json:"seed"`
		Query  string         `json:"query"`
	}
	if json.Unmarshal(raw, &c) != nil {
		return ""
	}
	w, err := sim.NewWorld(c.Layout, c.Seed)
	if err != nil {
		return ""
	}
	op := opgen.Op{Query: c.Query}
	plain, err := kit.NewOnWorld(w, kit.EngineOptions{})
	if err != nil {
		return ""
	}
	want := exec(plain, op)
	plain.Close()
	gw, err := kit.NewOnWorld(w, kit.EngineOptions{ScheduleFetches: true, PropagateOpName: true})
	if err != nil {
		return ""
	}
	defer gw.Close()
	var mu sync.Mutex
	sent := map[int]bool{}
	returned := map[int]bool{}
	waitFor := func(m map[int]bool, id int) {
		for i := 0; i < 400; i++ {
			mu.Lock()
			ok := m[id]
			mu.Unlock()
			if ok {
				return
			}
			time.Sleep(5 * time.Millisecond)
		}
	}
	gw.Transport.Intercept = func(r *sim.Request, answer []byte) *sim.Response {
		id := -1
		if m := fetchIDRe.FindStringSubmatch(r.Query); m != nil {
			id, _ = strconv.Atoi(m[1])
		}
		if os.Getenv("C09_DBG") != "" {
			fmt.Println("REQ", id, r.Subgraph, r.Body)
		}
		mu.Lock()
		sent[id] = true
		mu.Unlock()
		switch id {
		case 3:
			waitFor(sent, 4)
		case 4:
			waitFor(returned, 5)
			time.Sleep(30 * time.Millisecond)
		}
		mu.Lock()
		returned[id] = true
		mu.Unlock()
		return nil
	}
	got := exec(gw, op)
	gw.Transport.Intercept = nil
	if got.bad == "" && want.bad == "" && got.data != want.data {
		return fmt.Sprintf("with DAG scheduling and the @requires fetch of one mirrored branch released before the other branch's producer returned, the response differs: got %s, default engine %s [q = %s]", got.data, want.data, c.Query)
	}
	return ""
}

func findingProbes() pbt.Probes {
	return pbt.Probes{fScheduledTwin: {Input: map[string]string{"case": "known/scheduled-twin.json"}, Fn: probeScheduledTwin}}
}
