package c19

import (
	"fmt"
	"strings"
)

// acceptorSelfTest feeds the acceptor hand-written histories that violate one clause each
// and demands that every one is rejected (and that the clean ones are accepted). It guards
// against an acceptor that has silently become vacuous.
func acceptorSelfTest() string {
	q := Script{Op: "query", End: "ok", Gate: -1, Rel: -1}
	s := Script{Op: "subscription", N: 1, End: "hold", Gate: -1, Rel: -1}
	type tc struct {
		name    string
		c       Case
		h       []event
		reject  string // substring of the expected violation; "" = must be accepted
		finding string // if set: the recogniser verdict the first violation must carry
	}
	R := func(m int, id string) event { return event{K: evR, M: m, ID: id} }
	W := func(typ, id, payload string) event { return event{K: evW, M: -1, Type: typ, ID: id, Payload: payload} }
	C := func(code int) event { return event{K: evC, M: -1, Code: code} }
	X := func(k string, m int) event { return event{K: k, M: m} }
	XE := func(m, n int) event { return event{K: evXE, M: m, N: n, Payload: resultDoc(m, n)} }
	RQ := event{K: evRQ, M: -1}
	EOF := event{K: evEOF, M: -1}
	ack := W("connection_ack", "", "")
	initSubQ := Case{Proto: protoTWS, Msgs: []Msg{{K: "init"}, sub("1", q)}}
	initSubS := Case{Proto: protoTWS, Msgs: []Msg{{K: "init"}, sub("1", s), {K: "complete", ID: "1"}}}
	hookCase := Case{Proto: protoTWS, Hook: true, Msgs: []Msg{{K: "init"}, {K: "sub", ID: "1", X: &q, Refuse: true}, sub("1", q)}}
	okQ := []event{RQ, R(0, ""), ack, RQ, R(1, "1"), RQ, X(evXGET, 1), X(evXS, 1), XE(1, 0), X(evXR, 1), W("next", "1", resultDoc(1, 0)), W("complete", "1", ""), X(evXP, 1), EOF}
	cases := []tc{
		{"clean query", initSubQ, okQ, "", ""},
		{"clean subscription with client complete", initSubS, []event{RQ, R(0, ""), ack, RQ, R(1, "1"), RQ, X(evXS, 1), XE(1, 0), W("next", "1", resultDoc(1, 0)), X(evXHOLD, 1), R(2, "1"), W("complete", "1", ""), RQ, X(evXR, 1), X(evXP, 1), EOF}, "", ""},
		{"missing terminal", initSubQ, []event{RQ, R(0, ""), ack, RQ, R(1, "1"), RQ, X(evXS, 1), XE(1, 0), X(evXR, 1), W("next", "1", resultDoc(1, 0)), X(evXP, 1), EOF}, "never got a terminal", ""},
		{"missing data", initSubQ, []event{RQ, R(0, ""), ack, RQ, R(1, "1"), RQ, X(evXS, 1), XE(1, 0), X(evXR, 1), W("complete", "1", ""), X(evXP, 1), EOF}, "never delivered", ""},
		{"two terminals", initSubQ, append(append([]event{}, okQ[:12]...), W("complete", "1", ""), X(evXP, 1), EOF), "second terminal", ""},
		{"next after terminal", initSubQ, append(append([]event{}, okQ[:12]...), W("next", "1", resultDoc(1, 1)), X(evXP, 1), EOF), "after the server's", ""},
		{"wrong payload", initSubQ, []event{RQ, R(0, ""), ack, RQ, R(1, "1"), RQ, X(evXS, 1), XE(1, 0), X(evXR, 1), W("next", "1", resultDoc(1, 1)), W("complete", "1", ""), X(evXP, 1), EOF}, "payload", ""},
		{"result of an unknown executor", initSubQ, []event{RQ, R(0, ""), ack, RQ, R(1, "1"), RQ, X(evXS, 1), XE(1, 0), X(evXR, 1), W("next", "1", resultDoc(7, 0)), W("complete", "1", ""), X(evXP, 1), EOF}, "no started operation", ""},
		{"untagged payload", initSubQ, []event{RQ, R(0, ""), ack, RQ, R(1, "1"), RQ, X(evXS, 1), XE(1, 0), X(evXR, 1), W("next", "1", `{"data":null}`), W("complete", "1", ""), X(evXP, 1), EOF}, "payload", ""},
		{"next for foreign id", initSubQ, []event{RQ, R(0, ""), ack, RQ, R(1, "1"), RQ, X(evXS, 1), XE(1, 0), X(evXR, 1), W("next", "2", resultDoc(1, 0)), W("next", "1", resultDoc(1, 0)), W("complete", "1", ""), X(evXP, 1), EOF}, "is output of the operation", ""},
		{"error for never-started id", initSubQ, []event{RQ, R(0, ""), ack, RQ, W("error", "2", "[]"), EOF}, "no operation was started", ""},
		{"no ack", initSubQ, []event{RQ, R(0, ""), RQ, EOF}, "exactly one connection_ack", ""},
		{"two acks", initSubQ, []event{RQ, R(0, ""), ack, ack, RQ, EOF}, "connection_ack", ""},
		{"ack plus junk", initSubQ, []event{RQ, R(0, ""), ack, W("hello", "", ""), RQ, EOF}, "connection_ack only", ""},
		{"sub before init runs", Case{Proto: protoTWS, Msgs: []Msg{sub("1", q)}}, []event{RQ, R(0, "1"), RQ, X(evXS, 0), XE(0, 0), X(evXR, 0), W("next", "1", resultDoc(0, 0)), W("complete", "1", ""), X(evXP, 0), EOF}, "4401", ""},
		{"sub before init wrong code", Case{Proto: protoTWS, Msgs: []Msg{sub("1", q)}}, []event{RQ, R(0, "1"), C(4400)}, "must close with 4401", ""},
		{"second init tolerated", Case{Proto: protoTWS, Msgs: []Msg{{K: "init"}, {K: "init"}}}, []event{RQ, R(0, ""), ack, RQ, R(1, ""), RQ, EOF}, "4429", ""},
		{"unknown type tolerated", Case{Proto: protoTWS, Msgs: []Msg{{K: "init"}, {K: "unknown"}}}, []event{RQ, R(0, ""), ack, RQ, R(1, ""), RQ, EOF}, "4400", ""},
		{"non-json tolerated", Case{Proto: protoTWS, Msgs: []Msg{{K: "nonjson"}}}, []event{RQ, R(0, ""), RQ, EOF}, "4400", ""},
		{"duplicate id tolerated", Case{Proto: protoTWS, Msgs: []Msg{{K: "init"}, sub("1", s), sub("1", q)}}, []event{RQ, R(0, ""), ack, RQ, R(1, "1"), RQ, X(evXS, 1), XE(1, 0), W("next", "1", resultDoc(1, 0)), X(evXHOLD, 1), R(2, "1"), RQ, EOF}, "4409", ""},
		{"close out of the blue", initSubQ, []event{RQ, R(0, ""), ack, RQ, C(4400)}, "no client message was being handled", ""},
		{"close for ping", Case{Proto: protoTWS, Msgs: []Msg{{K: "init"}, {K: "ping"}}}, []event{RQ, R(0, ""), ack, RQ, R(1, ""), C(4400)}, "does not justify a close", ""},
		{"foreign message type", initSubQ, []event{RQ, R(0, ""), ack, RQ, W("ka", "", ""), EOF}, "not a server message", ""},
		{"accepted subscribe dropped", initSubQ, []event{RQ, R(0, ""), ack, RQ, R(1, "1"), RQ, EOF}, "no operation ever started", ""},
		{"gws clean", Case{Proto: protoGWS, Msgs: []Msg{{K: "init"}, sub("1", q)}}, []event{RQ, R(0, ""), ack, RQ, R(1, "1"), RQ, X(evXS, 1), XE(1, 0), X(evXR, 1), W("data", "1", resultDoc(1, 0)), W("complete", "1", ""), X(evXP, 1), EOF}, "", ""},
		{"gws transport-ws type", Case{Proto: protoGWS, Msgs: []Msg{{K: "init"}, sub("1", q)}}, []event{RQ, R(0, ""), ack, RQ, R(1, "1"), RQ, X(evXS, 1), XE(1, 0), X(evXR, 1), W("next", "1", resultDoc(1, 0)), W("complete", "1", ""), X(evXP, 1), EOF}, "not a server message", ""},
		{"hook refusal, id re-used (clean)", hookCase, []event{RQ, R(0, ""), ack, RQ, R(1, "1"), W("error", "1", hookErrPayload), RQ, R(2, "1"), RQ, X(evXS, 2), XE(2, 0), X(evXR, 2), W("next", "1", resultDoc(2, 0)), W("complete", "1", ""), X(evXP, 2), EOF}, "", ""},
		{"hook refusal leaves the id registered", hookCase, []event{RQ, R(0, ""), ack, RQ, R(1, "1"), W("error", "1", hookErrPayload), RQ, R(2, "1"), C(4409)}, "refused by the before-start hook), was refused", ""},
		{"hook refusal unanswered", hookCase, []event{RQ, R(0, ""), ack, RQ, R(1, "1"), RQ, EOF}, "must be answered by exactly one error(1)", ""},
		{"hook refusal answered twice", hookCase, []event{RQ, R(0, ""), ack, RQ, R(1, "1"), W("error", "1", hookErrPayload), W("error", "1", hookErrPayload), RQ, EOF}, "must be answered by exactly one error(1)", ""},
		{"hook refusal closes", hookCase, []event{RQ, R(0, ""), ack, RQ, R(1, "1"), C(4409)}, "must be answered by error(1), but the server closed", ""},
		{"tws: client-sent next closes with 4400 (clean)", Case{Proto: protoTWS, Msgs: []Msg{{K: "init"}, {K: "srvtype", ID: "1", V: 3}}}, []event{RQ, R(0, ""), ack, RQ, R(1, "1"), C(4400)}, "", ""},
		{"tws: client-sent next swallowed", Case{Proto: protoTWS, Msgs: []Msg{{K: "init"}, {K: "srvtype", ID: "1", V: 3}}}, []event{RQ, R(0, ""), ack, RQ, R(1, "1"), RQ, EOF}, "server-only type \"next\" (message #1) must close the connection with 4400", ""},
		{"tws: client-sent connection_ack before init swallowed", Case{Proto: protoTWS, Msgs: []Msg{{K: "srvtype", ID: "1", V: 1}, {K: "init"}}}, []event{RQ, R(0, "1"), RQ, R(1, ""), ack, RQ, EOF}, "server-only type \"connection_ack\" (message #0) must close the connection with 4400", ""},
		{"gws: client-sent data answered with connection_error (clean)", Case{Proto: protoGWS, Msgs: []Msg{{K: "init"}, {K: "srvtype", ID: "1", V: 6}}}, []event{RQ, R(0, ""), ack, RQ, R(1, "1"), W("connection_error", "1", `"unexpected message type: data"`), RQ, EOF}, "", ""},
		{"gws: client-sent data swallowed", Case{Proto: protoGWS, Msgs: []Msg{{K: "init"}, {K: "srvtype", ID: "1", V: 6}}}, []event{RQ, R(0, ""), ack, RQ, R(1, "1"), RQ, EOF}, "must be answered by exactly one connection_error", ""},
		// recogniser narrowness: what the echo of a client complete is attributed to
		{"stop echo for a finished query", Case{Proto: protoTWS, Msgs: []Msg{{K: "init"}, sub("1", q), {K: "complete", ID: "1"}}}, append(append([]event{}, okQ[:13]...), R(2, "1"), W("complete", "1", ""), RQ, EOF), "second terminal", fStop},
		{"stop echo for a failed subscription", Case{Proto: protoTWS, Msgs: []Msg{{K: "init"}, sub("1", Script{Op: "subscription", End: "error", Gate: -1, Rel: -1}), {K: "complete", ID: "1"}}}, []event{RQ, R(0, ""), ack, RQ, R(1, "1"), RQ, X(evXS, 1), {K: evXR, M: 1, ID: "1", Err: true}, W("error", "1", `[{"message":"boom"}]`), R(2, "1"), W("complete", "1", ""), RQ, EOF}, "second terminal", fFailed},
		{"stop echo for a finished query the engine still holds", Case{Proto: protoTWS, Msgs: []Msg{{K: "init"}, sub("1", q), {K: "complete", ID: "1"}}}, []event{RQ, R(0, ""), ack, RQ, R(1, "1"), RQ, X(evXS, 1), XE(1, 0), X(evXR, 1), W("next", "1", resultDoc(1, 0)), W("complete", "1", ""), R(2, "1"), W("complete", "1", ""), RQ, X(evXP, 1), EOF}, "second terminal", "-"},
		{"panic", initSubQ, []event{RQ, R(0, ""), {K: evPANIC, M: -1, Raw: "boom"}}, "panicked", ""},
	}
	var fails []string
	for _, t := range cases {
		h := make([]event, len(t.h))
		for i, e := range t.h {
			e.Seq = i + 1
			h[i] = e
		}
		res := accept(t.c, h, true)
		var all []string
		for _, v := range res.viols {
			all = append(all, v.Msg)
		}
		joined := strings.Join(all, " || ")
		switch {
		case t.reject == "" && len(res.viols) > 0:
			fails = append(fails, fmt.Sprintf("%s: clean history rejected: %s", t.name, joined))
		case t.reject != "" && !strings.Contains(joined, t.reject):
			fails = append(fails, fmt.Sprintf("%s: expected a violation containing %q, got %q", t.name, t.reject, joined))
		case t.finding != "" && len(res.viols) > 0:
			want := t.finding
			if want == "-" {
				want = ""
			}
			if got := res.viols[0].Finding; got != want {
				fails = append(fails, fmt.Sprintf("%s: the violation must be attributed to %q, the recogniser says %q", t.name, want, got))
			}
		}
	}
	return strings.Join(fails, "\n")
}
