package c06

import (
	"fmt"
	"strings"

	"pgregory.net/rapid"

	ir "verif/harness/internal/inputref"
)

// Case is one admission experiment: a schema, an operation declaring variables that are used
// in argument positions, and the request's variables as raw text.
type Case struct {
	Schema   ir.Schema    `json:"schema"`
	Decls    []ir.VarDecl `json:"decls"`
	Query    string       `json:"query"`
	VarsForm string       `json:"varsForm"` // "object": Vars is the JSON text; "absent": no variables; "null": the text null
	Vars     string       `json:"vars"`
	Break    string       `json:"break,omitempty"` // what the generator did to the coercible value ("" = nothing)
	// OperationName selects the operation whose variable definitions are Decls when the
	// document carries further operations ("" = the document has one operation).
	OperationName string `json:"operationName,omitempty"`
}

// node is a position inside a generated variable value together with its expected type.
type node struct {
	v     *ir.Value
	t     *ir.Type
	depth int
}

func collect(s *ir.Schema, t *ir.Type, v *ir.Value, depth int, out *[]node) {
	*out = append(*out, node{v, t, depth})
	if v.K == ir.VNull {
		return
	}
	if t.Elem != nil {
		if v.K == ir.VList {
			for _, x := range v.L {
				collect(s, t.Elem, x, depth+1, out)
			}
		}
		return
	}
	if s.KindOf(t.Name) == ir.KindInput && v.K == ir.VObj {
		in := s.Input(t.Name)
		for _, m := range v.O {
			if f := in.Field(m.Key); f != nil {
				collect(s, f.T(), m.V, depth+1, out)
			}
		}
	}
}

func flipCase(s string) string {
	if s != strings.ToLower(s) {
		return strings.ToLower(s)
	}
	return strings.ToUpper(s)
}

// junk values of every JSON kind; the reference decides whether the result is still valid.
func junk(g *ir.Gen) *ir.Value {
	switch rapid.IntRange(0, 13).Draw(g.T, "junk") {
	case 0:
		return ir.Num("1")
	case 1:
		return ir.Num(g.SentinelInt() + ".5")
	case 2:
		return ir.Num("3" + g.SentinelInt()[:6] + "000")
	case 3:
		return ir.Str(g.SentinelString())
	case 4:
		return ir.Bool(true)
	case 5:
		return ir.List()
	case 6:
		return ir.Obj()
	case 7:
		return ir.List(ir.Null())
	case 8:
		return ir.Obj(ir.Member{Key: "zz", V: ir.Num(g.SentinelInt())})
	case 9:
		return ir.List(ir.List())
	case 10:
		return ir.Str("7")
	case 11:
		return ir.Num(g.SentinelInt())
	case 12:
		return ir.List(ir.Str(g.SentinelString()), ir.Null())
	}
	return ir.Null()
}

func genCase(t *rapid.T) Case {
	s := ir.GenSchema(t)
	g := &ir.Gen{T: t, S: s}
	c := Case{}
	nv := rapid.SampledFrom([]int{1, 1, 1, 1, 1, 2, 2, 2, 3, 4}).Draw(t, "nvars")
	values := make([]*ir.Value, nv)
	types := make([]*ir.Type, nv)
	var sels []string
	for i := 0; i < nv; i++ {
		vt := g.GenVarType()
		types[i] = vt
		d := ir.VarDecl{Name: fmt.Sprintf("v%d", i), Type: vt.String()}
		if rapid.IntRange(0, 3).Draw(t, "vardefault") == 0 {
			// a default that relies on list coercion trips a recorded defect: keep it rare
			g.NoSingle = !g.Rare(6, "singleton-in-default")
			d.Default = g.ConstLiteral(vt, 2)
			g.NoSingle = false
			if d.Default == "null" && vt.NonNull {
				d.Default = ""
			}
		}
		c.Decls = append(c.Decls, d)
		// The argument position is the variable type with some non-null wrappers dropped.
		at := ir.MustType(vt.String())
		for x := at; x != nil; x = x.Elem {
			if x.NonNull && rapid.IntRange(0, 2).Draw(t, "loosen") == 0 {
				x.NonNull = false
			}
		}
		echo := ir.Echo{Name: fmt.Sprintf("f%d", i), Arg: ir.Field{Name: "v"}}
		use := "$" + d.Name
		switch rapid.IntRange(0, 9).Draw(t, "usage") {
		case 0: // list item position
			echo.Arg.Type = "[" + at.String() + "]"
			use = "[" + use + "]"
		case 1: // input object field position
			w := ir.Input{Name: fmt.Sprintf("W%d", i), Fields: []ir.Field{{Name: "w", Type: at.String()}, {Name: "n", Type: "Int"}}}
			s.Inputs = append(s.Inputs, w)
			echo.Arg.Type = w.Name
			use = "{w: " + use + "}"
		default:
			echo.Arg.Type = at.String()
			if !at.NonNull && rapid.IntRange(0, 9).Draw(t, "argdefault") == 0 {
				echo.Arg.Default = g.ConstLiteral(at, 2)
			}
		}
		s.Echoes = append(s.Echoes, echo)
		alias := ""
		if rapid.IntRange(0, 4).Draw(t, "alias") == 0 {
			alias = fmt.Sprintf("r%d: ", i)
		}
		sels = append(sels, fmt.Sprintf("%s%s(v: %s)", alias, echo.Name, use))
		// value: omitted only when that is still coercible
		optional := !vt.NonNull || d.Default != ""
		if optional && rapid.IntRange(0, 4).Draw(t, "omit") == 0 {
			continue
		}
		values[i] = g.JSONValue(vt, 0)
	}
	opName := ""
	if rapid.Bool().Draw(t, "named") {
		opName = " Q"
	}
	c.Query = "query" + opName + ir.VarDefsText(c.Decls) + " { " + strings.Join(sels, " ") + " }"
	// Multi-operation document: 1-2 further operations that are NOT selected. They declare
	// required variables the request does not carry and variables named like the selected
	// operation's but of another type; the request must be judged against the selected
	// operation only.
	if rapid.SampledFrom([]int{0, 1, 0, 0, 2, 0}).Draw(t, "decoys") > 0 {
		c.OperationName = "Q"
		ops := []string{"query Q" + ir.VarDefsText(c.Decls) + " { " + strings.Join(sels, " ") + " }"}
		nd := rapid.IntRange(1, 2).Draw(t, "ndecoys")
		for k := 0; k < nd; k++ {
			var decls []ir.VarDecl
			var dsels []string
			add := func(name, typ string) {
				echo := ir.Echo{Name: fmt.Sprintf("d%d_%d", k, len(decls)), Arg: ir.Field{Name: "v", Type: typ}}
				s.Echoes = append(s.Echoes, echo)
				decls = append(decls, ir.VarDecl{Name: name, Type: typ})
				dsels = append(dsels, echo.Name+"(v: $"+name+")")
			}
			if rapid.IntRange(0, 2).Draw(t, "decoy-own-required") > 0 {
				add(fmt.Sprintf("only%d", k), rapid.SampledFrom([]string{"ID!", "Int!", "[String!]!", "Boolean!"}).Draw(t, "decoy-own-type"))
			}
			for i, d := range c.Decls {
				if rapid.IntRange(0, 2).Draw(t, "decoy-same-name") == 0 {
					continue
				}
				// same name, a type no value of the selected operation's type coerces to
				typ := "Int!"
				switch s.KindOf(types[i].Base()) {
				case ir.KindInt, ir.KindFloat, ir.KindID, ir.KindCustomScalar:
					typ = "Boolean!"
				}
				if rapid.IntRange(0, 3).Draw(t, "decoy-same-type") == 0 {
					typ = d.Type // identical declaration: must not matter either
				}
				add(d.Name, typ)
			}
			if len(decls) == 0 {
				add(fmt.Sprintf("only%d", k), "ID!")
			}
			op := fmt.Sprintf("query D%d", k) + ir.VarDefsText(decls) + " { " + strings.Join(dsels, " ") + " }"
			if rapid.Bool().Draw(t, "decoy-first") {
				ops = append([]string{op}, ops...)
			} else {
				ops = append(ops, op)
			}
		}
		c.Query = strings.Join(ops, rapid.SampledFrom([]string{" ", "\n"}).Draw(t, "opsep"))
	}
	c.Schema = *s

	// ---- optionally break the assignment at one position -------------------------------------
	if rapid.IntRange(0, 99).Draw(t, "break") < 45 {
		c.Break = breakOne(g, s, types, values)
	}

	obj := &ir.Value{K: ir.VObj, O: []ir.Member{}}
	for i, v := range values {
		if v != nil {
			obj.O = append(obj.O, ir.Member{Key: c.Decls[i].Name, V: v})
		}
	}
	if len(obj.O) > 1 && rapid.Bool().Draw(t, "rotvars") {
		obj.O = append(obj.O[1:], obj.O[0])
	}
	if rapid.IntRange(0, 9).Draw(t, "extrakey") == 0 {
		obj.O = append(obj.O, ir.Member{Key: "undeclared", V: junk(g)})
	}
	c.VarsForm = "object"
	if len(obj.O) == 0 {
		c.VarsForm = rapid.SampledFrom([]string{"object", "object", "absent", "null"}).Draw(t, "varsform")
	}
	switch c.VarsForm {
	case "object":
		c.Vars = ir.JSONTextStyled(obj, g.JSONWhitespace())
		if strings.TrimLeft(c.Vars, " \t\r\n") != c.Vars { // json.RawMessage never starts with whitespace
			c.Vars = strings.TrimLeft(c.Vars, " \t\r\n")
		}
	case "null":
		c.Vars = "null"
	}
	return c
}

// breakOne mutates the values in place and returns a label for what was done.
func breakOne(g *ir.Gen, s *ir.Schema, types []*ir.Type, values []*ir.Value) string {
	t := g.T
	vi := rapid.IntRange(0, len(values)-1).Draw(t, "breakvar")
	if values[vi] == nil || rapid.IntRange(0, 11).Draw(t, "omitvar") == 0 {
		if values[vi] == nil {
			// provide a junk value for a variable that was omitted
			values[vi] = junk(g)
			return "junk-for-omitted"
		}
		values[vi] = nil
		return "omit-variable"
	}
	var nodes []node
	collect(s, types[vi], values[vi], 0, &nodes)
	// bias towards deeper positions: draw two, keep the deeper one
	a := nodes[rapid.IntRange(0, len(nodes)-1).Draw(t, "node")]
	b := nodes[rapid.IntRange(0, len(nodes)-1).Draw(t, "node2")]
	n := a
	if b.depth > a.depth {
		n = b
	}
	// objects (and especially @oneOf objects) are few among the positions: prefer them sometimes
	if rapid.IntRange(0, 2).Draw(t, "preferobject") == 0 {
		var objs, oneofs []node
		for _, x := range nodes {
			if x.v.K == ir.VObj && x.t.Elem == nil && s.KindOf(x.t.Name) == ir.KindInput {
				objs = append(objs, x)
				if s.Input(x.t.Name).OneOf {
					oneofs = append(oneofs, x)
				}
			}
		}
		if len(oneofs) > 0 && rapid.Bool().Draw(t, "preferoneof") {
			objs = oneofs
		}
		if len(objs) > 0 {
			n = objs[rapid.IntRange(0, len(objs)-1).Draw(t, "objnode")]
		}
	}
	var kinds []string
	if n.t.NonNull {
		kinds = append(kinds, "null", "null")
	}
	kinds = append(kinds, "junk")
	named := n.t.Elem == nil
	kind := s.KindOf(n.t.Base())
	switch {
	case n.v.K == ir.VObj && named && kind == ir.KindInput:
		kinds = append(kinds, "unknown-field", "unknown-field-case", "drop-field", "drop-required", "drop-required")
		if s.Input(n.t.Name).OneOf {
			kinds = append(kinds, "oneof-second-key", "oneof-second-key", "oneof-null", "oneof-empty")
		}
	case n.v.K == ir.VStr && named && kind == ir.KindEnum:
		kinds = append(kinds, "enum-unknown", "enum-case", "enum-case", "enum-number")
	case n.v.K == ir.VNum && named && kind == ir.KindInt:
		kinds = append(kinds, "int-fraction", "int-too-big", "int-too-small", "int-string", "int-bool")
	case n.v.K == ir.VNum && named && kind == ir.KindID:
		kinds = append(kinds, "id-fraction", "id-bool")
	case n.v.K == ir.VStr && named && kind == ir.KindString:
		kinds = append(kinds, "string-number", "string-bool")
	case n.v.K == ir.VBool && named && kind == ir.KindBoolean:
		kinds = append(kinds, "bool-string", "bool-number")
	case n.v.K == ir.VNum && named && kind == ir.KindFloat:
		kinds = append(kinds, "float-string")
	case n.v.K == ir.VList:
		kinds = append(kinds, "list-add-null", "list-add-junk", "list-add-junk-front")
	}
	k := kinds[rapid.IntRange(0, len(kinds)-1).Draw(t, "breakkind")]
	set := func(x *ir.Value) { *n.v = *x }
	switch k {
	case "null":
		set(ir.Null())
	case "junk":
		set(junk(g))
	case "unknown-field":
		n.v.O = append(n.v.O, ir.Member{Key: "zz" + g.SentinelString()[2:5], V: junk(g)})
	case "unknown-field-case":
		in := s.Input(n.t.Name)
		f := in.Fields[rapid.IntRange(0, len(in.Fields)-1).Draw(t, "casefield")]
		name := flipCase(f.Name)
		if in.Field(name) != nil || n.v.Has(name) {
			name = f.Name + "x"
		}
		n.v.O = append(n.v.O, ir.Member{Key: name, V: g.JSONValue(f.T(), 3)})
	case "drop-field":
		if len(n.v.O) == 0 {
			set(ir.Str(g.SentinelString()))
			return "junk"
		}
		n.v.Del(n.v.O[rapid.IntRange(0, len(n.v.O)-1).Draw(t, "dropidx")].Key)
	case "drop-required":
		in := s.Input(n.t.Name)
		dropped := false
		for _, f := range in.Fields {
			if f.T().NonNull && !f.HasDefault() && n.v.Has(f.Name) {
				n.v.Del(f.Name)
				dropped = true
				break
			}
		}
		if !dropped {
			if len(n.v.O) == 0 {
				set(ir.Num(g.SentinelInt()))
				return "junk"
			}
			n.v.Del(n.v.O[0].Key)
			return "drop-field"
		}
	case "oneof-second-key":
		in := s.Input(n.t.Name)
		for _, f := range in.Fields {
			if !n.v.Has(f.Name) {
				n.v.O = append(n.v.O, ir.Member{Key: f.Name, V: g.JSONValue(f.T(), 3)})
				break
			}
		}
	case "oneof-null":
		if len(n.v.O) > 0 {
			n.v.O[0].V = ir.Null()
		}
	case "oneof-empty":
		n.v.O = []ir.Member{}
	case "enum-unknown":
		set(ir.Str("NOPE_" + g.SentinelString()[2:6]))
	case "enum-case":
		set(ir.Str(flipCase(n.v.S)))
	case "enum-number":
		set(ir.Num(g.SentinelInt()))
	case "int-fraction", "id-fraction":
		set(ir.Num(g.SentinelInt() + "." + rapid.SampledFrom([]string{"5", "25", "001"}).Draw(t, "frac")))
	case "int-too-big":
		set(ir.Num(rapid.SampledFrom([]string{"2147483648", "3000000000", "4294967296", "9007199254740993", "123456789012345678901234567890"}).Draw(t, "big")))
	case "int-too-small":
		set(ir.Num(rapid.SampledFrom([]string{"-2147483649", "-3000000000"}).Draw(t, "small")))
	case "int-string":
		set(ir.Str(g.SentinelInt()))
	case "int-bool", "id-bool", "string-bool":
		set(ir.Bool(rapid.Bool().Draw(t, "bb")))
	case "string-number":
		set(ir.Num(g.SentinelInt()))
	case "bool-string":
		set(ir.Str(rapid.SampledFrom([]string{"true", "false"}).Draw(t, "bs")))
	case "bool-number":
		set(ir.Num(rapid.SampledFrom([]string{"0", "1"}).Draw(t, "bn")))
	case "float-string":
		set(ir.Str("1.5"))
	case "list-add-null":
		n.v.L = append(n.v.L, ir.Null())
	case "list-add-junk":
		n.v.L = append(n.v.L, junk(g))
	case "list-add-junk-front":
		n.v.L = append([]*ir.Value{junk(g)}, n.v.L...)
	}
	return k
}
