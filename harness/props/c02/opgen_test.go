package c02

// Operation generator: valid by construction against a family.
//
// Validity argument. Every composite type of a family declares the same 80 fields with the
// same types, and a response key is either a field name or "k<i>_<fieldname>", so one response
// key always denotes the same field (same type, no arguments) wherever it appears: the
// FieldsInSetCanMerge rule holds for any combination of fragments. Fragment type conditions are
// drawn only from composite types whose possible types overlap the parent's. Named fragments are
// registered after their body is complete (no cycles) and every defined fragment is spread at
// least once. Leaves have no selection set; composites always have a non-empty one.

import (
	"fmt"
	"strings"

	"pgregory.net/rapid"
)

var (
	maxOpNodes = 40
	maxOpDepth = 6
)

type opGen struct {
	t      *rapid.T
	f      *family
	nodes  int
	frags  []string            // finished fragment definitions
	byCond map[string][]string // type condition -> fragment names available for reuse
	nfrag  int
	feats  map[string]bool
	possOf map[string][]string
	compos []string // composite type names usable as type conditions
}

func newOpGen(t *rapid.T, f *family) *opGen {
	g := &opGen{t: t, f: f, byCond: map[string][]string{}, feats: map[string]bool{}, possOf: map[string][]string{}}
	for _, o := range f.Objs {
		g.possOf[o] = []string{o}
	}
	g.possOf["N"] = f.ImplN
	g.possOf["M"] = f.ImplM
	g.possOf["U"] = f.UnionU
	g.possOf["Query"] = []string{"Query"}
	g.compos = append(append([]string{}, f.Objs...), "N", "M", "U")
	return g
}

func (g *opGen) draw(n int, label string) int { return uniform(g.t, n, label) }

var boolGen = rapid.Bool()

// uniform draws an integer in [0,n) uniformly. rapid's integer generators are deliberately
// biased towards small magnitudes, which would distort every weight table of the generators;
// fair bits (rapid.Bool) with rejection are uniform, and still shrink towards 0.
func uniform(t *rapid.T, n int, label string) int {
	if n <= 1 {
		return 0
	}
	bits := 0
	for 1<<bits < n {
		bits++
	}
	for try := 0; ; try++ {
		v := 0
		for i := 0; i < bits; i++ {
			v <<= 1
			if boolGen.Draw(t, label) {
				v |= 1
			}
		}
		if v < n {
			return v
		}
		if try > 64 {
			return v % n
		}
	}
}

func (g *opGen) operation() string {
	body := g.selSet("Query", 1, 0, true)
	var b strings.Builder
	switch g.draw(4, "opform") {
	case 0:
		b.WriteString("query ")
	case 1:
		b.WriteString("query Q ")
	}
	b.WriteString(body)
	for _, fr := range g.frags {
		b.WriteString(" ")
		b.WriteString(fr)
	}
	return b.String()
}

// condsFor lists the type conditions allowed inside a selection on parent.
func (g *opGen) condsFor(parent string) []string {
	if parent == "Query" {
		return []string{"Query"}
	}
	var out []string
	for _, c := range g.compos {
		if overlaps(g.possOf[c], g.possOf[parent]) {
			out = append(out, c)
		}
	}
	return out
}

func (g *opGen) key(name string) string {
	if g.draw(10, "alias") < 3 {
		g.feats["alias"] = true
		return fmt.Sprintf("k%d_%s: %s", 1+g.draw(3, "aliasn"), name, name)
	}
	return name
}

// selSet writes "{ ... }" for a selection on parent. depth is the response depth of the
// fields inside it; fdepth the fragment nesting.
func (g *opGen) selSet(parent string, depth, fdepth int, root bool) string {
	isUnion := parent == "U"
	n := 1 + g.draw(5, "nsel")
	if root {
		n = 1 + g.draw(6, "nroot")
	}
	var items []string
	var usedComposite []string // composite field names already selected here (for merge duplicates)
	for i := 0; i < n; i++ {
		if g.nodes >= maxOpNodes {
			break
		}
		c := g.draw(100, "selkind")
		switch {
		case c < 7 || (isUnion && c < 14):
			g.nodes++
			g.feats["typename"] = true
			items = append(items, g.key("__typename"))
		case c < 24 && fdepth < 3 || isUnion:
			if fdepth >= 3 {
				g.nodes++
				items = append(items, "__typename")
				continue
			}
			items = append(items, g.fragment(parent, depth, fdepth))
		default:
			if len(usedComposite) > 0 && g.draw(8, "dup") == 0 && depth < maxOpDepth {
				// the same composite field again: the planner has to merge the selections
				name := usedComposite[g.draw(len(usedComposite), "dupi")]
				g.feats["merged-field"] = true
				g.nodes++
				items = append(items, name+" "+g.selSet(g.targetOf(name), depth+1, 0, false))
				continue
			}
			kind := g.pickKind(depth)
			shape := g.draw(numShapes, "shape")
			name := fieldName(kind, shape)
			g.nodes++
			if kind >= kObject {
				sub := g.selSet(g.f.named(kind, shape), depth+1, 0, false)
				k := g.key(name)
				if k == name {
					usedComposite = append(usedComposite, name)
				}
				items = append(items, k+" "+sub)
			} else {
				items = append(items, g.key(name))
			}
		}
	}
	if len(items) == 0 {
		g.nodes++
		if isUnion {
			items = append(items, "__typename")
		} else {
			items = append(items, fieldName(g.draw(kObject, "fallback"), g.draw(numShapes, "fshape")))
		}
	}
	return "{ " + strings.Join(items, " ") + " }"
}

func (g *opGen) targetOf(name string) string {
	for kind := kObject; kind < numKinds; kind++ {
		for shape := 0; shape < numShapes; shape++ {
			if fieldName(kind, shape) == name {
				return g.f.named(kind, shape)
			}
		}
	}
	panic("targetOf: " + name)
}

func (g *opGen) pickKind(depth int) int {
	// composite fields are likelier near the root so that most trees have some depth
	p := []int{0, 55, 50, 45, 40, 35, 0}[depth]
	if depth < maxOpDepth && g.nodes+2 < maxOpNodes && g.draw(100, "composite") < p {
		return kObject + g.draw(3, "ckind")
	}
	return g.draw(kObject, "lkind")
}

func (g *opGen) fragment(parent string, depth, fdepth int) string {
	conds := g.condsFor(parent)
	cond := conds[g.draw(len(conds), "cond")]
	if g.draw(3, "preferobj") != 0 {
		// mostly fragments on object types: they carry fields
		var objs []string
		for _, c := range conds {
			if contains(g.f.Objs, c) {
				objs = append(objs, c)
			}
		}
		if len(objs) > 0 {
			cond = objs[g.draw(len(objs), "objcond")]
		}
	}
	g.nodes++
	if g.draw(10, "named") < 3 {
		g.feats["named-fragment"] = true
		if avail := g.byCond[cond]; len(avail) > 0 && g.draw(3, "reuse") == 0 {
			g.feats["fragment-reused"] = true
			return "..." + avail[g.draw(len(avail), "reusei")]
		}
		g.nfrag++
		name := fmt.Sprintf("F%d", g.nfrag)
		body := g.selSet(cond, depth, fdepth+1, false)
		g.frags = append(g.frags, fmt.Sprintf("fragment %s on %s %s", name, cond, body))
		g.byCond[cond] = append(g.byCond[cond], name)
		return "..." + name
	}
	g.feats["inline-fragment"] = true
	if cond != parent {
		g.feats["fragment-on-other-type"] = true
	}
	if cond == parent && g.draw(2, "nocond") == 0 {
		return "... " + g.selSet(cond, depth, fdepth+1, false)
	}
	return "... on " + cond + " " + g.selSet(cond, depth, fdepth+1, false)
}
