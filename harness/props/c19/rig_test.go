package c19

import (
	"context"
	"encoding/json"
	"errors"
	"fmt"
	"os"
	"runtime"
	"sort"
	"strings"
	"sync"
	"time"

	"github.com/jensneuse/abstractlogger"

	"github.com/wundergraph/graphql-go-tools/execution/engine"
	"github.com/wundergraph/graphql-go-tools/execution/graphql"
	"github.com/wundergraph/graphql-go-tools/execution/subscription"
	"github.com/wundergraph/graphql-go-tools/execution/subscription/websocket"
	"github.com/wundergraph/graphql-go-tools/v2/pkg/ast"
	"github.com/wundergraph/graphql-go-tools/v2/pkg/engine/resolve"
)

// ---- one interleaved history ------------------------------------------------------------

// Event kinds. Everything the handler, the executors and the driver do to the fake client is
// appended to ONE history under one mutex, so the sequence numbers are a total order.
const (
	evRQ       = "RQ"       // the handler entered ReadBytesFromClient (proves the previous message was handled)
	evR        = "R"        // the driver hands client message M to the handler
	evRDROP    = "RDROP"    // message M was not delivered (the connection was closed concurrently)
	evEOF      = "EOF"      // the client closes the connection
	evW        = "W"        // a message written to the connected client
	evWX       = "WX"       // a write attempt after the connection was closed (never delivered; the real client refuses it too)
	evC        = "C"        // DisconnectWithReason / Disconnect on the connected client (the close frame)
	evCX       = "CX"       // a disconnect call on an already closed client
	evREL      = "REL"      // the driver releases the gate of executor M
	evXGET     = "XGET"     // ExecutorPool.Get succeeded while message M was being handled
	evXGETERR  = "XGETERR"  // ExecutorPool.Get refused the payload of message M
	evXGETHOOK = "XGETHOOK" // ExecutorPool.Get handed out a real ExecutorV2 for message M (the hook refuses it)
	evXS       = "XS"       // Execute of executor M begins
	evXE       = "XE"       // executor M emits result N (logged before the write)
	evXWAIT    = "XWAIT"    // executor M parks at its gate
	evXHOLD    = "XHOLD"    // executor M (subscription) blocks until its context is cancelled
	evXCANCEL  = "XCANCEL"  // executor M observed the cancellation of its context
	evXR       = "XR"       // Execute of executor M is about to return (Err: with an error)
	evXP       = "XP"       // ExecutorPool.Put(executor M): the engine is done with the operation
	evDONE     = "DONE"     // Handle returned
	evPANIC    = "PANIC"    // Handle panicked (recovered by the rig)
)

type event struct {
	Seq     int    `json:"seq"`
	K       string `json:"k"`
	M       int    `json:"m"`
	N       int    `json:"n,omitempty"`
	Type    string `json:"type,omitempty"`
	ID      string `json:"id,omitempty"`
	Payload string `json:"payload,omitempty"`
	Raw     string `json:"raw,omitempty"`
	Code    int    `json:"code,omitempty"`
	Err     bool   `json:"err,omitempty"`
	BadJSON bool   `json:"badjson,omitempty"`
	At      int64  `json:"-"` // monotonic ns since case start (used one-sidedly by the init-timeout part only)
}

func (e event) String() string {
	switch e.K {
	case evW, evWX:
		s := e.K + " " + e.Type
		if e.ID != "" {
			s += "(" + e.ID + ")"
		}
		if e.Payload != "" {
			s += " " + e.Payload
		}
		return s
	case evC, evCX:
		return fmt.Sprintf("%s %d", e.K, e.Code)
	case evR:
		return fmt.Sprintf("R#%d %s", e.M, e.Raw)
	case evXR:
		if e.Err {
			return fmt.Sprintf("XR#%d(err)", e.M)
		}
		return fmt.Sprintf("XR#%d", e.M)
	case evXE:
		return fmt.Sprintf("XE#%d.%d", e.M, e.N)
	case evRQ, evEOF, evDONE:
		return e.K
	case evPANIC:
		return "PANIC " + e.Raw
	}
	return fmt.Sprintf("%s#%d", e.K, e.M)
}

func histString(h []event) string {
	var b strings.Builder
	for i, e := range h {
		if i > 0 {
			b.WriteString(" | ")
		}
		b.WriteString(e.String())
	}
	return b.String()
}

// ---- the rig: fake TransportClient + fake ExecutorPool + driver state -------------------

type rig struct {
	c     Case
	start time.Time

	mu        sync.Mutex
	cond      *sync.Cond
	hist      []event
	connected bool
	closedCh  chan struct{}
	next      chan []byte
	cur       int // index of the client message being handled (ExecutorPool.Get attributes by it)
	execs     map[int]*fakeExec
	timedOut  bool
}

func newRig(c Case) *rig {
	r := &rig{c: c, start: time.Now(), connected: true, closedCh: make(chan struct{}), next: make(chan []byte), cur: -1, execs: map[int]*fakeExec{}}
	r.cond = sync.NewCond(&r.mu)
	return r
}

func (r *rig) logLocked(e event) int {
	e.Seq = len(r.hist) + 1
	e.At = int64(time.Since(r.start))
	r.hist = append(r.hist, e)
	r.cond.Broadcast()
	return e.Seq
}

func (r *rig) log(e event) int {
	r.mu.Lock()
	defer r.mu.Unlock()
	return r.logLocked(e)
}

func (r *rig) snapshot() []event {
	r.mu.Lock()
	defer r.mu.Unlock()
	return append([]event(nil), r.hist...)
}

// wait blocks until pred holds (evaluated under the lock, re-evaluated at every event) or
// the watchdog d expires; it reports whether pred held.
func (r *rig) wait(d time.Duration, pred func() bool) bool {
	r.mu.Lock()
	defer r.mu.Unlock()
	if pred() {
		return true
	}
	expired := false
	t := time.AfterFunc(d, func() {
		r.mu.Lock()
		expired = true
		r.mu.Unlock()
		r.cond.Broadcast()
	})
	defer t.Stop()
	for !pred() {
		if expired {
			return false
		}
		r.cond.Wait()
	}
	return true
}

// -- subscription.TransportClient

func (r *rig) ReadBytesFromClient() ([]byte, error) {
	r.mu.Lock()
	if !r.connected {
		r.mu.Unlock()
		return nil, subscription.ErrTransportClientClosedConnection
	}
	r.logLocked(event{K: evRQ, M: -1})
	r.mu.Unlock()
	select {
	case m, ok := <-r.next:
		if !ok {
			return nil, subscription.ErrTransportClientClosedConnection
		}
		return m, nil
	case <-r.closedCh:
		// like the real client: a pending read fails once the connection is closed
		return nil, subscription.ErrTransportClientClosedConnection
	}
}

func (r *rig) WriteBytesToClient(b []byte) error {
	e := event{K: evW, M: -1, Raw: string(b)}
	var mm struct {
		ID      json.RawMessage `json:"id"`
		Type    *string         `json:"type"`
		Payload json.RawMessage `json:"payload"`
	}
	if err := json.Unmarshal(b, &mm); err != nil || mm.Type == nil {
		e.BadJSON = true
	} else {
		e.Type = *mm.Type
		e.Payload = string(mm.Payload)
		if len(mm.ID) > 0 {
			var s string
			if json.Unmarshal(mm.ID, &s) != nil {
				e.BadJSON = true
			}
			e.ID = s
		}
	}
	r.mu.Lock()
	defer r.mu.Unlock()
	if !r.connected {
		e.K = evWX
		r.logLocked(e)
		return subscription.ErrTransportClientClosedConnection
	}
	r.logLocked(e)
	return nil
}

func (r *rig) IsConnected() bool { r.mu.Lock(); defer r.mu.Unlock(); return r.connected }

func (r *rig) Disconnect() error { return r.disconnect(1000) }

func (r *rig) DisconnectWithReason(reason any) error { return r.disconnect(closeCode(reason)) }

func (r *rig) disconnect(code int) error {
	r.mu.Lock()
	defer r.mu.Unlock()
	if !r.connected {
		r.logLocked(event{K: evCX, M: -1, Code: code})
		return nil
	}
	r.connected = false
	close(r.closedCh)
	r.logLocked(event{K: evC, M: -1, Code: code})
	return nil
}

// closeCode extracts the status code of the close frame handed to DisconnectWithReason
// (0: not a close frame the real client would understand).
func closeCode(reason any) int {
	switch x := reason.(type) {
	case websocket.CloseReason:
		if len(x.Payload) >= 2 {
			return int(x.Payload[0])<<8 | int(x.Payload[1])
		}
	case websocket.CompiledCloseReason:
		// server frame, unmasked: 0x88, length (<126), status code
		if len(x) >= 4 && x[0] == 0x88 && x[1] < 126 {
			return int(x[2])<<8 | int(x[3])
		}
	}
	return 0
}

// -- the before-start hook dimension

// refuseHook is the WebsocketBeforeStartHook of the shared engine: it refuses by a rule the
// generator controls (a marker in the operation text).
type refuseHook struct{}

func (refuseHook) OnBeforeStart(_ context.Context, op *graphql.Request) error {
	if strings.Contains(op.Query, hookMarker) {
		return errors.New(hookErrText)
	}
	return nil
}

var (
	hookEngineOnce sync.Once
	hookEngineVal  *engine.ExecutionEngine
)

// hookEngine is one real ExecutionEngine per process whose only purpose is to carry the hook
// (ExecutorEngine.handleOnBeforeStart reads it through ExecutorV2). Nothing is ever executed on
// it on a correct tree.
func hookEngine() *engine.ExecutionEngine {
	hookEngineOnce.Do(func() {
		schema, err := graphql.NewSchemaFromString("type Query { " + hookMarker + ": Int }")
		if err != nil {
			panic("c19 rig: schema: " + err.Error())
		}
		conf := engine.NewConfiguration(schema)
		conf.SetWebsocketBeforeStartHook(refuseHook{})
		e, err := engine.NewExecutionEngine(context.Background(), abstractlogger.NoopLogger, conf, resolve.ResolverOptions{MaxConcurrency: 8})
		if err != nil {
			panic("c19 rig: engine: " + err.Error())
		}
		hookEngineVal = e
	})
	return hookEngineVal
}

// -- subscription.ExecutorPool / Executor

type fakeExec struct {
	r    *rig
	m    int
	id   string
	sc   Script
	gate chan struct{}

	mu       sync.Mutex
	ctx      context.Context
	released bool
}

func (r *rig) Get(payload []byte) (subscription.Executor, error) {
	r.mu.Lock()
	m := r.cur
	r.mu.Unlock()
	// like graphql.UnmarshalRequest in ExecutorV2Pool.Get
	var req struct {
		OperationName string          `json:"operationName"`
		Variables     json.RawMessage `json:"variables,omitempty"`
		Query         string          `json:"query"`
	}
	if len(payload) == 0 {
		r.log(event{K: evXGETERR, M: m})
		return nil, errors.New("empty request")
	}
	if err := json.Unmarshal(payload, &req); err != nil {
		r.log(event{K: evXGETERR, M: m})
		return nil, err
	}
	if m < 0 || m >= len(r.c.Msgs) {
		r.log(event{K: evXGETERR, M: m})
		return nil, errors.New("rig: no message is being handled")
	}
	if r.c.Hook && strings.Contains(req.Query, hookMarker) {
		// The engine consults the before-start hook only for *subscription.ExecutorV2, so the
		// operations the hook refuses get a real one from a real ExecutorV2Pool (it is never
		// executed on a correct tree; everything the hook lets through runs a scripted fake,
		// which is equivalent to the hook accepting it).
		r.log(event{K: evXGETHOOK, M: m, ID: r.c.Msgs[m].ID, Payload: req.Query})
		return subscription.NewExecutorV2Pool(hookEngine(), context.Background()).Get(payload)
	}
	e := &fakeExec{r: r, m: m, id: r.c.Msgs[m].ID, sc: effectiveScript(r.c.Msgs[m]), gate: make(chan struct{})}
	r.mu.Lock()
	r.execs[m] = e
	r.logLocked(event{K: evXGET, M: m, ID: e.id, Payload: req.Query})
	r.mu.Unlock()
	return e, nil
}

func (r *rig) Put(x subscription.Executor) error {
	if e, ok := x.(*fakeExec); ok {
		r.log(event{K: evXP, M: e.m, ID: e.id})
	}
	return nil
}

func (e *fakeExec) OperationType() ast.OperationType {
	switch e.sc.Op {
	case "subscription":
		return ast.OperationTypeSubscription
	case "mutation":
		return ast.OperationTypeMutation
	}
	return ast.OperationTypeQuery
}

func (e *fakeExec) SetContext(ctx context.Context) { e.mu.Lock(); e.ctx = ctx; e.mu.Unlock() }
func (e *fakeExec) Reset()                         {}

func (e *fakeExec) context() context.Context {
	e.mu.Lock()
	defer e.mu.Unlock()
	if e.ctx == nil {
		return context.Background()
	}
	return e.ctx
}

func (e *fakeExec) cancelled() bool { return e.context().Err() != nil }

func resultDoc(m, k int) string { return fmt.Sprintf(`{"data":{"m":%d,"k":%d}}`, m, k) }

var errBoom = errors.New("boom")

// park waits at the gate; it reports whether the wait ended because the context was
// cancelled (only executors that honour cancellation notice).
func (e *fakeExec) park(ctx context.Context) (cancelled bool) {
	e.r.log(event{K: evXWAIT, M: e.m, ID: e.id})
	if e.sc.OnCancel == "return" || e.sc.OnCancel == "error" {
		select {
		case <-e.gate:
			return false
		case <-ctx.Done():
			e.r.log(event{K: evXCANCEL, M: e.m, ID: e.id})
			return true
		}
	}
	<-e.gate
	return false
}

func (e *fakeExec) Execute(w resolve.SubscriptionResponseWriter) error {
	ctx := e.context()
	e.r.log(event{K: evXS, M: e.m, ID: e.id})
	fail := func(err error) error {
		e.r.log(event{K: evXR, M: e.m, ID: e.id, Err: true})
		return err
	}
	if e.sc.Op != "subscription" {
		// a query/mutation always answers: its one result document or an error
		if e.sc.Gate >= 0 && e.park(ctx) && e.sc.OnCancel == "error" {
			return fail(ctx.Err())
		}
		if e.sc.End == "error" {
			return fail(errBoom)
		}
		e.r.log(event{K: evXE, M: e.m, ID: e.id, N: 0, Payload: resultDoc(e.m, 0)})
		_, _ = w.Write([]byte(resultDoc(e.m, 0)))
		e.r.log(event{K: evXR, M: e.m, ID: e.id})
		return nil
	}
	for k := 0; k <= e.sc.N; k++ {
		if e.sc.Gate == k || k == e.sc.N && e.sc.Gate > e.sc.N {
			if e.park(ctx) {
				if e.sc.OnCancel == "error" {
					return fail(ctx.Err())
				}
				e.r.log(event{K: evXR, M: e.m, ID: e.id})
				return nil
			}
		}
		if k == e.sc.N {
			break
		}
		e.r.log(event{K: evXE, M: e.m, ID: e.id, N: k, Payload: resultDoc(e.m, k)})
		_, _ = w.Write([]byte(resultDoc(e.m, k)))
		_ = w.Flush()
	}
	switch e.sc.End {
	case "error":
		return fail(errBoom)
	case "hold":
		e.r.log(event{K: evXHOLD, M: e.m, ID: e.id})
		<-ctx.Done()
		e.r.log(event{K: evXCANCEL, M: e.m, ID: e.id})
	}
	e.r.log(event{K: evXR, M: e.m, ID: e.id})
	return nil
}

func (e *fakeExec) release() {
	e.mu.Lock()
	defer e.mu.Unlock()
	if !e.released {
		e.released = true
		close(e.gate)
	}
}

func (e *fakeExec) isReleased() bool { e.mu.Lock(); defer e.mu.Unlock(); return e.released }

// ---- driver -----------------------------------------------------------------------------

const (
	wdReady  = 10 * time.Second // handler must ask for the next message
	wdSettle = 5 * time.Second  // executors must reach their next park state
	wdDone   = 10 * time.Second // Handle must return after the connection ended
	wdGrace  = 4 * time.Second  // second look before calling a blocked Handle "wedged"
)

// outcome of driving one case.
type outcome struct {
	hist          []event
	inconclusive  string // non-empty: a watchdog expired for a reason that is not attributable to the code under test
	wedged        string // non-empty: Handle itself is blocked (goroutine dump excerpt)
	settleTimeout bool   // an emission the rig waited for did not arrive in time (demands depending on it are dropped)
	leak          bool
}

// stableLocked reports whether no executor can make progress on its own (r.mu held).
// expectStart says for which subscribe messages the reference expects the executor to start.
func (r *rig) stableLocked(expectStart map[int]bool, errEmitWaived map[int]bool) bool {
	last := map[int]event{}
	errSeen := map[int]bool{}
	for _, e := range r.hist {
		switch e.K {
		case evXGET, evXS, evXE, evXWAIT, evXHOLD, evXCANCEL, evXR, evXP:
			last[e.M] = e
		case evW, evWX:
			// an error message for the id of a subscription executor that returned an error
			for m, le := range last {
				if le.K == evXR && le.Err && e.Type == "error" && e.ID == le.ID {
					errSeen[m] = true
				}
			}
		}
	}
	for m, le := range last {
		x := r.execs[m]
		if x == nil {
			continue
		}
		switch le.K {
		case evXGET:
			if expectStart[m] {
				return false
			}
		case evXS, evXE, evXCANCEL:
			return false
		case evXWAIT:
			if x.isReleased() {
				return false
			}
			if x.sc.OnCancel != "ignore" && x.sc.OnCancel != "" && x.cancelled() {
				return false
			}
		case evXHOLD:
			if x.cancelled() {
				return false
			}
		case evXR:
			if x.sc.Op != "subscription" || x.cancelled() {
				return false // the engine finishes the operation: wait for Put
			}
			if le.Err && !errSeen[m] && !errEmitWaived[m] {
				return false
			}
			if le.Err && failedSubMode == 1 {
				return false // this engine ends a failed subscription: wait for Put
			}
		}
	}
	return true
}

var (
	leakOnce sync.Once
	leaks    int
	// failedSubMode: does the engine end a subscription whose Execute failed (Put follows the
	// error message) or keep it registered (the unchanged tree, finding
	// C19-failed-subscription-stays-active)? Nothing else tells the rig when such an operation
	// has settled, so the first failed subscription of the process is used to find out, with a
	// generous one-sided wait. 0 unknown, 1 ends it, 2 keeps it.
	failedSubMode int
)

// failedSubAwaiting returns the message index of a failed subscription whose executor has
// returned and has not been put back (r.mu held), or -1.
func (r *rig) failedSubAwaitingLocked() int {
	last := map[int]event{}
	for _, e := range r.hist {
		switch e.K {
		case evXGET, evXS, evXE, evXWAIT, evXHOLD, evXCANCEL, evXR, evXP:
			last[e.M] = e
		}
	}
	ms := make([]int, 0, len(last))
	for m := range last {
		ms = append(ms, m)
	}
	sort.Ints(ms)
	for _, m := range ms {
		le := last[m]
		if x := r.execs[m]; x != nil && le.K == evXR && le.Err && x.sc.Op == "subscription" && !x.cancelled() {
			return m
		}
	}
	return -1
}

// drive runs one case against a fresh handler and returns the complete history.
func drive(c Case) outcome {
	var out outcome
	r := newRig(c)
	if c.Hook {
		hookEngine() // its resolver goroutines belong to the baseline
	}
	base := runtime.NumGoroutine()
	ctx, cancel := context.WithCancel(context.Background())
	defer cancel()

	initFn := func(ctx context.Context, p websocket.InitPayload) (context.Context, error) {
		var v struct {
			Reject bool `json:"reject"`
		}
		_ = json.Unmarshal(p, &v)
		if v.Reject {
			return ctx, errors.New("rejected by InitFunc")
		}
		return ctx, nil
	}
	var proto subscription.Protocol
	var tws *websocket.ProtocolGraphQLTransportWSHandler
	var err error
	if c.Proto == protoGWS {
		proto, err = websocket.NewProtocolGraphQLWSHandlerWithOptions(r, websocket.ProtocolGraphQLWSHandlerOptions{WebSocketInitFunc: initFn, CustomKeepAliveInterval: time.Hour})
	} else {
		to := time.Hour
		if c.TimeoutMs > 0 {
			to = time.Duration(c.TimeoutMs) * time.Millisecond
		}
		tws, err = websocket.NewProtocolGraphQLTransportWSHandlerWithOptions(r, websocket.ProtocolGraphQLTransportWSHandlerOptions{WebSocketInitFunc: initFn, CustomKeepAliveInterval: time.Hour, CustomInitTimeOutDuration: to})
		proto = tws
	}
	if err != nil {
		out.inconclusive = "cannot build protocol handler: " + err.Error()
		return out
	}
	h, err := subscription.NewUniversalProtocolHandlerWithOptions(r, proto, r, subscription.UniversalProtocolHandlerOptions{CustomSubscriptionUpdateInterval: time.Hour, CustomReadErrorTimeOut: time.Hour})
	if err != nil {
		out.inconclusive = "cannot build handler: " + err.Error()
		return out
	}
	go func() {
		defer func() {
			if p := recover(); p != nil {
				buf := make([]byte, 8192)
				buf = buf[:runtime.Stack(buf, false)]
				r.log(event{K: evPANIC, M: -1, Raw: fmt.Sprintf("%v\n%s", p, buf)})
			}
			r.log(event{K: evDONE, M: -1})
		}()
		h.Handle(ctx)
	}()

	count := func(k string) int {
		n := 0
		for _, e := range r.hist {
			if e.K == k {
				n++
			}
		}
		return n
	}
	doneLocked := func() bool { return len(r.hist) > 0 && r.hist[len(r.hist)-1].K == evDONE || count(evDONE) > 0 }
	errWaived := map[int]bool{}
	settle := func() bool {
		for {
			es := accept(c, r.snapshot(), false).expectStart
			if r.wait(wdSettle, func() bool { return r.stableLocked(es, errWaived) }) {
				if failedSubMode == 0 {
					r.mu.Lock()
					m := r.failedSubAwaitingLocked()
					r.mu.Unlock()
					if m >= 0 {
						put := r.wait(time.Second, func() bool {
							for _, e := range r.hist {
								if e.K == evXP && e.M == m {
									return true
								}
							}
							return false
						})
						failedSubMode = 2
						if put {
							failedSubMode = 1
						}
					}
				}
				return true
			}
			// which executor are we waiting for? a failed subscription whose error message does
			// not arrive is waived (the final verdict sees the complete history anyway)
			waived := false
			r.mu.Lock()
			last := map[int]event{}
			for _, e := range r.hist {
				switch e.K {
				case evXGET, evXS, evXE, evXWAIT, evXHOLD, evXCANCEL, evXR, evXP:
					last[e.M] = e
				}
			}
			for m, le := range last {
				if le.K == evXR && le.Err && r.execs[m] != nil && r.execs[m].sc.Op == "subscription" && !errWaived[m] {
					errWaived[m] = true
					waived = true
				}
			}
			r.mu.Unlock()
			if !waived {
				return false
			}
			out.settleTimeout = true
		}
	}
	wedgeCheck := func(what string) {
		d1 := goroutineDump()
		if !strings.Contains(d1, "UniversalProtocolHandler).Handle") {
			out.inconclusive = what + " (Handle not on any stack)"
			return
		}
		time.Sleep(wdGrace)
		r.mu.Lock()
		dn := doneLocked()
		r.mu.Unlock()
		d2 := goroutineDump()
		f1, f2 := handleFrame(d1), handleFrame(d2)
		if !dn && f1 != "" && f1 == f2 {
			out.wedged = what + ": Handle is blocked in the same call twice, " + wdGrace.String() + " apart:\n" + f2
			return
		}
		out.inconclusive = what
	}

	sent := 0
	// wait for the first read request
	ready := func(n int) (bool, bool) { // (ready for message n, handler finished)
		var fin bool
		ok := r.wait(wdReady, func() bool {
			fin = doneLocked()
			return fin || count(evRQ) > n
		})
		return ok && !fin, fin
	}
	finished := false
	for i, m := range c.Msgs {
		ok, fin := ready(sent)
		if fin {
			finished = true
			break
		}
		if !ok {
			wedgeCheck(fmt.Sprintf("handler did not ask for client message #%d within %s", i, wdReady))
			break
		}
		if !r.IsConnected() {
			break
		}
		if m.K == "tick" {
			r.tick(c, &out)
			if !r.IsConnected() {
				// the handler notices at its pending read
				break
			}
			continue
		}
		raw := wire(c.Proto, i, m)
		r.mu.Lock()
		r.cur = i
		r.logLocked(event{K: evR, M: i, Raw: string(raw), ID: m.ID})
		r.mu.Unlock()
		select {
		case r.next <- raw:
			sent++
		case <-r.closedCh:
			r.log(event{K: evRDROP, M: i})
		}
		if _, fin := ready(sent); fin {
			finished = true
		}
		if !settle() {
			out.inconclusive = "executors did not settle after message #" + fmt.Sprint(i)
			break
		}
		// scheduled gate releases, one at a time
		for j := 0; j <= i; j++ {
			x := r.execs[j]
			if x == nil || x.sc.Gate < 0 || x.sc.Rel != i || x.isReleased() {
				continue
			}
			r.log(event{K: evREL, M: j, ID: x.id})
			x.release()
			if !settle() {
				out.inconclusive = "executors did not settle after releasing #" + fmt.Sprint(j)
				break
			}
		}
		if finished || out.inconclusive != "" {
			break
		}
	}
	if out.inconclusive == "" && out.wedged == "" {
		// end of the client sequence: the client goes away (if the server has not closed already)
		ready(sent) // the client goes away while the handler waits for the next message
		r.mu.Lock()
		if r.connected {
			r.connected = false
			r.logLocked(event{K: evEOF, M: -1})
			close(r.closedCh)
		}
		r.mu.Unlock()
		if !r.wait(wdDone, doneLocked) {
			wedgeCheck(fmt.Sprintf("Handle did not return within %s after the connection ended", wdDone))
		}
	}

	// cleanup: open every gate, let every started operation finish, stop the init timer
	r.mu.Lock()
	if r.connected {
		r.connected = false
		close(r.closedCh)
	}
	xs := make([]*fakeExec, 0, len(r.execs))
	for _, x := range r.execs {
		xs = append(xs, x)
	}
	r.mu.Unlock()
	cancel()
	for _, x := range xs {
		x.release()
	}
	if out.wedged == "" {
		allPut := func() bool {
			started, put := map[int]bool{}, map[int]bool{}
			for _, e := range r.hist {
				if e.K == evXS {
					started[e.M] = true
				}
				if e.K == evXP {
					put[e.M] = true
				}
			}
			for m := range started {
				if !put[m] {
					return false
				}
			}
			return true
		}
		if !r.wait(wdDone, allPut) && out.inconclusive == "" {
			out.inconclusive = "a started executor was never returned to the pool after the connection ended"
		}
	}
	if tws != nil {
		// The init timer of a connection that never initialised is only stopped by an init
		// message (or by firing). Stop it with a direct protocol call so that nothing of this
		// case lives on; whatever it writes goes to the closed client (WX/CX, not judged).
		acked := false
		for _, e := range r.snapshot() {
			if e.K == evW && e.Type == "connection_ack" {
				acked = true
			}
		}
		if !acked {
			dead, kill := context.WithCancel(context.Background())
			kill()
			func() {
				defer func() { _ = recover() }()
				_ = tws.Handle(dead, nil, []byte(`{"type":"connection_init"}`))
			}()
		}
	}
	out.hist = r.snapshot()
	// hygiene: every goroutine of this case must be gone before the next case starts. They end
	// on their own within microseconds; the loop only waits for that. A leak is called only
	// after 2 s AND thousands of polls (a descheduled process makes few polls in 2 s).
	if out.wedged == "" {
		begin := time.Now()
		for polls := 0; runtime.NumGoroutine() > base; polls++ {
			el := time.Since(begin)
			if leaks >= 3 || el > 2*time.Second && polls > 5000 || el > 30*time.Second {
				out.leak = true
				leaks++
				n := runtime.NumGoroutine()
				leakOnce.Do(func() {
					cj, _ := json.Marshal(c)
					fmt.Fprintf(os.Stderr, "c19: goroutines above baseline after a case (%d > %d, %d polls in %s); case %s; dump:\n%s\nafter the dump: %d\n", n, base, polls, el, cj, goroutineDump(), runtime.NumGoroutine())
				})
				break
			}
			runtime.Gosched()
			time.Sleep(20 * time.Microsecond)
		}
	}
	return out
}

func goroutineDump() string {
	buf := make([]byte, 1<<20)
	return string(buf[:runtime.Stack(buf, true)])
}

// handleFrame returns the stack of the goroutine that runs UniversalProtocolHandler.Handle,
// reduced to function names (no addresses), or "".
func handleFrame(dump string) string {
	for _, g := range strings.Split(dump, "\n\n") {
		if !strings.Contains(g, "UniversalProtocolHandler).Handle") {
			continue
		}
		var fn []string
		for _, l := range strings.Split(g, "\n") {
			if strings.HasPrefix(l, "goroutine ") {
				// "goroutine 12 [chan receive, 2 minutes]:" -> only a goroutine that is parked
				// in a blocking operation can be wedged; a runnable one is merely starved
				st := l
				if i := strings.Index(l, "["); i >= 0 {
					st = strings.TrimRight(l[i+1:], "]:")
					if j := strings.Index(st, ","); j >= 0 {
						st = st[:j]
					}
				}
				if st == "runnable" || st == "running" || st == "syscall" {
					return ""
				}
				fn = append(fn, "["+st+"]")
				continue
			}
			if strings.HasPrefix(l, "\t") {
				continue
			}
			if i := strings.LastIndex(l, "("); i > 0 {
				l = l[:i]
			}
			fn = append(fn, l)
		}
		return strings.Join(fn, "\n")
	}
	return ""
}
