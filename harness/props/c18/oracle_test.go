package c18

import (
	"context"
	"errors"
	"fmt"
	"sort"
	"strings"

	client "github.com/wundergraph/graphql-go-tools/v2/pkg/engine/datasource/graphql_datasource/subscriptionclient"
	"github.com/wundergraph/graphql-go-tools/v2/pkg/engine/datasource/graphql_datasource/subscriptionclient/common"

	"verif/harness/pbt"
)

// Finding ids (see FINDINGS.json). Each recogniser below is deliberately narrow.
const (
	// A Subscribe call that was coalesced onto another caller's dial fails with that caller's
	// "context canceled" although its own context is alive.
	fDialCtx = "C18-dial-uses-first-callers-context"
	// A subscriber whose context is cancelled before/while its subscribe frame is written to an
	// established shared connection makes coder/websocket close that connection: every other
	// subscription multiplexed on it ends with a connection error.
	fCancelWrite = "C18-cancelled-subscribe-closes-shared-conn"
	// The client closes a connection as "empty" while a new subscriber is being registered on it.
	fCloseRace = "C18-subscribe-races-connection-close"
)

type viol struct {
	msg     string
	finding string
}

func (v viol) String() string {
	if v.finding != "" {
		return "[" + v.finding + "] " + v.msg
	}
	return v.msg
}

// dropTouched reports whether the script dropped a connection/stream of tuple k at any time.
func (w *world) dropTouched(k int) bool {
	for _, uc := range w.conns {
		if uc.tuple == k && uc.dropped {
			return true
		}
	}
	for _, us := range w.streams {
		if us.tuple == k && us.dropped {
			return true
		}
	}
	return false
}

// killed reports whether an established connection of tuple k vanished at the client end without a
// close handshake (and without a scripted drop): the signature of a connection torn down by a
// cancelled write, as opposed to one the client closed deliberately as unused.
func (w *world) killed(k int) bool {
	for _, uc := range w.conns {
		if uc.tuple == k && uc.acked && uc.abrupt {
			return true
		}
	}
	return false
}

// endedDuringSubscribe lists the subscriptions of tuple k other than i that ended (terminal received or
// cancelled) while the Subscribe call of i was in flight: the only situation in which the client can
// regard the connection as unused while i is on its way onto it.
func (w *world) endedDuringSubscribe(k, i int) []int {
	me := w.subs[i]
	var out []int
	for j, st := range w.subs {
		if j == i || !st.started || w.c.Subs[j].Tuple != k || st.endSeq == 0 {
			continue
		}
		if st.endSeq > me.startSeq && (me.returnSeq == 0 || st.endSeq < me.returnSeq) {
			out = append(out, j)
		}
	}
	return out
}

// earlyExpired is earlyCancelled restricted to subscribers that left through their own deadline.
func (w *world) earlyExpired(k, i int) []int {
	var out []int
	for _, j := range w.earlyCancelled(k, i) {
		if w.subs[j].expired {
			out = append(out, j)
		}
	}
	return out
}

// earlyCancelled lists the WebSocket subscriptions of tuple k (other than i) whose cancel was issued
// before their Subscribe call had returned.
func (w *world) earlyCancelled(k, i int) []int {
	var out []int
	for j, st := range w.subs {
		if j != i && st.earlyCancel && st.started && w.c.Subs[j].Tuple == k && !w.c.Tuples[k].SSE {
			out = append(out, j)
		}
	}
	return out
}

// judge applies every per-case oracle to the snapshot.
func judge(o *outcome) []viol {
	w, c := o.w, o.w.c
	w.mu.Lock()
	defer w.mu.Unlock()
	var vs []viol
	add := func(finding, f string, a ...any) { vs = append(vs, viol{fmt.Sprintf(f, a...), finding}) }

	for _, m := range w.upViol {
		add("", "upstream: %s", m)
	}
	for _, m := range o.liveness {
		add("", "never happened (re-sampled twice after %v): %s", grace, m)
	}

	for i, st := range w.subs {
		if !st.started {
			continue
		}
		k := c.Subs[i].Tuple
		sse := c.Tuples[k].SSE
		script := c.Subs[i].script()
		msgs := st.msgs[:st.snap]
		lenient := !c.stepped() && w.dropTouched(k) // burst: a drop races with everything on that tuple

		// --- Subscribe result
		if st.err != nil && !st.cancelIssued && !st.dropInSub && !lenient {
			switch {
			case errors.Is(st.err, client.ErrInitFailed) && !errors.Is(st.err, context.Canceled) && !sse && len(w.earlyExpired(k, i)) > 0:
				// not one of the recorded findings: a dialler that leaves through its own DEADLINE makes
				// protocol.Init report ErrAckTimeout (no context error in the chain)
				add("", "sub %d: Subscribe failed with %q although its own context is alive and the upstream acknowledged the connection as soon as its gate opened; sub(s) %v with the same option tuple ran into their own context deadline before their Subscribe call had returned (one of them was dialling for everybody)", i, st.err, w.earlyExpired(k, i))
			case errors.Is(st.err, context.Canceled) && len(w.earlyCancelled(k, i)) > 0 && !sse:
				add(fDialCtx, "sub %d: Subscribe failed with %q although its own context is alive; sub(s) %v with the same option tuple were cancelled before their own Subscribe call had returned (one of them was dialling for everybody)", i, st.err, w.earlyCancelled(k, i))
			case st.err == common.ErrConnectionClosed && !sse && len(w.endedDuringSubscribe(k, i)) > 0 && !(w.killed(k) && len(w.earlyCancelled(k, i)) > 0): //nolint:errorlint
				add(fCloseRace, "sub %d: Subscribe failed with %q: the pooled connection was closed by the client itself between lookup and registration (sub(s) %v of the same tuple ended while this call was in flight)", i, st.err, w.endedDuringSubscribe(k, i))
			case len(w.earlyCancelled(k, i)) > 0 && w.killed(k):
				add(fCancelWrite, "sub %d: Subscribe failed with %q; sub(s) %v of the same tuple were cancelled while writing their subscribe to the shared connection", i, st.err, w.earlyCancelled(k, i))
			default:
				add("", "sub %d: Subscribe failed with %q although it was not cancelled and its upstream did not fail", i, st.err)
			}
		}
		if st.returned && st.err == nil && !st.cancelIssued && !st.dropped && !lenient && st.seen != 1 && len(o.liveness) == 0 {
			add("", "sub %d: Subscribe succeeded but the upstream saw %d subscribe messages for it", i, st.seen)
		}
		if !st.returned && len(o.liveness) == 0 && len(o.inconclusive) == 0 {
			add("", "sub %d: Subscribe never returned", i)
		}

		// --- delivered messages: own, in upstream order, one terminal, nothing after it
		pos := 0
		terminal := false
		var connErr *got
		for n := range msgs {
			m := msgs[n]
			if terminal {
				add("", "sub %d: message %s delivered after its terminal message", i, m.describe())
				break
			}
			if m.Type == common.MessageTypeConnectionError {
				terminal, connErr = true, &msgs[n]
				continue
			}
			var kind string
			switch m.Type {
			case common.MessageTypeData:
				kind = "next"
			case common.MessageTypeError:
				kind, terminal = "error", true
			case common.MessageTypeComplete:
				kind, terminal = "complete", true
			default:
				add("", "sub %d: handler received a message of unknown type %d", i, m.Type)
				continue
			}
			if kind != "complete" && m.S != i {
				add("", "cross-talk: sub %d received %s, which the upstream sent for sub %d", i, m.describe(), m.S)
				continue
			}
			if pos >= len(st.sent) {
				add("", "sub %d received %s but the upstream had sent only %d message(s) for it (script %v)", i, m.describe(), len(st.sent), script)
				continue
			}
			want := st.sent[pos]
			if want.Kind != kind || (kind == "next" && want.N != m.N) {
				add("", "sub %d: message #%d is %s, the upstream sent %s #%d at that position", i, pos, m.describe(), want.Kind, want.N)
			}
			if want.afterCancel {
				add("", "sub %d received %s, which the upstream sent after the subscriber's cancel had returned", i, m.describe())
			}
			pos++
		}
		if !st.cancelIssued && st.err == nil && connErr == nil && !st.dropped && pos < okCount(st.sent) && len(o.liveness) == 0 {
			add("", "sub %d received %d of the %d messages the upstream wrote for it", i, pos, okCount(st.sent))
		}
		if !c.stepped() && !st.cancelIssued && st.err == nil && st.returned && connErr == nil && !lenient && len(o.liveness) == 0 && pos != len(script) {
			add("", "sub %d received %d of its %d scripted messages", i, pos, len(script))
		}

		// --- connection errors need a reason at the upstream
		if connErr != nil && !st.cancelIssued {
			legit := st.dropped || lenient || st.silenced || (w.dropTouched(k) && (st.seen == 0 || (st.conn != nil && st.conn.dropped)))
			if !legit {
				switch {
				case connErr.closedByClient && !sse && c.IdleMs == 0 && len(msgs) == 1 && len(w.endedDuringSubscribe(k, i)) > 0:
					// the registered form of the lookup/registration race: this subscription was put on the connection
					// between "last subscription removed" and "connection closed as empty"
					add(fCloseRace, "sub %d was ended with %q before it received anything: it was registered on a connection the client was just closing as unused (sub(s) %v of the same tuple ended while its Subscribe call was in flight)", i, connErr.Err, w.endedDuringSubscribe(k, i))
				case connErr.closedByClient && !sse:
					// Anything else the client closes under a registered subscription (idle timer, wrong emptiness
					// test, ...) is not the recorded race.
					add("", "sub %d was ended with %q: the client itself closed the connection (as unused / idle) while this subscription was registered on it; the upstream did not drop it", i, connErr.Err)
				case len(w.earlyCancelled(k, i)) > 0 && w.killed(k):
					add(fCancelWrite, "sub %d was ended with connection error %q; the upstream did not drop its connection, but sub(s) %v of the same tuple were cancelled before their Subscribe returned", i, connErr.Err, w.earlyCancelled(k, i))
				default:
					add("", "sub %d was ended with connection error %q although the upstream neither dropped its connection nor sent a terminal for it", i, connErr.Err)
				}
			}
		}
	}
	if o.leak != "" {
		// getOrDial wakes the waiters of a coalesced dial before it registers the connection in the pool. When
		// the connection has already lived its whole life by then (a waiter subscribed, its stream ended, the
		// connection was closed and deregistered), the late registration leaves a closed connection in the
		// pool for good. That is the same window as the recorded lookup/registration race and shows up together
		// with it (the dialler's own subscribe finds the connection closed).
		finding := ""
		upstreamOpen := 0
		for _, uc := range w.conns {
			if !uc.closed {
				upstreamOpen++
			}
		}
		if o.stats.WSConns > 0 && o.stats.SSEConns == 0 && upstreamOpen == 0 {
			for i, st := range w.subs {
				if st.err == common.ErrConnectionClosed && !c.Tuples[c.Subs[i].Tuple].SSE { //nolint:errorlint
					finding = fCloseRace // a caller (the dialler) found its freshly dialled connection already closed
				}
			}
		}
		add(finding, "%s", o.leak)
	}
	return vs
}

func (m got) describe() string {
	switch m.Type {
	case common.MessageTypeData:
		return fmt.Sprintf("next{s:%d,n:%d}", m.S, m.N)
	case common.MessageTypeError:
		return fmt.Sprintf("error{s:%d}", m.S)
	case common.MessageTypeComplete:
		return "complete"
	case common.MessageTypeConnectionError:
		return fmt.Sprintf("connection-error(%s)", m.Err)
	}
	return fmt.Sprintf("type%d", m.Type)
}

// summary is what a subscriber experienced, for the differential (twin) oracle.
func (w *world) summary(i int) string {
	w.mu.Lock()
	defer w.mu.Unlock()
	st := w.subs[i]
	if !st.started {
		return "not started"
	}
	var b strings.Builder
	switch {
	case !st.returned:
		b.WriteString("subscribe: never returned")
	case st.err != nil:
		b.WriteString("subscribe: error")
	default:
		b.WriteString("subscribe: ok")
	}
	for _, m := range st.msgs[:st.snap] {
		b.WriteString(" ")
		if m.Type == common.MessageTypeConnectionError {
			b.WriteString("connection-error")
		} else {
			b.WriteString(m.describe())
		}
	}
	return b.String()
}

// verdict folds violations into the runner's verdict: anything unrecognised is a violation; a case
// whose only violations are recognised findings is attributed to the first of them.
func verdict(vs []viol, c Case) pbt.Verdict {
	if len(vs) == 0 {
		return pbt.OK
	}
	violated.Store(true)
	sort.SliceStable(vs, func(a, b int) bool { return vs[a].finding == "" && vs[b].finding != "" })
	var lines []string
	for _, v := range vs {
		lines = append(lines, v.String())
	}
	msg := strings.Join(lines, "\n") + "\ncase: " + c.key()
	if vs[0].finding == "" {
		return pbt.Bad("%s", msg)
	}
	for _, v := range vs { // a recognised finding that is not (or no longer) listed as known must surface
		if !pbt.IsKnown(v.finding) {
			return pbt.BadKnown(v.finding, "%s", msg)
		}
	}
	return pbt.BadKnown(vs[0].finding, "%s", msg)
}
