#!/usr/bin/env python3
"""Prints the markdown table of DESIGN.md 8.6 from /verif/seeded/*/meta.json (last run per check)."""
import glob, json, os, re, sys

suffix = sys.argv[1] if len(sys.argv) > 1 else ""  # "m": round 1, "n": round 2, "": all

rows = []
for d in sorted(glob.glob("/verif/seeded/*-%s*/" % suffix)):
    m = json.load(open(d + "meta.json"))
    last = {}
    for r in m.get("check_runs", []):
        last[r["check"]] = r
    own = last.get(m["breaks_property"])
    others = [c for c, r in sorted(last.items()) if c != m["breaks_property"] and r.get("caught")]
    files = ", ".join(sorted({os.path.basename(f) for f in (m.get("files") or [])}))
    title = re.sub(r"\s+", " ", (m.get("title") or "")).strip()
    if len(title) > 110:
        title = title[:107] + "..."
    if own is None:
        res = "not run"
    elif own.get("caught"):
        res = "**caught** (%s, seed %s, %ds)" % (own["tier"], own.get("seed", "1"), own["secs"])
    else:
        res = "missed (%s, seed %s)" % (own["tier"], own.get("seed", "1"))
    if others:
        res += "; also caught by " + ", ".join(others)
    rows.append("| %s | %s | %s | %s |" % (m["id"], title.replace("|", "/"), files, res))
print("| change | what it does | file(s) | `./check <its property> quick` |")
print("|---|---|---|---|")
print("\n".join(rows))
n = len(rows)
c = sum(1 for r in rows if "**caught**" in r)
print("\n%d of %d seeded changes are caught by the quick tier of the check of the property they break." % (c, n))
