#!/usr/bin/env python3
"""seed_verify.py <CID> <mN> [srcdir]

Confirms one seeded change produced by an isolated sub-agent, in a scratch worktree of /repo
(never in /repo itself):
  1. the demonstration passes on the clean tree,
  2. the patch applies and the demonstration fails with it (a test failure, not a build error),
  3. with the patch, the existing tests of every package that (transitively) depends on a touched
     package still pass (both modules).
Writes /tmp/sv/results/<CID>-<mN>.json and removes the worktree. Exit 0 = confirmed.
"""
import json, os, re, shutil, subprocess, sys, time

cid, mn = sys.argv[1], sys.argv[2]
src = sys.argv[3] if len(sys.argv) > 3 else "/tmp/seed/%s/OUT/%s" % (cid, mn)
wt = "/tmp/sv/%s-%s" % (cid, mn)
resdir = "/tmp/sv/results"
os.makedirs(resdir, exist_ok=True)
env = dict(os.environ, GOPROXY="off")
env.pop("GOFLAGS", None)
res = {"id": "%s-%s" % (cid, mn), "src": src, "steps": []}


def sh(cmd, cwd=None, timeout=3600):
    t0 = time.time()
    p = subprocess.run(cmd, shell=True, cwd=cwd, env=env, capture_output=True, text=True, timeout=timeout)
    return p.returncode, (p.stdout + p.stderr), time.time() - t0


def finish(ok, why):
    res["confirmed"] = ok
    res["why"] = why
    json.dump(res, open("%s/%s-%s.json" % (resdir, cid, mn), "w"), indent=1)
    sh("git -C /repo worktree remove --force %s" % wt)
    shutil.rmtree(wt, ignore_errors=True)
    print("%s-%s: %s — %s" % (cid, mn, "CONFIRMED" if ok else "REJECTED", why))
    sys.exit(0 if ok else 1)


sh("git -C /repo worktree remove --force %s" % wt)
shutil.rmtree(wt, ignore_errors=True)
rc, out, _ = sh("git -C /repo worktree add -q --detach %s HEAD" % wt)
if rc != 0:
    print(out)
    sys.exit(2)

# locate the demonstration
demo = None
for name in sorted(os.listdir(src)):
    if name.endswith("_test.go"):
        demo = os.path.join(src, name)
        break
if demo is None:
    finish(False, "no *_test.go demonstration (manual handling needed)")
text = open(demo).read()
names = re.findall(r"^func (Test\w+)\(", text, re.M)
pkgline = re.search(r"^package (\w+)", text, re.M).group(1)
demotxt = open(os.path.join(src, "demo.txt")).read() if os.path.exists(os.path.join(src, "demo.txt")) else ""
cands = re.findall(r"((?:v2|execution)/[A-Za-z0-9_./-]+)", demotxt)
destdir = None
for c in cands:
    c = c.rstrip("/.")
    if c.endswith(".go"):
        c = os.path.dirname(c)
    if os.path.isdir(os.path.join(wt, c)) and c not in ("v2", "execution"):
        # the package name must fit the directory
        base = pkgline[:-5] if pkgline.endswith("_test") else pkgline
        gofiles = [f for f in os.listdir(os.path.join(wt, c)) if f.endswith(".go")]
        pk = set()
        for f in gofiles[:50]:
            m = re.search(r"^package (\w+)", open(os.path.join(wt, c, f)).read(), re.M)
            if m:
                pk.add(m.group(1))
        if base in pk or pkgline in pk or not gofiles:
            destdir = c
            break
if destdir is None:
    finish(False, "cannot tell where the demonstration goes: %r" % cands[:5])
mod = destdir.split("/")[0]
rel = "./" + destdir[len(mod) + 1:]
dest = os.path.join(wt, destdir, "zz_seed_%s_%s_test.go" % (cid.lower(), mn))
res["demo_dir"] = destdir
res["demo_tests"] = names
runre = "^(%s)$" % "|".join(names)
democmd = "go test -count=1 -vet=off -timeout 30m -run '%s' %s" % (runre, rel)
extra = re.search(r"go test[^\n]*(-race)", demotxt)
if extra:
    democmd = democmd.replace("go test ", "go test -race ")
# other support files of the demonstration (testdata etc.) are not supported: flag them
others = [f for f in os.listdir(src) if f not in ("patch.diff", "demo.txt", "meta.json", os.path.basename(demo))]
res["other_files"] = others

shutil.copy(demo, dest)
ok_runs = 0
for i in range(2):
    rc, out, dt = sh(democmd, cwd=os.path.join(wt, mod))
    res["steps"].append({"step": "demo-without", "rc": rc, "secs": round(dt, 1), "tail": out[-1500:]})
    if rc != 0:
        finish(False, "demonstration does not pass on the clean tree (run %d)" % (i + 1))
rc, out, _ = sh("git apply %s" % os.path.join(src, "patch.diff"), cwd=wt)
if rc != 0:
    rc, out, _ = sh("git apply --3way %s" % os.path.join(src, "patch.diff"), cwd=wt)
    res["steps"].append({"step": "apply-3way", "rc": rc, "tail": out[-800:]})
    if rc != 0:
        finish(False, "patch does not apply to the current HEAD")
rc, out, _ = sh("git diff --name-only HEAD", cwd=wt)
touched = [l for l in out.split() if l.endswith(".go")]
res["touched"] = touched
if any(t.endswith("_test.go") for t in touched):
    finish(False, "patch edits tests")
rc, out, dt = sh(democmd, cwd=os.path.join(wt, mod))
res["steps"].append({"step": "demo-with", "rc": rc, "secs": round(dt, 1), "tail": out[-3000:]})
if rc == 0:
    rc, out, dt = sh(democmd, cwd=os.path.join(wt, mod))  # schedule-dependent demos: one more try
    res["steps"].append({"step": "demo-with-2", "rc": rc, "secs": round(dt, 1), "tail": out[-3000:]})
    if rc == 0:
        finish(False, "demonstration passes with the patch")
if "--- FAIL" not in out and "panic:" not in out and "DATA RACE" not in out and "timed out" not in out:
    finish(False, "demonstration fails with the patch but not as a test failure (build error?)")
os.remove(dest)

# existing tests of the dependants, both modules
tp = set()
for t in touched:
    d = os.path.dirname(t)
    m = d.split("/")[0]
    modpath = {"v2": "github.com/wundergraph/graphql-go-tools/v2", "execution": "github.com/wundergraph/graphql-go-tools/execution"}.get(m)
    if modpath:
        tp.add(modpath + d[len(m):])
res["touched_pkgs"] = sorted(tp)
allok = True
for m in ("v2", "execution"):
    rc, out, _ = sh("go list -f '{{.ImportPath}}|{{join .Deps \",\"}}|{{join .TestImports \",\"}}|{{join .XTestImports \",\"}}' ./... 2>/dev/null", cwd=os.path.join(wt, m))
    info = {}
    for line in out.splitlines():
        parts = line.split("|")
        if len(parts) == 4:
            info[parts[0]] = (set(parts[1].split(",")), set(parts[2].split(",")) | set(parts[3].split(",")))
    # test imports are resolved one level through the dependency sets of in-module packages
    sel = []
    for p, (deps, timps) in info.items():
        reach = set(deps) | {p}
        for ti in timps:
            reach.add(ti)
            if ti in info:
                reach |= info[ti][0]
        if reach & tp:
            sel.append(p)
    res.setdefault("tested_pkgs", {})[m] = len(sel)
    if not sel:
        continue
    cmd = "go test -count=1 -vet=off -timeout 40m %s" % " ".join(sorted(sel))
    rc, out, dt = sh(cmd, cwd=os.path.join(wt, m), timeout=3000)
    failed = re.findall(r"^(?:FAIL|---)\s+(github\.com/\S+)", out, re.M)
    failed = sorted(set(re.findall(r"^FAIL\s+(github\.com/\S+)", out, re.M)))
    res["steps"].append({"step": "existing-tests-" + m, "rc": rc, "secs": round(dt, 1), "pkgs": len(sel), "failed": failed, "tail": out[-1500:] if rc else ""})
    if rc != 0:
        # one re-run of the failing packages (the machine is loaded; some repo tests are timing sensitive)
        if not failed:
            allok = False
            break
        rc2, out2, dt2 = sh("go test -count=1 -vet=off -timeout 40m %s" % " ".join(failed), cwd=os.path.join(wt, m), timeout=3000)
        # does the same package fail on the clean tree too? then it is not attributable to the patch
        res["steps"].append({"step": "existing-tests-rerun-" + m, "rc": rc2, "secs": round(dt2, 1), "tail": out2[-3000:] if rc2 else ""})
        if rc2 != 0:
            allok = False
            break
if not allok:
    finish(False, "existing tests fail with the patch")
finish(True, "demo passes without / fails with; %s dependant packages' tests pass with the patch" % res.get("tested_pkgs"))
