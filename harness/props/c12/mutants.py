# Regenerates the overlay mutants of resolve.go used for MUTANTS.md (C12 and C13):
#   python3 mutants.py && VERIF_OVERLAY=/tmp/c12-c13-mutants/<name>/overlay.json ./check C12 quick --shards 4 --scale 0.05
# Remove /tmp/c12-c13-mutants afterwards. /repo is never touched.
import os, json, sys
src=open('/repo/v2/pkg/engine/resolve/resolve.go').read()
def mut(name, old, new, count=1):
    assert src.count(old)>=1, (name, 'pattern not found')
    s=src.replace(old,new,count)
    d=f'/tmp/c12-c13-mutants/{name}'; os.makedirs(d,exist_ok=True)
    open(d+'/resolve.go','w').write(s)
    json.dump({"Replace":{"/repo/v2/pkg/engine/resolve/resolve.go":d+"/resolve.go"}}, open(d+'/overlay.json','w'))
mut('m1_no_recheck_update','''	sub.writeMu.Lock()
	if sub.removed.Load() {
		sub.writeMu.Unlock()
		r.resolveArenaPool.Release(resolveArena)
		return
	}
''','''	sub.writeMu.Lock()
''')
mut('m2_update_no_mutex','''func (s *subscriptionUpdater) Update(data []byte) {
	s.mu.Lock()
	defer s.mu.Unlock()
	if s.done''','''func (s *subscriptionUpdater) Update(data []byte) {
	if s.done''')
mut('m3_done_no_writemu','''func (s *subscriptionState) done() {
	s.writeMu.Lock()
	defer s.writeMu.Unlock()
	close(s.completed)''','''func (s *subscriptionState) done() {
	close(s.completed)''')
mut('m4_filter_ignored','''	if skip {
		return nil, nil
	}
	return s, nil''','''	_ = skip
	return s, nil''')
mut('m6_flushfail_no_unsub','''		// If flush fails (e.g. client disconnected), remove the subscription.
		_ = r.UnsubscribeSubscription(sub.id)
		return''','''		return''')
mut('m7_complete_twice','''			verifhook.Yield("sub.complete.before_write", s.id)
			s.complete()''','''			verifhook.Yield("sub.complete.before_write", s.id)
			s.complete()
			if len(subs) > 2 {
				s.complete()
			}''')
mut('m15_heartbeat_no_removed_check','''	s.writeMu.Lock()
	defer s.writeMu.Unlock()
	if s.removed.Load() {
		return nil
	}
	return s.writer.Heartbeat()''','''	s.writeMu.Lock()
	defer s.writeMu.Unlock()
	return s.writer.Heartbeat()''')
mut('m16_updatesub_ignores_id','''	sub, filterErr := trig.filterSubscription(subIdentifier, data)

	if filterErr != nil {''','''	sub, filterErr := trig.filterSubscription(subIdentifier, data)
	if sub == nil && filterErr == nil {
		r.handleTriggerUpdate(id, data)
		return
	}

	if filterErr != nil {''')
# C13
mut('m8_unsub_no_trigdec','''		if res.triggerCancel != nil && res.initialized {
			r.reporter.TriggerCountDec(1)
		}
	}
	r.mu.Unlock()
	closeSubs(res.toClose)''','''	}
	r.mu.Unlock()
	closeSubs(res.toClose)''')
mut('m9_empty_trigger_kept','''	if empty {
		delete(r.triggers, trig.id)
		triggerCancel = trig.cancel
		initialized = trig.initialized.Load()
	}''','''	if empty && len(r.triggers) > 2 {
		delete(r.triggers, trig.id)
		triggerCancel = trig.cancel
		initialized = trig.initialized.Load()
	}''')
mut('m10_headers_not_hashed','''		if headersHash != 0 {
			var b [8]byte''','''		if headersHash != 0 && len(input) > 1000 {
			var b [8]byte''')
mut('m11_joiner_starts_again','''		// Execute the startup hooks in a goroutine to avoid holding the lock.
		go func() {
			if err := r.executeStartupHooks(add, trig.updater); err != nil {''','''		// Execute the startup hooks in a goroutine to avoid holding the lock.
		go func() {
			if len(trig.subscriptions) == 3 {
				_ = add.resolve.Trigger.Source.Start(add.ctx, add.headers, add.input, trig.updater)
			}
			if err := r.executeStartupHooks(add, trig.updater); err != nil {''')
mut('m12_shutdown_no_cancel','''	closeSubs(allToClose)
	for _, cancel := range cancels {
		cancel()
	}''','''	closeSubs(allToClose)
	for i, cancel := range cancels {
		if i == 0 {
			cancel()
		}
	}''')
mut('m13_removeclient_no_subdec','''	if r.reporter != nil {
		r.reporter.SubscriptionCountDec(res.removed)
		if res.triggerDec > 0 {''','''	if r.reporter != nil {
		if res.removed != 2 {
			r.reporter.SubscriptionCountDec(res.removed)
		}
		if res.triggerDec > 0 {''')
mut('m14_startfail_no_teardown','''			for _, sub := range trig.snapshotSubscriptions() {
				sub.writeError(r.errorFormatter, sub.ctx, err, sub.resolve.Response)
			}
			r.doneTriggerFromUpdater(triggerID, trig)
			return''','''			for _, sub := range trig.snapshotSubscriptions() {
				sub.writeError(r.errorFormatter, sub.ctx, err, sub.resolve.Response)
			}
			if len(trig.snapshotSubscriptions()) != 2 {
				r.doneTriggerFromUpdater(triggerID, trig)
			}
			return''')
mut('m17_done_skips_close','''	r.mu.Unlock()
	closeSubs(res.toClose)
	if res.triggerCancel != nil {
		res.triggerCancel()
	}
}

// handleTriggerComplete''','''	r.mu.Unlock()
	if len(res.toClose) != 2 {
		closeSubs(res.toClose)
	}
	if res.triggerCancel != nil {
		res.triggerCancel()
	}
}

// handleTriggerComplete''')
# reverts of the three repairs (commits 64a5f3b, 96fa2bc, 9ce7274)
mut('mA_revert_complete_recheck','''func (s *subscriptionState) complete() {
	s.writeMu.Lock()
	defer s.writeMu.Unlock()
	if s.removed.Load() {
		return
	}
	s.writer.Complete()''','''func (s *subscriptionState) complete() {
	s.writeMu.Lock()
	defer s.writeMu.Unlock()
	s.writer.Complete()''')
mut('mA2_revert_error_recheck','''func (s *subscriptionState) error(data []byte) {
	s.writeMu.Lock()
	defer s.writeMu.Unlock()
	if s.removed.Load() {
		return
	}
	s.writer.Error(data)''','''func (s *subscriptionState) error(data []byte) {
	s.writeMu.Lock()
	defer s.writeMu.Unlock()
	s.writer.Error(data)''')
# B: back to lookup by id, then store and report outside r.mu (the yield stays where it is now: at the top)
mut('mB_revert_init_lookup_then_store','''	r.mu.Lock()
	defer r.mu.Unlock()
	if cur, ok := r.triggers[triggerID]; !ok || cur != trig {
		return
	}
	trig.initialized.Store(true)''','''	trig, ok := r.getTrigger(triggerID)
	if !ok {
		return
	}
	trig.initialized.Store(true)''')
# B2: instance check kept, but store and report after the lock was released (the original gap, without id confusion)
mut('mB2_init_store_outside_lock','''	r.mu.Lock()
	defer r.mu.Unlock()
	if cur, ok := r.triggers[triggerID]; !ok || cur != trig {
		return
	}
	trig.initialized.Store(true)''','''	r.mu.Lock()
	cur, ok := r.triggers[triggerID]
	r.mu.Unlock()
	if !ok || cur != trig {
		return
	}
	trig.initialized.Store(true)''')
mut('mC_revert_done_instance_check','''	if cur, ok := r.triggers[triggerID]; ok && cur != trig {
		// A new trigger with the same id (same input and headers) was registered after ours
		// ended: it is not ours to tear down.
		r.mu.Unlock()
		return
	}
	res := r.detachTriggerLocked(triggerID)''','''	res := r.detachTriggerLocked(triggerID)''')
# the seeded change "n2": a failed start-up unsubscribes each snapshotted subscriber instead of detaching the trigger
mut('m19_startfail_unsubscribes_snapshot','''			for _, sub := range trig.snapshotSubscriptions() {
				sub.writeError(r.errorFormatter, sub.ctx, err, sub.resolve.Response)
			}
			r.doneTriggerFromUpdater(triggerID, trig)
			return''','''			for _, sub := range trig.snapshotSubscriptions() {
				sub.writeError(r.errorFormatter, sub.ctx, err, sub.resolve.Response)
				_ = r.UnsubscribeSubscription(sub.id)
			}
			return''')
# C13 part real-source: the seeded change "m3" (HashTriggerInput hashes a list of picked fields and forgets body.extensions)
gsrc=open('/repo/v2/pkg/engine/datasource/graphql_datasource/graphql_datasource.go').read()
gold='''func (s *SubscriptionSource) HashTriggerInput(input []byte, xxh *xxhash.Digest) error {
	_, err := xxh.Write(input)
	return err
}'''
gnew='''func (s *SubscriptionSource) HashTriggerInput(input []byte, xxh *xxhash.Digest) error {
	paths := [][]string{{"url"}, {"body", "query"}, {"body", "variables"}, {"body", "operationName"}, {"initial_payload"},
		{"use_sse"}, {"sse_method_post"}, {"ws_sub_protocol"}, {"header"}, {"forwarded_client_header_names"}, {"forwarded_client_header_regular_expressions"}}
	jsonparser.EachKey(input, func(idx int, value []byte, _ jsonparser.ValueType, _ error) {
		_, _ = xxh.Write([]byte{byte(idx), 0})
		_, _ = xxh.Write(value)
	}, paths...)
	return nil
}'''
assert gsrc.count(gold)==1
d='/tmp/c12-c13-mutants/m18_hash_picks_fields_without_extensions'; os.makedirs(d,exist_ok=True)
open(d+'/graphql_datasource.go','w').write(gsrc.replace(gold,gnew))
json.dump({"Replace":{"/repo/v2/pkg/engine/datasource/graphql_datasource/graphql_datasource.go":d+"/graphql_datasource.go"}}, open(d+'/overlay.json','w'))
print(sorted(os.listdir('/tmp/c12-c13-mutants')))
