package c04

import (
	"encoding/json"
	"fmt"
	"regexp"
	"strings"

	"pgregory.net/rapid"

	"github.com/wundergraph/graphql-go-tools/execution/graphql"

	"github.com/vektah/gqlparser/v2/ast"
	"github.com/vektah/gqlparser/v2/parser"

	"verif/harness/internal/fedgen"
	"verif/harness/internal/opgen"
	"verif/harness/internal/opshrink"
	"verif/harness/internal/sim"
	"verif/harness/pbt"
)

// docCase: a base operation (valid by construction) and how to derive the checked document.
type docCase struct {
	Super   string   `json:"super"`
	Base    opgen.Op `json:"base"`
	Mutator string   `json:"mutator,omitempty"` // rule-targeted mutator, "" = none
	Token   string   `json:"token,omitempty"`   // token-level mutation mode, "" = none
	Repl    string   `json:"repl,omitempty"`
	A       int      `json:"a"`
	B       int      `json:"b"`
}

// structural classes irrelevant to validation are allowed; classes hitting recorded
// validation findings stay excluded
func genAllow() map[string]bool {
	m := map[string]bool{"union-spread-on-non-union": true, "typename-alias": true, "fragment-in-abstract-fragment": true,
		"overlapping-abstract-field": true, "abstract-in-abstract": true, "composite-key-in-multiple-fragments": true,
		"default-omitted-nested": true, "single@default-nested": true, "null-default-list": true}
	for k := range allowEnv() {
		m[k] = true
	}
	return m
}

func genBase(t *rapid.T, simple bool) (string, opgen.Op) {
	sdl, super := genSchema(t)
	return sdl, genOp(t, super, simple)
}

func genSchema(t *rapid.T) (string, *ast.Schema) {
	l := fedgen.Gen(t, fedgen.Options{MaxSubs: 2})
	sdl := l.Super + subscriptionSDL
	super, err := sim.LoadSuper(sdl)
	if err != nil {
		t.Fatalf("generator produced an invalid schema: %v", err)
	}
	return sdl, super
}

func genOp(t *rapid.T, super *ast.Schema, simple bool) opgen.Op {
	noDirectives := simple
	return opgen.Gen(t, super, opgen.Options{Mutations: true, SecondOp: true, NoDirectives: noDirectives, Simple: simple, Allow: genAllow(), Budget: 14})
}

var validPart = pbt.Part[docCase]{Name: "valid-accepted", Quick: 14000, Thorough: 280000, Check: checkDoc,
	Gen: func(t *rapid.T) docCase {
		sdl, op := genBase(t, false)
		if rapid.IntRange(0, 40).Draw(t, "subscription") == 0 {
			op = opgen.Op{Query: "subscription S { subB(first: 1) }", Features: []string{"subscription"}}
		}
		return docCase{Super: sdl, Base: op}
	}}

var mutantPart = pbt.Part[docCase]{Name: "rule-mutant-rejected", Quick: 16000, Thorough: 320000, Check: checkDoc,
	Gen: func(t *rapid.T) docCase {
		sdl, op := genBase(t, true)
		return docCase{Super: sdl, Base: op, Mutator: rapid.SampledFrom(mutatorNames).Draw(t, "mutator"),
			A: rapid.IntRange(0, 30).Draw(t, "a"), B: rapid.IntRange(0, 19).Draw(t, "b")}
	}}

var vocab = []string{"id", "sku", "f0", "f1", "f2", "f3", "err_a", "echoE", "e0", "e0s", "node", "nodes", "search", "E0", "E1", "Node", "I1", "U", "V0", "Query",
	"Color", "Filter", "Pos", "RED", "bogus", "__typename", "on", "true", "false", "null", "skip", "include", "if", "first", "fragment", "query", "a", "x", "tags"}

var emptyObjectLiteral = regexp.MustCompile(`:\s*\{\s*\}`)

var identRe = regexp.MustCompile(`[A-Za-z_][A-Za-z0-9_]*`)

var tokenPart = pbt.Part[docCase]{Name: "token-mutant-agrees-with-gqlparser", Quick: 16000, Thorough: 320000, Check: checkDoc,
	Gen: func(t *rapid.T) docCase {
		sdl, op := genBase(t, true)
		return docCase{Super: sdl, Base: op, Token: rapid.SampledFrom([]string{"replace", "replace", "delete", "dup-alias", "swap"}).Draw(t, "mode"),
			Repl: rapid.SampledFrom(vocab).Draw(t, "repl"), A: rapid.IntRange(0, 400).Draw(t, "a"), B: rapid.IntRange(0, 400).Draw(t, "b")}
	}}

func tokenMutate(c docCase) (opgen.Op, bool) {
	q := c.Base.Query
	locs := identRe.FindAllStringIndex(q, -1)
	if len(locs) == 0 {
		return c.Base, false
	}
	k := locs[c.A%len(locs)]
	var m string
	switch c.Token {
	case "replace":
		m = q[:k[0]] + c.Repl + q[k[1]:]
	case "delete":
		m = q[:k[0]] + q[k[1]:]
	case "dup-alias":
		m = q[:k[0]] + "dup: " + q[k[0]:k[1]] + " dup: " + c.Repl + " " + q[k[1]:]
	case "swap":
		k2 := locs[c.B%len(locs)]
		if k2[0] <= k[1] {
			return c.Base, false
		}
		m = q[:k[0]] + q[k2[0]:k2[1]] + q[k[1]:k2[0]] + q[k[0]:k[1]] + q[k2[1]:]
	default:
		return c.Base, false
	}
	if m == q {
		return c.Base, false
	}
	return opgen.Op{Query: m, Variables: c.Base.Variables, OperationName: c.Base.OperationName}, true
}

// derive builds the checked document and its by-construction label ("valid", "invalid", "").
func derive(c docCase) (opgen.Op, string, bool) {
	switch {
	case c.Mutator != "":
		super, err := sim.LoadSuper(c.Super)
		if err != nil {
			return c.Base, "", false
		}
		op, ok := applyMutator(super, c.Base, c.Mutator, c.A, c.B)
		return op, "invalid", ok
	case c.Token != "":
		op, ok := tokenMutate(c)
		return op, "", ok
	}
	return c.Base, "valid", true
}

// excludedClass recognises, on the case itself, generator classes that hit a recorded
// finding and are therefore kept out of the search unless explicitly allowed.
func excludedClass(c docCase, op opgen.Op) string {
	al := allowEnv()
	switch {
	case c.Mutator == "conflicting-response-names" && c.B%3 == 2 && !al["typename-response-name-conflict"]:
		return "typename-response-name-conflict"
	case c.Mutator == "leaf-with-selection" && c.B%4 == 3 && !al["selection-on-typename"]:
		return "selection-on-typename"
	case (c.Mutator == "subscription-introspection-root-field" || c.Mutator == "duplicate-directive" || c.Mutator == "directive-missing-required-argument") && !al[c.Mutator]:
		return c.Mutator
	case c.Token != "" && strings.Contains(op.Query, "dup: __typename") && !al["typename-response-name-conflict"]:
		return "typename-response-name-conflict"
	case c.Token != "" && regexp.MustCompile(`__typename\s*:`).MatchString(op.Query) && !al["typename-response-name-conflict"]:
		return "typename-response-name-conflict"
	}
	return ""
}

func checkDoc(c docCase, o *pbt.Rec) pbt.Verdict {
	op, label, ok := derive(c)
	if !ok {
		o.Discard("mutation-not-applicable")
		return pbt.OK
	}
	if cls := excludedClass(c, op); cls != "" {
		o.Discard("excluded:" + cls)
		return pbt.OK
	}
	super, err := sim.LoadSuper(c.Super)
	if err != nil {
		return pbt.Bad("schema load: %v", err)
	}
	sv := specVerdict(super, op)
	if sv.parseErr {
		o.Discard("gqlparser-parse-error(C05 domain)")
		return pbt.OK
	}
	if !sv.selectable {
		o.Discard("operation-not-selectable")
		return pbt.OK
	}
	if label != "" && (label == "valid") != sv.reachValid {
		if c.Mutator == "subscription-two-root-fields" && sv.reachValid {
			// invalid by construction (spec 5.2.3.1: the root selection set collects to exactly one
			// response name); the gqlparser version at hand only counts different field names
			sv.reachValid = false
			o.Label("gqlparser-lax:subscription-root-response-names")
		} else {
			o.Discard("label-vs-gqlparser:" + label + ":" + c.Mutator)
			return pbt.OK
		}
	}
	schema, err := graphql.NewSchemaFromString(c.Super)
	if err != nil {
		return pbt.Bad("schema rejected by the repo: %v", err)
	}
	accepted, why, panicked := admitted(schema, op)
	ctx := fmt.Sprintf("\ndocument: %s\nvariables: %s\noperationName: %q\nderived by: %s%s a=%d b=%d from base: %s", op.Query, op.VarsJSON(), op.OperationName, c.Mutator, c.Token, c.A, c.B, c.Base.Query)
	if panicked != "" {
		return pbt.Bad("admission neither accepts nor rejects: panic: %s%s", firstLine(panicked), ctx+"\n"+panicked)
	}
	switch {
	case sv.reachValid && !sv.restValid:
		o.Discard("unreachable-part-invalid(outside the guarantee)")
		return pbt.OK
	case sv.reachValid && !accepted && suspectArgumentConflict(op.Query):
		// gqlparser compares arguments of same-named fields laxly for object/list values
		o.Discard("gqlparser-lax-on-argument-conflicts")
		return pbt.OK
	case sv.reachValid && !accepted && c.Token != "" && strings.Contains(why, "cannot represent") && emptyObjectLiteral.MatchString(op.Query):
		// gqlparser accepts an empty object literal {} in scalar positions; the valid part
		// covers {} in input-object positions by construction
		o.Discard("gqlparser-lax-on-empty-object-for-scalar")
		return pbt.OK
	case sv.reachValid && !accepted:
		return pbt.Bad("spec-valid operation rejected: %s%s", firstLine(why), ctx)
	case !sv.reachValid && accepted:
		if c.Token != "" {
			// the token-level net attributes admitted-invalid documents to recorded validator
			// gaps by the spec rule gqlparser names; the rule-targeted part stays strict
			if id := knownGapByRule(super, sv, op.Query); id != "" {
				return pbt.BadKnown(id, "spec-invalid operation admitted; gqlparser: %s%s", firstLine(sv.errs.Error()), ctx)
			}
		}
		return pbt.Bad("spec-invalid operation admitted; gqlparser: %s%s", firstLine(sv.errs.Error()), ctx)
	}
	switch {
	case c.Mutator != "":
		o.Label("mutant:" + c.Mutator)
		o.NonTrivial(c.Super + "\x00" + op.Query)
	case c.Token != "":
		o.Label(fmt.Sprintf("token:%s:valid=%v", c.Token, sv.reachValid))
		o.NonTrivial(c.Super + "\x00" + op.Query)
	default:
		for _, f := range c.Base.Features {
			o.Label("op:" + f)
		}
		if len(c.Base.Features) >= 3 {
			o.NonTrivial(c.Super + "\x00" + op.Query + "\x00" + op.VarsJSON())
		}
	}
	return pbt.OK
}

// minimizeDoc shrinks the base operation while the same mutation recipe still fails the
// same way.
func minimizeDoc(raw json.RawMessage) (any, string) {
	var c docCase
	if err := json.Unmarshal(raw, &c); err != nil {
		return nil, ""
	}
	v0 := checkDoc(c, pbt.NewRec())
	if v0.Msg == "" || v0.Finding != "" {
		return nil, ""
	}
	class := firstLine(v0.Msg)
	if len(class) > 60 {
		class = class[:60]
	}
	best := c
	opshrink.Minimize(c.Base, 500, func(cand opgen.Op) bool {
		tries := [][2]int{{c.A, c.B}}
		if c.Mutator != "" || c.Token != "" {
			for a := 0; a < 25; a++ {
				tries = append(tries, [2]int{a, c.B}, [2]int{a, a + 3})
			}
		}
		for _, ab := range tries {
			cc := c
			cc.Base, cc.A, cc.B = cand, ab[0], ab[1]
			if v := checkDoc(cc, pbt.NewRec()); v.Msg != "" && v.Finding == "" && strings.HasPrefix(v.Msg, class) {
				best = cc
				return true
			}
		}
		return false
	})
	v := checkDoc(best, pbt.NewRec())
	if v.Msg == "" || v.Finding != "" {
		return nil, ""
	}
	return best, v.Msg
}

// knownGapByRule maps gqlparser's verdict to a recorded validator gap when EVERY error it
// reports matches the same recorded gap (rule plus a shape condition).
func knownGapByRule(schema *ast.Schema, sv verdict, q string) string {
	fieldOnType := regexp.MustCompile(`^Cannot query field "[^"]+" on type "([^"]+)"`)
	unknownArg := regexp.MustCompile(`^Unknown argument "[^"]+" on field "[^".]+\.([^"]+)"`)
	id := ""
	for _, e := range sv.errs {
		g := ""
		switch e.Rule {
		case "OverlappingFieldsCanBeMerged":
			g = "C04-field-merging-non-scalar-fields"
		case "FieldsOnCorrectType":
			// a field of an implementer selected on the interface/union: fragment inlining moves
			// it into the concrete scope before validation sees it
			if m := fieldOnType.FindStringSubmatch(e.Message); m != nil {
				if td := schema.Types[m[1]]; td != nil && (td.Kind == ast.Interface || td.Kind == ast.Union) {
					g = "C04-normalization-hides-invalid-selections"
				}
			}
		case "VariablesInAllowedPosition":
			// the variable is used as an input-object field value: positions inside object
			// literals are not type-checked
			if m := regexp.MustCompile(`^Variable "\$([^"]+)"`).FindStringSubmatch(e.Message); m != nil &&
				regexp.MustCompile(`[{,]\s*\w+\s*:\s*\$`+regexp.QuoteMeta(m[1])+`\b`).MatchString(q) {
				g = "C04-variable-position-unchecked-in-input-objects"
			}
		case "ValuesOfCorrectType":
			// null item of a [T!] list literal that is nested inside an input-object literal
			if strings.Contains(e.Message, "found null") && nullItemInListInsideObject(q) {
				g = "C04-null-item-in-nested-list-literal"
			}
		case "KnownArgumentNames":
			// the offending field occurs more than once: field de-duplication merges the
			// occurrences before validation sees them
			if m := unknownArg.FindStringSubmatch(e.Message); m != nil && len(regexp.MustCompile(`\b`+regexp.QuoteMeta(m[1])+`\b`).FindAllString(q, -1)) >= 2 {
				g = "C04-normalization-hides-invalid-selections"
			}
		}
		if g == "" {
			return ""
		}
		if id == "" {
			id = g
		}
	}
	return id
}

// suspectArgumentConflict reports whether some selection set directly contains two fields
// with the same response key whose printed arguments differ.
func suspectArgumentConflict(q string) bool {
	doc, err := parser.ParseQuery(&ast.Source{Input: q})
	if err != nil {
		return false
	}
	found := false
	var walk func(set ast.SelectionSet)
	walk = func(set ast.SelectionSet) {
		seen := map[string]string{}
		for _, s := range set {
			switch x := s.(type) {
			case *ast.Field:
				key := x.Alias
				if key == "" {
					key = x.Name
				}
				args := format(&ast.QueryDocument{Operations: ast.OperationList{{Operation: ast.Query, SelectionSet: ast.SelectionSet{&ast.Field{Name: "x", Alias: "x", Arguments: x.Arguments}}}}})
				if prev, ok := seen[key]; ok && prev != args {
					found = true
				}
				seen[key] = args
				walk(x.SelectionSet)
			case *ast.InlineFragment:
				walk(x.SelectionSet)
			}
		}
	}
	for _, o := range doc.Operations {
		walk(o.SelectionSet)
	}
	for _, f := range doc.Fragments {
		walk(f.SelectionSet)
	}
	return found
}

// nullItemInListInsideObject reports whether some list literal with a null item sits inside an
// input-object literal (arguments, variable defaults, directive arguments; any depth).
func nullItemInListInsideObject(q string) bool {
	doc, err := parser.ParseQuery(&ast.Source{Input: q})
	if err != nil {
		return false
	}
	found := false
	var val func(v *ast.Value, inObject bool)
	val = func(v *ast.Value, inObject bool) {
		if v == nil {
			return
		}
		switch v.Kind {
		case ast.ListValue:
			for _, c := range v.Children {
				if c.Value != nil && c.Value.Kind == ast.NullValue && inObject {
					found = true
				}
				val(c.Value, inObject)
			}
		case ast.ObjectValue:
			for _, c := range v.Children {
				val(c.Value, true)
			}
		}
	}
	dirs := func(ds ast.DirectiveList) {
		for _, d := range ds {
			for _, a := range d.Arguments {
				val(a.Value, false)
			}
		}
	}
	var walk func(set ast.SelectionSet)
	walk = func(set ast.SelectionSet) {
		for _, s := range set {
			switch x := s.(type) {
			case *ast.Field:
				for _, a := range x.Arguments {
					val(a.Value, false)
				}
				dirs(x.Directives)
				walk(x.SelectionSet)
			case *ast.InlineFragment:
				dirs(x.Directives)
				walk(x.SelectionSet)
			case *ast.FragmentSpread:
				dirs(x.Directives)
			}
		}
	}
	for _, o := range doc.Operations {
		for _, vd := range o.VariableDefinitions {
			val(vd.DefaultValue, false)
		}
		dirs(o.Directives)
		walk(o.SelectionSet)
	}
	for _, f := range doc.Fragments {
		walk(f.SelectionSet)
	}
	return found
}
