package c15

import (
	"testing"

	"verif/harness/pbt"
)

var forwardPart = pbt.Part[Case]{Name: "forward", Quick: 40000, Thorough: 800000, Gen: genCase, Check: checkCase}

// TestProp is the entry point the driver runs in every shard.
func TestProp(t *testing.T) {
	r := pbt.Start(t, "C15")
	defer r.Finish()
	r.Rule("forward: generated schema with echo fields x 1-3 selected fields whose argument is a literal (every string escape, raw non-ASCII, block strings, ints, floats in exponent/long forms, enums, nested lists/objects with variables inside), a JSON variable (omitted / explicit null / defaults) or not given; non-trivial when a literal or the variables contain an escape, an indented block string, a number that is not a small int, or nesting depth >= 2; distinct by operation+variables text")
	r.Assume("the value of a literal comes from the spec decoder in harness/internal/inputref (validated on the spec's examples); gqlparser is only a logged second opinion",
		"values are compared after reference input coercion at the argument's type (list coercion, input field defaults, ID as string, numbers as exact decimals)",
		"the upstream request is evaluated by this harness: CoerceVariableValues on the upstream operation's own variable definitions, then CoerceArgumentValues")
	r.RequireLabel("oracle1:ok", "oracle2:ok", "mode:literal", "mode:variable", "expect:absent", "expect:null", "lit:escape-simple", "lit:escape-unicode",
		"lit:escape-surrogate", "lit:block-string", "lit:block-indented", "lit:depth>=2", "num:exponent", "num:big-int", "lit:variable-inside")
	r.Regress(dispatch())
	r.RunProbes(probes())
	forwardPart.Run(r)
}

func TestReplay(t *testing.T) { pbt.StdReplay(t, "C15", dispatch()) }

func dispatch() pbt.Dispatch {
	return pbt.Dispatch{}.Add(forwardPart.Name, forwardPart.Handler()).WithProbes(probes())
}

func probes() pbt.Probes { return pbt.Probes{} }
