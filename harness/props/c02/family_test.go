package c02

// Schema families. Every family contains the full coverage matrix
//   {String, Int, Float, Boolean, ID, custom scalar, enum, object, interface, union}
//   x {nullable, non-null} x {bare, [T], [T!], [[T]]}
// as 80 fields on EVERY composite type (Query, the object types and both interfaces), so
// any cell can be selected at the root, below lists, below non-null chains and inside
// abstract types. Families differ in the number of object types, which of them implement
// the interfaces N and M, the members of union U, the enum values, the name of the custom
// scalar (JSON and BigInt are special-cased by the planner) and the inner nullabilities of
// the [[T]] cells.

import (
	"fmt"
	"sort"
	"strings"
	"sync"

	"github.com/vektah/gqlparser/v2"
	gast "github.com/vektah/gqlparser/v2/ast"
)

const numFamilies = 24

var kindLetters = []string{"s", "i", "f", "b", "d", "c", "e", "o", "n", "u"}

const (
	kString = iota
	kInt
	kFloat
	kBoolean
	kID
	kCustom
	kEnum
	kObject
	kIface
	kUnion
	numKinds
)

var kindNames = []string{"String", "Int", "Float", "Boolean", "ID", "custom", "enum", "object", "interface", "union"}

const numShapes = 8 // 0 T, 1 T!, 2 [T], 3 [T]!, 4 [T!], 5 [T!]!, 6 [[T]] , 7 [[T]]!

type family struct {
	K        int
	Objs     []string
	ImplN    []string
	ImplM    []string
	UnionU   []string
	EnumVals []string
	Scalar   string
	SDL      string

	schema *gast.Schema
}

func contains(xs []string, x string) bool {
	for _, y := range xs {
		if x == y {
			return true
		}
	}
	return false
}

func newFamily(k int) *family {
	f := &family{K: k}
	f.Objs = []string{"A", "B"}
	if k%2 == 1 {
		f.Objs = append(f.Objs, "C")
	}
	last := f.Objs[len(f.Objs)-1]
	switch (k / 2) % 3 {
	case 0:
		f.ImplN = append([]string(nil), f.Objs...)
	case 1:
		f.ImplN = []string{"A"}
	default:
		f.ImplN = []string{"A", "B"}
	}
	if k%4 < 2 {
		f.ImplM = append([]string(nil), f.Objs[1:]...)
	} else {
		f.ImplM = []string{"A"}
		if last != "A" {
			f.ImplM = append(f.ImplM, last)
		}
	}
	switch (k / 6) % 4 {
	case 0:
		f.UnionU = append([]string(nil), f.Objs...)
	case 1:
		f.UnionU = []string{"A"}
	case 2:
		f.UnionU = []string{"B"}
		if last != "B" {
			f.UnionU = append(f.UnionU, last)
		}
	default:
		f.UnionU = []string{"A", "B"}
	}
	f.EnumVals = []string{"RED", "green", "Blue_3"}[:1+k%3]
	f.Scalar = []string{"Any", "JSON", "BigInt", "DateTime"}[k%4]
	f.SDL = f.buildSDL()
	return f
}

func (f *family) named(kind, shape int) string {
	switch kind {
	case kString:
		return "String"
	case kInt:
		return "Int"
	case kFloat:
		return "Float"
	case kBoolean:
		return "Boolean"
	case kID:
		return "ID"
	case kCustom:
		return f.Scalar
	case kEnum:
		return "E"
	case kObject:
		return f.Objs[(shape+f.K)%len(f.Objs)]
	case kIface:
		if (shape+f.K)%2 == 0 {
			return "N"
		}
		return "M"
	default:
		return "U"
	}
}

func (f *family) typeText(kind, shape int) string {
	n := f.named(kind, shape)
	switch shape {
	case 0:
		return n
	case 1:
		return n + "!"
	case 2:
		return "[" + n + "]"
	case 3:
		return "[" + n + "]!"
	case 4:
		return "[" + n + "!]"
	case 5:
		return "[" + n + "!]!"
	}
	variant := (f.K*7 + kind*3 + shape) % 4
	inner := n
	if variant&2 != 0 {
		inner += "!"
	}
	inner = "[" + inner + "]"
	if variant&1 != 0 {
		inner += "!"
	}
	out := "[" + inner + "]"
	if shape == 7 {
		out += "!"
	}
	return out
}

func fieldName(kind, shape int) string { return fmt.Sprintf("%s%d", kindLetters[kind], shape) }

func (f *family) fieldsBlock() string {
	var b strings.Builder
	for kind := 0; kind < numKinds; kind++ {
		b.WriteString(" ")
		for shape := 0; shape < numShapes; shape++ {
			fmt.Fprintf(&b, " %s: %s", fieldName(kind, shape), f.typeText(kind, shape))
		}
		b.WriteString("\n")
	}
	return b.String()
}

func (f *family) buildSDL() string {
	var b strings.Builder
	fields := f.fieldsBlock()
	fmt.Fprintf(&b, "schema { query: Query }\nscalar %s\nenum E { %s }\n", f.Scalar, strings.Join(f.EnumVals, " "))
	fmt.Fprintf(&b, "union U = %s\n", strings.Join(f.UnionU, " | "))
	fmt.Fprintf(&b, "interface N {\n%s}\ninterface M {\n%s}\n", fields, fields)
	fmt.Fprintf(&b, "type Query {\n%s}\n", fields)
	for _, o := range f.Objs {
		var impl []string
		if contains(f.ImplN, o) {
			impl = append(impl, "N")
		}
		if contains(f.ImplM, o) {
			impl = append(impl, "M")
		}
		head := "type " + o
		if len(impl) > 0 {
			head += " implements " + strings.Join(impl, " & ")
		}
		fmt.Fprintf(&b, "%s {\n%s}\n", head, fields)
	}
	return b.String()
}

var (
	famMu    sync.Mutex
	famCache = map[int]*family{}
)

func getFamily(k int) *family {
	famMu.Lock()
	defer famMu.Unlock()
	if f, ok := famCache[k]; ok {
		return f
	}
	f := newFamily(k)
	s, err := gqlparser.LoadSchema(&gast.Source{Name: "fam", Input: f.SDL})
	if err != nil {
		panic(fmt.Sprintf("family %d: gqlparser rejects the generated SDL: %v", k, err))
	}
	f.schema = s
	famCache[k] = f
	return f
}

// possibleNames returns the sorted object type names a composite type can be at runtime.
func possibleNames(s *gast.Schema, def *gast.Definition) []string {
	if def.Kind == gast.Object {
		return []string{def.Name}
	}
	var out []string
	for _, pt := range s.GetPossibleTypes(def) {
		out = append(out, pt.Name)
	}
	sort.Strings(out)
	return out
}

func overlaps(a, b []string) bool {
	for _, x := range a {
		if contains(b, x) {
			return true
		}
	}
	return false
}
