// Package fedgen generates federation layouts that are sound by construction (DESIGN.md
// §3.3, family F-gen): a supergraph, its partition over 2–4 subgraphs with @key /
// @requires / @provides / @shareable / resolvable:false, and the planner metadata derived
// mechanically with the rules visible in execution/federationtesting/config.json.
package fedgen

import (
	"fmt"
	"sort"
	"strings"

	"pgregory.net/rapid"
)

// TypeField mirrors plan.TypeField as plain data.
type TypeField struct {
	TypeName           string   `json:"type"`
	FieldNames         []string `json:"fields"`
	ExternalFieldNames []string `json:"external,omitempty"`
}

// FedCfg mirrors plan.FederationFieldConfiguration as plain data.
type FedCfg struct {
	TypeName              string `json:"type"`
	FieldName             string `json:"field,omitempty"`
	SelectionSet          string `json:"sel"`
	DisableEntityResolver bool   `json:"noresolve,omitempty"`
}

// Meta is the planner metadata of one subgraph.
type Meta struct {
	RootNodes  []TypeField `json:"root"`
	ChildNodes []TypeField `json:"child,omitempty"`
	Keys       []FedCfg    `json:"keys,omitempty"`
	Requires   []FedCfg    `json:"requires,omitempty"`
	Provides   []FedCfg    `json:"provides,omitempty"`
}

// Sub is one subgraph.
type Sub struct {
	Name string `json:"name"`
	SDL  string `json:"sdl"`
	Meta Meta   `json:"meta"`
}

// ArgCfg lists the arguments of one supergraph field (→ plan.FieldConfiguration).
type ArgCfg struct {
	TypeName  string   `json:"type"`
	FieldName string   `json:"field"`
	Args      []string `json:"args"`
}

// Layout is a complete, replayable federation configuration.
type Layout struct {
	Super      string            `json:"super"`
	Subs       []Sub             `json:"subs"`
	Args       []ArgCfg          `json:"args,omitempty"`
	Requires   map[string]string `json:"requires,omitempty"` // "Type.field" → selection
	KeyScalars []string          `json:"key_scalars"`        // "Type.field"
	SameN      []string          `json:"same_n,omitempty"`   // "Type.field": value object numbered like its parent (nested key)
	Features   []string          `json:"features,omitempty"` // generator classes present
}

// Shared is the SDL every subgraph and the supergraph carry verbatim.
const Shared = `enum Color { RED GREEN BLUE }
scalar JSON
input Filter { a: Int = 7 tags: [String!] nested: Filter c: Color = GREEN ids: [ID] j: JSON }
input Pos { x: Int! y: Int! = 0 label: String }
`

type field struct {
	name     string
	typ      string // printed type
	named    string // named type
	args     string // printed argument definitions incl. parentheses, or ""
	argNames []string
	owners   []int
	requires string         // selection required (req_ fields)
	provides map[int]string // subgraph → provided field of the returned entity
}

type objType struct {
	name    string
	entity  bool
	ifaces  []string
	fields  []*field
	skuSubs []int // subgraphs that also declare @key(fields:"sku")
	// keyVariant[s]: how subgraph s declares the second key (0 first, 1 unresolvable, 2 both)
	keyVariant map[int]int
	// nested: a third key through a value object, '@key(fields: "info { kid }")'
	nested   *nestedKey
	keyOnly  bool
	fieldSet map[string]*field
}

// nestedKey describes the value object behind a nested entity key: kid is the key scalar
// (every subgraph of subs declares it), the extras are owned by one subgraph of subs each.
type nestedKey struct {
	typ    string
	subs   []int
	extras []nestedExtra
}

type nestedExtra struct {
	name, typ string
	owner     int
}

type model struct {
	nsub    int
	objs    []*objType          // entities first, then value types
	ifaces  map[string][]string // interface → field names (besides id for Node)
	ifaceOf map[string][]string // interface → implementers
	union   []string            // members of U (may be empty)
	roots   []*field            // Query fields
	muts    []*field            // Mutation fields
	table   map[string]*field   // field name → prototype (type agreement across types)
	feat    map[string]bool
}

func has(a []int, x int) bool {
	for _, y := range a {
		if y == x {
			return true
		}
	}
	return false
}

func hasS(a []string, x string) bool {
	for _, y := range a {
		if y == x {
			return true
		}
	}
	return false
}

// Options tunes the generator.
type Options struct {
	MaxSubs     int
	MaxEntities int
	NoRequires  bool // no @requires fields
	// Allow re-enables layout classes excluded by default because they hit a recorded
	// finding: "nested-entity-list" ([[E!]] fields), "split-iface-composite" (a composite
	// interface field owned by different subgraphs for different implementers),
	// "provides-on-shareable" (@provides on a field that another subgraph can also resolve).
	Allow map[string]bool
	// Exclude keeps a class out although its finding is repaired (a check whose own recorded
	// finding is reached through that class).
	Exclude map[string]bool
}

// Gen draws a layout.
func Gen(t *rapid.T, o Options) *Layout {
	if o.MaxSubs == 0 {
		o.MaxSubs = 4
	}
	if o.MaxEntities == 0 {
		o.MaxEntities = 4
	}
	m := &model{nsub: rapid.IntRange(2, o.MaxSubs).Draw(t, "nsub"), ifaces: map[string][]string{}, ifaceOf: map[string][]string{}, table: map[string]*field{}, feat: map[string]bool{}}
	ne := rapid.IntRange(2, o.MaxEntities).Draw(t, "nent")
	nv := rapid.IntRange(0, 2).Draw(t, "nval")
	var entNames, valNames []string
	for i := 0; i < ne; i++ {
		entNames = append(entNames, fmt.Sprintf("E%d", i))
	}
	for i := 0; i < nv; i++ {
		valNames = append(valNames, fmt.Sprintf("V%d", i))
	}
	hasUnion := rapid.IntRange(0, 2).Draw(t, "union") > 0
	if hasUnion {
		for _, n := range append(append([]string{}, entNames...), valNames...) {
			if rapid.Bool().Draw(t, "umember") {
				m.union = append(m.union, n)
			}
		}
		if len(m.union) < 2 {
			m.union = append([]string{}, entNames[:2]...)
		}
	}
	owner := func(label string) int { return rapid.IntRange(0, m.nsub-1).Draw(t, label) }
	pickEnt := func() string { return entNames[rapid.IntRange(0, ne-1).Draw(t, "ent")] }

	// field-name table: one type per name so same-named fields agree everywhere
	nnames := rapid.IntRange(6, 12).Draw(t, "nnames")
	var scalarNames, allNames []string
	scalarOnlyVal := map[string]bool{}
	for i := 0; i < nnames; i++ {
		f := &field{name: fmt.Sprintf("f%d", i), provides: map[int]string{}}
		k := rapid.IntRange(0, 19).Draw(t, "ftype")
		switch {
		case k == 0:
			f.typ, f.named = "String", "String"
		case k == 1:
			f.typ, f.named = "String!", "String"
		case k == 2:
			f.typ, f.named = "Int", "Int"
		case k == 3:
			f.typ, f.named = "Int!", "Int"
		case k == 4:
			f.typ, f.named = "Float", "Float"
		case k == 5:
			f.typ, f.named = "Boolean!", "Boolean"
		case k == 6:
			f.typ, f.named = "Color", "Color"
		case k == 7:
			f.typ, f.named = "JSON", "JSON"
		case k == 8:
			f.typ, f.named = "[String!]", "String"
		case k == 9:
			f.typ, f.named = "[Int]!", "Int"
		case k == 10:
			e := pickEnt()
			f.typ, f.named = e, e
		case k == 11:
			e := pickEnt()
			f.typ, f.named = e+"!", e
		case k == 12:
			e := pickEnt()
			f.typ, f.named = "["+e+"!]!", e
		case k == 13:
			e := pickEnt()
			f.typ, f.named = "["+e+"]", e
		case k == 14:
			f.typ, f.named = "Node", "Node"
		case k == 15:
			f.typ, f.named = "[Node!]!", "Node"
		case k == 16 && hasUnion:
			f.typ, f.named = "[U!]", "U"
		case k == 17 && nv > 0:
			v := valNames[rapid.IntRange(0, nv-1).Draw(t, "val")]
			f.typ, f.named = v, v
		case k == 18 && nv > 0:
			v := valNames[rapid.IntRange(0, nv-1).Draw(t, "val")]
			f.typ, f.named = "["+v+"!]", v
		case k == 19 && o.Allow["nested-entity-list"]:
			e := pickEnt()
			f.typ, f.named = "[["+e+"!]]", e
		case k == 19:
			m.feat["excluded:nested-entity-list"] = true
			if nv > 0 && rapid.Bool().Draw(t, "nestedval") && !o.Exclude["nested-value-list"] {
				// a list of lists of a value type that holds scalars only (no entity fetch below
				// the inner list, which is the excluded class)
				v := valNames[nv-1]
				scalarOnlyVal[v] = true
				f.typ, f.named = "[["+v+"!]]", v
				m.feat["nested-value-list"] = true
			} else {
				f.typ, f.named = "[[Int!]]", "Int"
			}
		default:
			f.typ, f.named = "String", "String"
		}
		if isScalarName(f.named) {
			switch rapid.IntRange(0, 7).Draw(t, "fargs") {
			case 0:
				f.args, f.argNames = "(first: Int = 3)", []string{"first"}
			case 1:
				f.args, f.argNames = "(f: Filter, c: Color)", []string{"f", "c"}
			}
			scalarNames = append(scalarNames, f.name)
		}
		m.table[f.name] = f
		allNames = append(allNames, f.name)
	}
	clone := func(p *field) *field {
		return &field{name: p.name, typ: p.typ, named: p.named, args: p.args, argNames: p.argNames, provides: map[int]string{}}
	}
	// optional second interface I1 over >= 2 entities with one shared field
	var i1Fields []string
	var i1Impl []string
	if ne >= 2 && rapid.IntRange(0, 2).Draw(t, "i1") > 0 {
		i1Fields = []string{allNames[rapid.IntRange(0, len(allNames)-1).Draw(t, "i1f")]}
		for _, n := range entNames {
			if rapid.IntRange(0, 2).Draw(t, "i1impl") > 0 {
				i1Impl = append(i1Impl, n)
			}
		}
		if len(i1Impl) < 2 {
			i1Impl = append([]string{}, entNames[:2]...)
		}
		m.ifaces["I1"] = i1Fields
		m.ifaceOf["I1"] = i1Impl
		m.feat["iface-with-fields"] = true
	}
	m.ifaces["Node"] = nil
	m.ifaceOf["Node"] = entNames

	// entities
	i1Owner := -1
	for _, n := range entNames {
		ot := &objType{name: n, entity: true, ifaces: []string{"Node"}, fieldSet: map[string]*field{}}
		if hasS(i1Impl, n) {
			ot.ifaces = append(ot.ifaces, "I1")
		}
		want := rapid.IntRange(2, 6).Draw(t, "nfields")
		names := append([]string{}, allNames...)
		for _, f := range i1Fields {
			if hasS(i1Impl, n) {
				ot.fieldSet[f] = clone(m.table[f])
			}
		}
		for len(ot.fieldSet) < want && len(names) > 0 {
			i := rapid.IntRange(0, len(names)-1).Draw(t, "fpick")
			if _, dup := ot.fieldSet[names[i]]; !dup {
				ot.fieldSet[names[i]] = clone(m.table[names[i]])
			}
			names = append(names[:i], names[i+1:]...)
		}
		var fnames []string
		for fn := range ot.fieldSet {
			fnames = append(fnames, fn)
		}
		sort.Slice(fnames, func(i, j int) bool { return fieldOrder(fnames[i]) < fieldOrder(fnames[j]) })
		for _, fn := range fnames {
			f := ot.fieldSet[fn]
			f.owners = []int{owner("own")}
			if hasS(i1Fields, fn) && hasS(i1Impl, n) && !isScalarName(f.named) && !allowed(o, "split-iface-composite") {
				// composite interface field: same owner for every implementer
				if i1Owner < 0 {
					i1Owner = f.owners[0]
				}
				if f.owners[0] != i1Owner {
					m.feat["excluded:split-iface-composite"] = true
				}
				f.owners = []int{i1Owner}
				ot.fields = append(ot.fields, f)
				continue
			}
			if rapid.IntRange(0, 5).Draw(t, "share") == 0 {
				if o2 := owner("own2"); o2 != f.owners[0] {
					f.owners = append(f.owners, o2)
					m.feat["shareable"] = true
				}
			}
			ot.fields = append(ot.fields, f)
		}
		// error fields
		if rapid.IntRange(0, 3).Draw(t, "errf") == 0 {
			ot.fields = append(ot.fields, &field{name: "err_a", typ: "String", named: "String", owners: []int{owner("own")}, provides: map[int]string{}})
			m.feat["err-nullable"] = true
		}
		if rapid.IntRange(0, 5).Draw(t, "errn") == 0 {
			ot.fields = append(ot.fields, &field{name: "err_b", typ: "Int!", named: "Int", owners: []int{owner("own")}, provides: map[int]string{}})
			m.feat["err-nonnull"] = true
		}
		// echo field on an entity (variables on a nested fetch)
		if rapid.IntRange(0, 3).Draw(t, "echof") == 0 {
			ot.fields = append(ot.fields, &field{name: "echoE", typ: "String", named: "String", args: "(f: Filter, l: [Int!], s: String = \"d\", p: Pos)", argNames: []string{"f", "l", "s", "p"}, owners: []int{owner("own")}, provides: map[int]string{}})
			m.feat["echo-on-entity"] = true
		}
		// second key
		if rapid.IntRange(0, 3).Draw(t, "sku") == 0 {
			for s := 0; s < m.nsub; s++ {
				if rapid.Bool().Draw(t, "skusub") {
					ot.skuSubs = append(ot.skuSubs, s)
				}
			}
			if len(ot.skuSubs) == 0 {
				ot.skuSubs = []int{owner("skuown")}
			}
			ot.keyVariant = map[int]int{}
			for _, s := range ot.skuSubs {
				ot.keyVariant[s] = rapid.IntRange(0, 5).Draw(t, "keyvariant")
			}
			m.feat["second-key"] = true
		}
		// nested key: 'info { kid }' declared by two or more subgraphs, the other fields of the
		// value object are split between them
		if m.nsub >= 2 && !o.Exclude["nested-key"] && rapid.IntRange(0, 4).Draw(t, "nestedkey") == 0 {
			nk := &nestedKey{typ: "K" + ot.name}
			for s := 0; s < m.nsub; s++ {
				if rapid.Bool().Draw(t, "nksub") {
					nk.subs = append(nk.subs, s)
				}
			}
			for s := 0; len(nk.subs) < 2; s++ {
				if !has(nk.subs, s) {
					nk.subs = append(nk.subs, s)
				}
			}
			sort.Ints(nk.subs)
			for _, ex := range []nestedExtra{{name: "kname", typ: "String"}, {name: "kx", typ: "Int"}} {
				if rapid.IntRange(0, 3).Draw(t, "nkextra") > 0 {
					ex.owner = nk.subs[rapid.IntRange(0, len(nk.subs)-1).Draw(t, "nkowner")]
					nk.extras = append(nk.extras, ex)
				}
			}
			ot.nested = nk
			m.feat["nested-key"] = true
		}
		m.objs = append(m.objs, ot)
	}
	// value types: scalars and entity references, replicated wherever returned
	for _, n := range valNames {
		ot := &objType{name: n, fieldSet: map[string]*field{}}
		want := rapid.IntRange(1, 4).Draw(t, "nvfields")
		names := append([]string{}, allNames...)
		for len(ot.fieldSet) < want && len(names) > 0 {
			i := rapid.IntRange(0, len(names)-1).Draw(t, "vfpick")
			p := m.table[names[i]]
			// value types must not contain value types (keeps replication closure small) nor abstract types
			if isScalarName(p.named) || strings.HasPrefix(p.named, "E") && !scalarOnlyVal[n] {
				ot.fieldSet[p.name] = clone(p)
			}
			names = append(names[:i], names[i+1:]...)
		}
		if len(ot.fieldSet) == 0 {
			ot.fieldSet["vs"] = &field{name: "vs", typ: "String", named: "String", provides: map[int]string{}}
		}
		var fnames []string
		for fn := range ot.fieldSet {
			fnames = append(fnames, fn)
		}
		sort.Slice(fnames, func(i, j int) bool { return fieldOrder(fnames[i]) < fieldOrder(fnames[j]) })
		for _, fn := range fnames {
			ot.fields = append(ot.fields, ot.fieldSet[fn])
		}
		m.objs = append(m.objs, ot)
	}
	ent := func(name string) *objType {
		for _, o := range m.objs {
			if o.name == name && o.entity {
				return o
			}
		}
		return nil
	}
	// an interface field that some implementers compute with @requires and others serve
	// directly ('shippingEstimate' on the interface, '@requires(fields: "weight")' on one
	// implementer): selected on the interface it has to be planned per implementer
	ifaceRequires := len(i1Impl) > 0 && !o.NoRequires && !o.Exclude["requires-on-iface-field"] && rapid.IntRange(0, 2).Draw(t, "ireq") == 0
	if ifaceRequires {
		m.table["ireq"] = &field{name: "ireq", typ: "String", named: "String", provides: map[int]string{}}
		m.ifaces["I1"] = append(m.ifaces["I1"], "ireq")
		m.feat["requires-on-iface-field"] = true
	}
	ireqComputed := false
	// the form of the federation documentation: one subgraph serves the interface field for
	// every implementer and computes it for one of them, so the interface itself declares the
	// field there and a selection on the interface has to be expanded per implementer
	ireqSame := -1
	if ifaceRequires && rapid.Bool().Draw(t, "ireqsame") {
		ireqSame = owner("ireqsameown")
		m.feat["iface-requires-same-subgraph"] = true
	}
	// subgraph-level @requires edges of the whole layout (owner of the computed field -> owner
	// of what it requires), over all entities: below an abstract parent the planner folds the
	// fields one subgraph serves for several entity types into one fetch, so a circle
	// s0 needs s1 needs s2 needs s0 may run through different entity types. Once a chain
	// (a computed field requiring a computed field) takes part, such a circle makes the fetch
	// dependencies cyclic and a required field is sent as null (finding
	// C01-requires-cycle-between-subgraphs); circles of plain @requires fields are planned
	// correctly and stay in.
	gEdges := map[int][]int{}
	hasChain := false
	var reachG func(from, to int, seen map[int]bool) bool
	reachG = func(from, to int, seen map[int]bool) bool {
		if from == to {
			return true
		}
		if seen[from] {
			return false
		}
		seen[from] = true
		for _, n := range gEdges[from] {
			if reachG(n, to, seen) {
				return true
			}
		}
		return false
	}
	// closes reports whether a new edge from -> to must stay out; it records the edge otherwise
	closes := func(from, to int, chain bool) bool {
		if (chain || hasChain) && reachG(to, from, map[int]bool{}) && !o.Allow["requires-cycle-between-subgraphs"] {
			m.feat["excluded:requires-cycle-between-subgraphs"] = true
			return true
		}
		gEdges[from] = append(gEdges[from], to)
		hasChain = hasChain || chain
		return false
	}
	// @requires: a computed field owned by a subgraph that does not own the required scalar
	for _, e := range m.objs {
		if !e.entity {
			continue
		}
		if ifaceRequires && hasS(i1Impl, e.name) {
			f := &field{name: "ireq", typ: "String", named: "String", owners: []int{owner("ireqown")}, provides: map[int]string{}}
			if ireqSame >= 0 {
				f.owners[0] = ireqSame
			}
			// at most one implementer computes it (two of them, each needing the other's
			// subgraph, are the cycle of finding C01-requires-cycle-between-subgraphs)
			if !ireqComputed && rapid.Bool().Draw(t, "ireqcomputed") {
				for _, g := range e.fields {
					if g.args == "" && isScalarName(g.named) && len(g.owners) == 1 && g.owners[0] != f.owners[0] && !strings.HasPrefix(g.name, "err") && !strings.HasPrefix(g.name, "echo") && g.name != "ireq" && !closes(f.owners[0], g.owners[0], false) {
						f.requires = g.name
						ireqComputed = true
						break
					}
				}
			}
			e.fields = append(e.fields, f)
			e.fieldSet["ireq"] = f
		}
		var extra []*field
		for _, g := range e.fields {
			if g.args != "" || !isScalarName(g.named) || len(g.owners) != 1 || strings.HasPrefix(g.name, "err") || strings.HasPrefix(g.name, "echo") || g.requires != "" || g.name == "ireq" {
				continue
			}
			if rapid.IntRange(0, 3).Draw(t, "req") != 0 {
				continue
			}
			if o.NoRequires {
				m.feat["excluded:requires"] = true
				continue
			}
			o := owner("reqown")
			if o == g.owners[0] || closes(o, g.owners[0], false) {
				continue
			}
			extra = append(extra, &field{name: "req_" + g.name, typ: "String", named: "String", owners: []int{o}, requires: g.name, provides: map[int]string{}})
			m.feat["requires"] = true
		}
		// a second requires field needing two fields at once
		if len(extra) >= 2 && extra[0].owners[0] == extra[1].owners[0] && rapid.Bool().Draw(t, "req2") {
			extra = append(extra, &field{name: "req_both", typ: "String", named: "String", owners: []int{extra[0].owners[0]}, requires: extra[0].requires + " " + extra[1].requires, provides: map[int]string{}})
			m.feat["requires-two"] = true
		}
		// a chain: a computed field that requires another subgraph's computed field (three
		// dependent fetches in a row)
		if len(extra) > 0 && m.nsub >= 2 && rapid.IntRange(0, 2).Draw(t, "reqchain") == 0 && !o.Exclude["requires-chain"] {
			base := extra[0]
			o2 := owner("reqchainown")
			switch {
			case o2 == base.owners[0]:
			case closes(o2, base.owners[0], true):
			default:
				extra = append(extra, &field{name: "chain_" + base.requires, typ: "String", named: "String", owners: []int{o2}, requires: base.name, provides: map[int]string{}})
				m.feat["requires-chain"] = true
			}
		}
		e.fields = append(e.fields, extra...)
	}
	// @provides on fields returning an entity (or list of it)
	for _, e := range m.objs {
		for _, f := range e.fields {
			te := ent(f.named)
			if te == nil || f.requires != "" {
				continue
			}
			if rapid.IntRange(0, 2).Draw(t, "prov") != 0 {
				continue
			}
			if hasS(i1Fields, f.name) && e.entity && hasS(i1Impl, e.name) && !allowed(o, "provides-on-iface-field") {
				m.feat["excluded:provides-on-iface-field"] = true
				continue
			}
			if len(f.owners) > 1 && !o.Allow["provides-on-shareable"] {
				m.feat["excluded:provides-on-shareable"] = true
				continue
			}
			for _, s := range f.owners {
				for _, g := range te.fields {
					requiredHere := false
					for _, q := range te.fields {
						if q.requires != "" && has(q.owners, s) && hasS(strings.Fields(q.requires), g.name) {
							requiredHere = true // provides + requires of the same field in one subgraph: the simulator's "requires comes from the representation" model would be inexact
						}
					}
					if isScalarName(g.named) && g.args == "" && g.requires == "" && !has(g.owners, s) && !strings.HasPrefix(g.name, "err") && !requiredHere {
						f.provides[s] = g.name
						m.feat["provides"] = true
						break
					}
				}
			}
		}
	}
	// value-type owners are implied (replicated); assign pseudo owners lazily in build

	// root fields
	rootField := func(name, typ, named, args string, argNames []string) *field {
		return &field{name: name, typ: typ, named: named, args: args, argNames: argNames, owners: []int{owner("rown")}, provides: map[int]string{}}
	}
	for i, n := range entNames {
		m.roots = append(m.roots, rootField(fmt.Sprintf("e%d", i), n, n, "", nil))
		m.roots = append(m.roots, rootField(fmt.Sprintf("e%ds", i), "["+n+"!]!", n, "", nil))
		if rapid.IntRange(0, 2).Draw(t, "rarg") == 0 {
			m.roots = append(m.roots, rootField(fmt.Sprintf("e%dBy", i), n, n, "(id: ID!, f: Filter)", []string{"id", "f"}))
		}
	}
	m.roots = append(m.roots, rootField("node", "Node", "Node", "", nil))
	m.roots = append(m.roots, rootField("nodes", "[Node!]!", "Node", "", nil))
	if hasUnion {
		m.roots = append(m.roots, rootField("search", "[U!]!", "U", "(q: String = \"x\")", []string{"q"}))
		m.feat["union"] = true
	}
	if len(i1Impl) > 0 {
		m.roots = append(m.roots, rootField("i1s", "[I1!]!", "I1", "", nil))
		m.roots = append(m.roots, rootField("i1", "I1", "I1", "", nil))
	}
	for _, n := range valNames {
		m.roots = append(m.roots, rootField("v"+strings.ToLower(n[1:]), n, n, "", nil))
	}
	m.roots = append(m.roots, rootField("echoRoot", "String", "String", "(f: Filter, ln: [Int], l: [Int!], s: String, id: ID, e: Color, j: JSON, p: Pos, ll: [[Int]], fl: Float, b: Boolean, fs: [Filter])", []string{"f", "ln", "l", "s", "id", "e", "j", "p", "ll", "fl", "b", "fs"}))
	m.roots = append(m.roots, rootField("scalarRoot", "Int!", "Int", "", nil))
	if rapid.IntRange(0, 3).Draw(t, "rooterr") == 0 {
		m.roots = append(m.roots, rootField("err_root", "String", "String", "", nil))
	}
	for i, n := range entNames {
		if rapid.IntRange(0, 1).Draw(t, "mut") == 0 {
			m.muts = append(m.muts, rootField(fmt.Sprintf("m%d", i), n, n, "(x: Int, f: Filter)", []string{"x", "f"}))
			m.feat["mutation"] = true
		}
	}
	return m.build()
}

func fieldOrder(n string) string {
	// f2 < f10: pad numbers
	if len(n) > 1 && n[0] == 'f' && n[1] >= '0' && n[1] <= '9' {
		return fmt.Sprintf("f%04s", n[1:])
	}
	return n
}

func isScalarName(n string) bool {
	switch n {
	case "String", "Int", "Float", "Boolean", "ID", "Color", "JSON":
		return true
	}
	return false
}

func (m *model) obj(name string) *objType {
	for _, o := range m.objs {
		if o.name == name {
			return o
		}
	}
	return nil
}

func (m *model) build() *Layout {
	l := &Layout{Requires: map[string]string{}}
	// ---- supergraph
	var sb strings.Builder
	sb.WriteString(Shared)
	writeRoot := func(b *strings.Builder, name string, fs []*field) {
		if len(fs) == 0 {
			return
		}
		fmt.Fprintf(b, "type %s {", name)
		for _, r := range fs {
			fmt.Fprintf(b, " %s%s: %s", r.name, r.args, r.typ)
		}
		b.WriteString(" }\n")
	}
	writeRoot(&sb, "Query", m.roots)
	writeRoot(&sb, "Mutation", m.muts)
	sb.WriteString("interface Node { id: ID! }\n")
	if fs, ok := m.ifaces["I1"]; ok && len(m.ifaceOf["I1"]) > 0 {
		sb.WriteString("interface I1 { id: ID!")
		for _, fn := range fs {
			p := m.table[fn]
			fmt.Fprintf(&sb, " %s%s: %s", p.name, p.args, p.typ)
		}
		sb.WriteString(" }\n")
	}
	if len(m.union) > 0 {
		fmt.Fprintf(&sb, "union U = %s\n", strings.Join(m.union, " | "))
	}
	for _, o := range m.objs {
		impl := ""
		if len(o.ifaces) > 0 {
			impl = " implements " + strings.Join(o.ifaces, " & ")
		}
		fmt.Fprintf(&sb, "type %s%s {", o.name, impl)
		if o.entity {
			sb.WriteString(" id: ID!")
			l.KeyScalars = append(l.KeyScalars, o.name+".id")
			if len(o.skuSubs) > 0 {
				sb.WriteString(" sku: ID!")
				l.KeyScalars = append(l.KeyScalars, o.name+".sku")
			}
			if o.nested != nil {
				fmt.Fprintf(&sb, " info: %s!", o.nested.typ)
				l.KeyScalars = append(l.KeyScalars, o.nested.typ+".kid")
				l.SameN = append(l.SameN, o.name+".info")
			}
		}
		for _, f := range o.fields {
			fmt.Fprintf(&sb, " %s%s: %s", f.name, f.args, f.typ)
			if f.requires != "" {
				l.Requires[o.name+"."+f.name] = f.requires
			}
		}
		sb.WriteString(" }\n")
		if o.nested != nil {
			fmt.Fprintf(&sb, "type %s { kid: ID!", o.nested.typ)
			for _, ex := range o.nested.extras {
				fmt.Fprintf(&sb, " %s: %s", ex.name, ex.typ)
			}
			sb.WriteString(" }\n")
		}
		for _, f := range o.fields {
			if len(f.argNames) > 0 {
				l.Args = append(l.Args, ArgCfg{TypeName: o.name, FieldName: f.name, Args: f.argNames})
			}
		}
	}
	for _, r := range m.roots {
		if len(r.argNames) > 0 {
			l.Args = append(l.Args, ArgCfg{TypeName: "Query", FieldName: r.name, Args: r.argNames})
		}
	}
	for _, r := range m.muts {
		if len(r.argNames) > 0 {
			l.Args = append(l.Args, ArgCfg{TypeName: "Mutation", FieldName: r.name, Args: r.argNames})
		}
	}
	if fs, ok := m.ifaces["I1"]; ok {
		for _, fn := range fs {
			if p := m.table[fn]; len(p.argNames) > 0 {
				l.Args = append(l.Args, ArgCfg{TypeName: "I1", FieldName: fn, Args: p.argNames})
			}
		}
	}
	l.Super = sb.String()

	// ---- subgraphs
	for s := 0; s < m.nsub; s++ {
		mention := map[string]bool{} // object types (entities and value types) present in s
		ifaceIn := map[string]bool{}
		unionIn := false
		var visit func(named string)
		visit = func(named string) {
			switch {
			case named == "Node" || named == "I1":
				if ifaceIn[named] {
					return
				}
				ifaceIn[named] = true
				for _, impl := range m.ifaceOf[named] {
					visit(impl)
				}
			case named == "U":
				if unionIn {
					return
				}
				unionIn = true
				for _, mem := range m.union {
					visit(mem)
				}
			default:
				o := m.obj(named)
				if o == nil || mention[named] {
					return
				}
				mention[named] = true
				if !o.entity {
					for _, f := range o.fields {
						visit(f.named)
					}
				}
			}
		}
		var roots, muts []*field
		for _, r := range m.roots {
			if has(r.owners, s) {
				roots = append(roots, r)
				visit(r.named)
			}
		}
		for _, r := range m.muts {
			if has(r.owners, s) {
				muts = append(muts, r)
				visit(r.named)
			}
		}
		for _, o := range m.objs {
			if !o.entity {
				continue
			}
			for _, f := range o.fields {
				if has(f.owners, s) {
					visit(o.name)
					visit(f.named)
				}
			}
			if has(o.skuSubs, s) {
				visit(o.name)
			}
			if o.nested != nil && has(o.nested.subs, s) {
				visit(o.name)
			}
		}
		// interfaces an entity implements are declared only when the interface itself is returned here
		var sdl strings.Builder
		md := Meta{}
		sdl.WriteString(Shared)
		writeSubRoot := func(name string, fs []*field) {
			if len(fs) == 0 {
				return
			}
			fmt.Fprintf(&sdl, "type %s {", name)
			tf := TypeField{TypeName: name}
			for _, r := range fs {
				fmt.Fprintf(&sdl, " %s%s: %s", r.name, r.args, r.typ)
				if p, ok := r.provides[s]; ok {
					fmt.Fprintf(&sdl, " @provides(fields: %q)", p)
					md.Provides = append(md.Provides, FedCfg{TypeName: name, FieldName: r.name, SelectionSet: p})
				}
				tf.FieldNames = append(tf.FieldNames, r.name)
			}
			sdl.WriteString(" }\n")
			md.RootNodes = append(md.RootNodes, tf)
		}
		writeSubRoot("Query", roots)
		writeSubRoot("Mutation", muts)
		// external needs
		external := map[string]map[string]*field{} // type → field name → field
		needExt := func(typ string, f *field) {
			if external[typ] == nil {
				external[typ] = map[string]*field{}
			}
			external[typ][f.name] = f
		}
		for _, o := range m.objs {
			for _, f := range o.fields {
				if !o.entity && !mention[o.name] {
					continue
				}
				if o.entity && !has(f.owners, s) {
					continue
				}
				if f.requires != "" {
					for _, rn := range strings.Fields(f.requires) {
						for _, g := range o.fields {
							if g.name == rn {
								needExt(o.name, g)
							}
						}
					}
				}
				if p, ok := f.provides[s]; ok {
					if te := m.obj(f.named); te != nil {
						for _, g := range te.fields {
							if g.name == p {
								needExt(te.name, g)
							}
						}
					}
				}
			}
		}
		// interface I1 in s: fields every implementer owns (or shares) in s
		ifaceFields := map[string][]string{"Node": nil}
		if ifaceIn["I1"] {
			for _, fn := range m.ifaces["I1"] {
				all := true
				for _, impl := range m.ifaceOf["I1"] {
					f := m.obj(impl).fieldSet[fn]
					if f == nil || !has(f.owners, s) {
						all = false
					}
				}
				if all {
					ifaceFields["I1"] = append(ifaceFields["I1"], fn)
				}
			}
		}
		for _, in := range []string{"Node", "I1"} {
			if !ifaceIn[in] {
				continue
			}
			fmt.Fprintf(&sdl, "interface %s { id: ID!", in)
			tf := TypeField{TypeName: in, FieldNames: []string{"id"}}
			for _, fn := range ifaceFields[in] {
				p := m.table[fn]
				fmt.Fprintf(&sdl, " %s%s: %s", p.name, p.args, p.typ)
				tf.FieldNames = append(tf.FieldNames, fn)
			}
			sdl.WriteString(" }\n")
			md.ChildNodes = append(md.ChildNodes, tf)
		}
		if unionIn {
			fmt.Fprintf(&sdl, "union U = %s\n", strings.Join(m.union, " | "))
		}
		for _, o := range m.objs {
			if !mention[o.name] {
				continue
			}
			var impls []string
			for _, in := range o.ifaces {
				if ifaceIn[in] {
					impls = append(impls, in)
				}
			}
			impl := ""
			if len(impls) > 0 {
				impl = " implements " + strings.Join(impls, " & ")
			}
			if !o.entity {
				fmt.Fprintf(&sdl, "type %s%s {", o.name, impl)
				tf := TypeField{TypeName: o.name}
				for _, f := range o.fields {
					fmt.Fprintf(&sdl, " %s%s: %s", f.name, f.args, f.typ)
					tf.FieldNames = append(tf.FieldNames, f.name)
				}
				sdl.WriteString(" }\n")
				md.ChildNodes = append(md.ChildNodes, tf)
				continue
			}
			var own []*field
			for _, f := range o.fields {
				if has(f.owners, s) {
					own = append(own, f)
				}
			}
			sku := has(o.skuSubs, s)
			nestedHere := o.nested != nil && has(o.nested.subs, s)
			resolvable := len(own) > 0 || sku || nestedHere
			keyDir := `@key(fields: "id")`
			if !resolvable {
				keyDir = `@key(fields: "id", resolvable: false)`
			}
			// the second key may come first and may be declared without a resolver (id stays
			// resolvable wherever it was, so every entity remains reachable)
			skuFirst, skuResolvable := false, true
			if sku && resolvable && len(own) > 0 {
				switch o.keyVariant[s] {
				case 0:
					skuFirst = true
				case 1:
					skuResolvable = false
				case 2:
					skuFirst, skuResolvable = true, false
				}
			}
			if sku {
				skuDir := `@key(fields: "sku")`
				if !skuResolvable {
					skuDir = `@key(fields: "sku", resolvable: false)`
					m.feat["second-key-unresolvable"] = true
				}
				if skuFirst {
					keyDir = skuDir + " " + keyDir
					m.feat["second-key-first"] = true
				} else {
					keyDir += " " + skuDir
				}
			}
			if nestedHere {
				keyDir += ` @key(fields: "info { kid }")`
			}
			fmt.Fprintf(&sdl, "type %s%s %s { id: ID!", o.name, impl, keyDir)
			tf := TypeField{TypeName: o.name, FieldNames: []string{"id"}}
			if sku {
				sdl.WriteString(" sku: ID!")
				tf.FieldNames = append(tf.FieldNames, "sku")
			}
			if nestedHere {
				fmt.Fprintf(&sdl, " info: %s! @shareable", o.nested.typ)
				tf.FieldNames = append(tf.FieldNames, "info")
			}
			for _, f := range own {
				delete(external[o.name], f.name)
				fmt.Fprintf(&sdl, " %s%s: %s", f.name, f.args, f.typ)
				if len(f.owners) > 1 {
					sdl.WriteString(" @shareable")
				}
				if f.requires != "" {
					fmt.Fprintf(&sdl, " @requires(fields: %q)", f.requires)
					md.Requires = append(md.Requires, FedCfg{TypeName: o.name, FieldName: f.name, SelectionSet: f.requires})
				}
				if p, ok := f.provides[s]; ok {
					fmt.Fprintf(&sdl, " @provides(fields: %q)", p)
					md.Provides = append(md.Provides, FedCfg{TypeName: o.name, FieldName: f.name, SelectionSet: p})
				}
				tf.FieldNames = append(tf.FieldNames, f.name)
			}
			var exts []string
			for en := range external[o.name] {
				exts = append(exts, en)
			}
			sort.Strings(exts)
			for _, en := range exts {
				g := external[o.name][en]
				fmt.Fprintf(&sdl, " %s%s: %s @external", g.name, g.args, g.typ)
				tf.ExternalFieldNames = append(tf.ExternalFieldNames, en)
			}
			sdl.WriteString(" }\n")
			md.RootNodes = append(md.RootNodes, tf)
			if nestedHere {
				fmt.Fprintf(&sdl, "type %s { kid: ID! @shareable", o.nested.typ)
				ktf := TypeField{TypeName: o.nested.typ, FieldNames: []string{"kid"}}
				for _, ex := range o.nested.extras {
					if ex.owner == s {
						fmt.Fprintf(&sdl, " %s: %s", ex.name, ex.typ)
						ktf.FieldNames = append(ktf.FieldNames, ex.name)
					}
				}
				sdl.WriteString(" }\n")
				md.ChildNodes = append(md.ChildNodes, ktf)
				md.Keys = append(md.Keys, FedCfg{TypeName: o.name, SelectionSet: "info { kid }"})
			}
			idKey := FedCfg{TypeName: o.name, SelectionSet: "id", DisableEntityResolver: !resolvable}
			skuKey := FedCfg{TypeName: o.name, SelectionSet: "sku", DisableEntityResolver: !skuResolvable}
			switch {
			case sku && skuFirst:
				md.Keys = append(md.Keys, skuKey, idKey)
			case sku:
				md.Keys = append(md.Keys, idKey, skuKey)
			default:
				md.Keys = append(md.Keys, idKey)
			}
			if !resolvable {
				m.feat["resolvable-false"] = true
			}
		}
		// value-type provides (a value type field returning an entity with @provides) — provides map is per owner; value types have no owners, so none.
		l.Subs = append(l.Subs, Sub{Name: fmt.Sprintf("s%d", s), SDL: sdl.String(), Meta: md})
	}
	for f := range m.feat {
		l.Features = append(l.Features, f)
	}
	sort.Strings(l.Features)
	sort.Strings(l.KeyScalars)
	return l
}

// repaired lists layout classes whose finding was repaired in /repo by a fix: commit: they
// are generated again by default.
var repaired = map[string]bool{"split-iface-composite": true, "provides-on-iface-field": true}

func allowed(o Options, class string) bool {
	return (o.Allow[class] || repaired[class]) && !o.Exclude[class]
}
