package inputref

import (
	"testing"

	"pgregory.net/rapid"
)

// Validation of the oracle itself against hand examples from the specification. This is
// not evidence for any property.

func TestBlockStringSpecExample(t *testing.T) {
	// §2.9.4: the two spellings denote the same value.
	block := "\"\"\"\n    Hello,\n      World!\n\n    Yours,\n      GraphQL.\n  \"\"\""
	quoted := `"Hello,\n  World!\n\nYours,\n  GraphQL."`
	a, err := ParseLiteral(block, LexOpts{})
	if err != nil {
		t.Fatal(err)
	}
	b, err := ParseLiteral(quoted, LexOpts{})
	if err != nil {
		t.Fatal(err)
	}
	if a.S != b.S {
		t.Fatalf("block %q != quoted %q", a.S, b.S)
	}
	for in, want := range map[string]string{
		`""""""`:                      "",
		`"""  """`:                    "",
		"\"\"\"\n\n\"\"\"":            "",
		`"""a"""`:                     "a",
		`""" a """`:                   " a ",
		`"""a\"""b"""`:                `a"""b`,
		`"""a" """`:                   `a" `,
		"\"\"\"a\\n\"\"\"":            `a\n`,
		"\"\"\"\n  a\n   b\n\"\"\"":   "a\n b",
		"\"\"\"  a\n   b\n  c\"\"\"":  "  a\n b\nc",
		"\"\"\"a\r\n  b\r  c\"\"\"":   "a\nb\nc",
		"\"\"\"\n\t a\n\t  b\"\"\"":   "a\n b",
		"\"\"\"a\n\n  b\n   \n\"\"\"": "a\n\nb",
	} {
		v, err := ParseLiteral(in, LexOpts{})
		if err != nil {
			t.Fatalf("%q: %v", in, err)
		}
		if v.S != want || !v.Block {
			t.Errorf("%q: got %q want %q", in, v.S, want)
		}
	}
}

func TestStringEscapes(t *testing.T) {
	for in, want := range map[string]string{
		`""`:                        "",
		`"a\"b\\c\/d\b\f\n\r\t"`:    "a\"b\\c/d\b\f\n\r\t",
		`"\u00e9\u0041"`:            "\xc3\xa9A",
		`"\uD83D\uDE00"`:            "\xf0\x9f\x98\x80",
		`"\ud83d\ude00x"`:           "\xf0\x9f\x98\x80x",
		`"\u{1F600}\u{41}\u{00e9}"`: "\xf0\x9f\x98\x80A\xc3\xa9",
		"\"tab\there\"":             "tab\there",
		`"\u0000"`:                  "\x00",
	} {
		v, err := ParseLiteral(in, LexOpts{})
		if err != nil {
			t.Fatalf("%q: %v", in, err)
		}
		if v.S != want {
			t.Errorf("%q: got %q want %q", in, v.S, want)
		}
	}
	for _, bad := range []string{`"\uD83D"`, `"\uDE00"`, `"\uD83D\u0041"`, `"\x"`, "\"a\nb\"", `"\u{110000}"`, `"\u{D800}"`, `"\u{}"`, `"abc`, `"\u12"`, `"""a`, `""""`} {
		if v, err := ParseLiteral(bad, LexOpts{}); err == nil {
			t.Errorf("%q accepted as %q", bad, v.S)
		}
	}
}

func TestNumbers(t *testing.T) {
	for _, ok := range []string{"0", "-0", "1", "-1", "123", "1.5", "1e5", "1E5", "1e+5", "1e-5", "1.5e-10", "0.0", "-0.0e-0"} {
		if _, err := ParseLiteral(ok, LexOpts{}); err != nil {
			t.Errorf("%q rejected: %v", ok, err)
		}
	}
	for _, bad := range []string{"01", "-", "1.", ".5", "1e", "1e+", "1.5.5", "1a", "0x1", "1.0e", "00", "1_0", "- 1"} {
		if _, err := ParseLiteral(bad, LexOpts{}); err == nil {
			t.Errorf("%q accepted", bad)
		}
	}
	eq := func(a, b string, want bool) {
		da, err1 := ParseDec(a)
		db, err2 := ParseDec(b)
		if err1 != nil || err2 != nil {
			t.Fatalf("%v %v", err1, err2)
		}
		if (da.Key() == db.Key()) != want {
			t.Errorf("%s == %s: got %v want %v (%s, %s)", a, b, !want, want, da.Key(), db.Key())
		}
	}
	eq("1", "1.0", true)
	eq("-0", "0", true)
	eq("-0.0e5", "0", true)
	eq("1e2", "100", true)
	eq("1E+2", "100.000", true)
	eq("1e-5", "0.00001", true)
	eq("123456789012345678901234567890", "123456789012345678901234567891", false)
	eq("9007199254740993", "9007199254740992", false)
	eq("1e400", "1e401", false)
	eq("0.1", "0.10", true)
	eq("-1.5", "1.5", false)
	for s, want := range map[string]bool{"1": true, "1.0": true, "1e2": true, "1.5": false, "2147483647": true, "2147483648": false, "-2147483648": true, "-2147483649": false, "3000000000": false, "1e400": false, "1e-1": false, "0.0": true, "10e-1": true} {
		d, _ := ParseDec(s)
		if d.Int32() != want {
			t.Errorf("Int32(%s) = %v", s, d.Int32())
		}
	}
}

func TestListCoercionSpecTable(t *testing.T) {
	s := &Schema{}
	// §3.11 table of list input coercion.
	for _, c := range []struct{ typ, in, want string }{
		{"[Int]", "[1, 2, 3]", "[#1e0,#2e0,#3e0]"},
		{"[Int]", `[1, "b", true]`, "error"},
		{"[Int]", "1", "[#1e0]"},
		{"[Int]", "null", "null"},
		{"[[Int]]", "[[1], [2, 3]]", "[[#1e0],[#2e0,#3e0]]"},
		{"[[Int]]", "[1, 2, 3]", "[[#1e0],[#2e0],[#3e0]]"},
		{"[[Int]]", "1", "[[#1e0]]"},
		{"[[Int]]", "null", "null"},
		{"[Int!]", "[1, null]", "error"},
		{"[Int]!", "null", "error"},
		{"[Int!]!", "[]", "[]"},
	} {
		v, err := ParseJSON(c.in)
		if err != nil {
			t.Fatal(err)
		}
		out, issues := s.CoerceJSON(MustType(c.typ), v, Path{{Name: "v"}})
		got := Canon(out)
		if len(issues) > 0 {
			got = "error"
		}
		if got != c.want {
			t.Errorf("%s <- %s: got %s want %s", c.typ, c.in, got, c.want)
		}
		lit, err := ParseLiteral(c.in, LexOpts{})
		if err != nil {
			t.Fatal(err)
		}
		lv, _, lerr := s.CoerceLiteral(MustType(c.typ), lit, nil)
		got = Canon(lv)
		if lerr != nil {
			got = "error"
		}
		if got != c.want {
			t.Errorf("literal %s <- %s: got %s want %s", c.typ, c.in, got, c.want)
		}
	}
}

func TestInputObjectCoercionSpecTable(t *testing.T) {
	// §3.10 example table: input ExampleInputObject { a: String  b: Int! }
	s := &Schema{Inputs: []Input{
		{Name: "Ex", Fields: []Field{{Name: "a", Type: "String"}, {Name: "b", Type: "Int!"}}},
		{Name: "One", OneOf: true, Fields: []Field{{Name: "x", Type: "Int"}, {Name: "y", Type: "String"}}},
		{Name: "Def", Fields: []Field{{Name: "r", Type: "Int!", Default: "5"}, {Name: "l", Type: "[Ex!]", Default: "[]"}}},
	}}
	for _, c := range []struct{ typ, in, want string }{
		{"Ex", `{"a":"abc","b":123}`, `{"a":"abc","b":#123e0}`},
		{"Ex", `{"a":null,"b":123}`, `{"a":null,"b":#123e0}`},
		{"Ex", `{"b":123}`, `{"b":#123e0}`},
		{"Ex", `{"a":"abc"}`, "error"},
		{"Ex", `{"a":"abc","b":null}`, "error"},
		{"Ex", `{"b":123,"c":"xyz"}`, "error"},
		{"Ex", `{"b":"123"}`, "error"},
		{"Ex", `{"b":1.5}`, "error"},
		{"Ex", `{"b":3000000000}`, "error"},
		{"Ex", `"str"`, "error"},
		{"Ex", `[{"b":1}]`, "error"},
		{"[Ex]", `{"b":1}`, `[{"b":#1e0}]`},
		{"One", `{"x":1}`, `{"x":#1e0}`},
		{"One", `{"x":1,"y":"s"}`, "error"},
		{"One", `{"x":null}`, "error"},
		{"One", `{}`, "error"},
		{"One", `{"x":1,"y":null}`, "error"},
		{"Def", `{}`, `{"l":[],"r":#5e0}`},
		{"Def", `{"r":null}`, "error"},
		{"Def", `{"l":null}`, `{"l":null,"r":#5e0}`},
		{"Def", `{"l":[null]}`, "error"},
		{"Def", `{"l":{"b":2}}`, `{"l":[{"b":#2e0}],"r":#5e0}`},
	} {
		v, err := ParseJSON(c.in)
		if err != nil {
			t.Fatal(err)
		}
		out, issues := s.CoerceJSON(MustType(c.typ), v, Path{{Name: "v"}})
		got := Canon(out)
		if len(issues) > 0 {
			got = "error"
		}
		if got != c.want {
			t.Errorf("%s <- %s: got %s want %s (%v)", c.typ, c.in, got, c.want, issues)
		}
	}
	// ID and Float
	for _, c := range []struct{ typ, in, want string }{
		{"ID", `"x"`, `"x"`}, {"ID", `4`, `"4"`}, {"ID", `1.5`, "error"}, {"ID", `true`, "error"}, {"ID", `3000000000`, `"3000000000"`},
		{"Float", `1`, `#1e0`}, {"Float", `1.5`, `#15e-1`}, {"Float", `"1.5"`, "error"}, {"String", `1`, "error"}, {"Boolean", `0`, "error"}, {"Boolean", `"true"`, "error"},
	} {
		v, _ := ParseJSON(c.in)
		out, issues := s.CoerceJSON(MustType(c.typ), v, Path{{Name: "v"}})
		got := Canon(out)
		if len(issues) > 0 {
			got = "error"
		}
		if got != c.want {
			t.Errorf("%s <- %s: got %s want %s", c.typ, c.in, got, c.want)
		}
	}
}

func TestCoerceVariables(t *testing.T) {
	s := &Schema{}
	decls := []VarDecl{{Name: "a", Type: "Int!"}, {Name: "b", Type: "Int"}, {Name: "c", Type: "Int", Default: "3"}, {Name: "d", Type: "[Int!]!", Default: "7"}}
	vars, _ := ParseJSON(`{"a":1,"c":null,"zz":true}`)
	got, issues := s.CoerceVariables(decls, vars)
	if len(issues) != 0 {
		t.Fatal(issues)
	}
	if Canon(got["a"]) != "#1e0" || got["b"] != nil || Canon(got["c"]) != "null" || Canon(got["d"]) != "[#7e0]" {
		t.Fatalf("%v %v %v %v", Canon(got["a"]), got["b"], Canon(got["c"]), Canon(got["d"]))
	}
	_, issues = s.CoerceVariables(decls, nil)
	if len(issues) != 1 || issues[0].Kind != IssMissingVariable {
		t.Fatal(issues)
	}
	vars, _ = ParseJSON(`{"a":null}`)
	_, issues = s.CoerceVariables(decls, vars)
	if len(issues) != 1 || issues[0].Kind != IssNullInNonNull {
		t.Fatal(issues)
	}
}

// Generated values and literals must be accepted by the reference ("coercible by
// construction" is a claim about the generator that the oracle re-checks).
func TestGeneratorsAgreeWithReference(t *testing.T) {
	rapid.Check(t, func(rt *rapid.T) {
		s := GenSchema(rt)
		g := &Gen{T: rt, S: s, Fancy: rapid.Bool().Draw(rt, "fancy")}
		typ := g.GenVarType()
		v := g.JSONValue(typ, 0)
		text := JSONTextStyled(v, g.JSONWhitespace())
		back, err := ParseJSON(text)
		if err != nil {
			rt.Fatalf("generated JSON %q does not parse: %v", text, err)
		}
		if _, issues := s.CoerceJSON(typ, back, Path{{Name: "v"}}); len(issues) > 0 {
			rt.Fatalf("schema\n%s\ntype %s value %s: %v", s.SDL(false), typ, text, issues)
		}
		lit := g.Literal(typ, 0, true, false)
		lv, err := ParseLiteral(lit, LexOpts{})
		if err != nil {
			rt.Fatalf("generated literal %q does not parse: %v", lit, err)
		}
		var decls []VarDecl
		for _, gv := range g.Vars {
			decls = append(decls, gv.Decl)
		}
		cv, issues := s.CoerceVariables(decls, VarsObject(g.Vars))
		if len(issues) > 0 {
			rt.Fatalf("generated variables do not coerce: %v", issues)
		}
		if _, _, err := s.CoerceLiteral(typ, lv, cv); err != nil {
			rt.Fatalf("schema\n%s\ntype %s literal %s vars %s: %v", s.SDL(false), typ, lit, JSONText(VarsObject(g.Vars)), err)
		}
	})
}
