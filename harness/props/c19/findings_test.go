package c19

import (
	"context"
	"fmt"
	"time"

	"github.com/wundergraph/graphql-go-tools/execution/subscription"
	"github.com/wundergraph/graphql-go-tools/execution/subscription/websocket"

	"verif/harness/pbt"
)

// Directed probes of the recorded findings. A probe drives a fixed case through the same rig
// and acceptor as the generated cases and reports the first violation the recogniser
// attributes to its finding.

func probeCase(finding string, cases ...Case) func() string {
	return func() string {
		for _, c := range cases {
			out := drive(c)
			if out.inconclusive != "" || out.wedged != "" {
				continue
			}
			res := accept(c, out.hist, true)
			for _, v := range res.viols {
				if v.Finding == finding {
					return fmt.Sprintf("[%s] %s; history: %s", c.Proto, v.Msg, short(trace(out.hist), 600))
				}
			}
		}
		return ""
	}
}

// trace is the client-visible part of a history.
func trace(h []event) string {
	var keep []event
	for _, e := range h {
		switch e.K {
		case evR, evW, evC, evREL, evEOF:
			keep = append(keep, e)
		}
	}
	return histString(keep)
}

func sub(id string, x Script) Msg { return Msg{K: "sub", ID: id, X: &x} }

var (
	// init, subscribe(1) [query], complete(1): the client's complete crosses the server's own
	caseStopTWS = Case{Proto: protoTWS, Msgs: []Msg{{K: "init"}, sub("1", Script{Op: "query", End: "ok", Gate: -1, Rel: -1}), {K: "complete", ID: "1"}}}
	// the same under graphql-ws, and a duplicated client stop for a subscription
	caseStopGWS = Case{Proto: protoGWS, Msgs: []Msg{{K: "init"}, sub("1", Script{Op: "subscription", N: 1, End: "hold", Gate: -1, Rel: -1}), {K: "complete", ID: "1"}, {K: "complete", ID: "1"}}}
	// subscription whose executor is released after the client's complete
	caseEmitTWS = Case{Proto: protoTWS, Msgs: []Msg{{K: "init"}, sub("1", Script{Op: "subscription", N: 2, End: "hold", Gate: 0, OnCancel: "ignore", Rel: 2}), {K: "complete", ID: "1"}}}
	// a query that is still running when the client completes it
	caseEmitGWS = Case{Proto: protoGWS, Msgs: []Msg{{K: "init"}, sub("2", Script{Op: "query", End: "ok", Gate: 0, OnCancel: "ignore", Rel: 2}), {K: "complete", ID: "2"}}}
	// a subscription that failed (server sent error(1)) keeps its id: re-subscribing closes with 4409
	caseFailedTWS = Case{Proto: protoTWS, Msgs: []Msg{{K: "init"}, sub("1", Script{Op: "subscription", End: "error", Gate: -1, Rel: -1}), sub("1", Script{Op: "query", End: "ok", Gate: -1, Rel: -1})}}
	caseFailedGWS = Case{Proto: protoGWS, Msgs: []Msg{{K: "init"}, sub("1", Script{Op: "subscription", End: "error", Gate: -1, Rel: -1}), sub("1", Script{Op: "query", End: "ok", Gate: -1, Rel: -1})}}
)

func probes() pbt.Probes {
	return pbt.Probes{
		fStop:   {Input: []Case{caseStopTWS, caseStopGWS}, Fn: probeCase(fStop, caseStopTWS, caseStopGWS)},
		fEmit:   {Input: []Case{caseEmitTWS, caseEmitGWS}, Fn: probeCase(fEmit, caseEmitTWS, caseEmitGWS)},
		fFailed: {Input: []Case{caseFailedTWS, caseFailedGWS}, Fn: probeFailed},
	}
}

// probeFailed: besides the 4409 on re-subscribe, the other face of the same defect: with a
// short subscription update interval the failed subscription is executed again and a second
// error(1) follows the first one (one-sided wait: if the re-execution is not observed within
// the watchdog only the first face is reported).
func probeFailed() string {
	first := probeCase(fFailed, caseFailedTWS, caseFailedGWS)()
	if first == "" {
		return ""
	}
	c := Case{Proto: protoTWS, Msgs: []Msg{{K: "init"}, sub("1", Script{Op: "subscription", End: "error", Gate: -1, Rel: -1})}}
	r := newRig(c)
	ctx, cancel := context.WithCancel(context.Background())
	defer cancel()
	proto, err := websocket.NewProtocolGraphQLTransportWSHandlerWithOptions(r, websocket.ProtocolGraphQLTransportWSHandlerOptions{CustomKeepAliveInterval: time.Hour, CustomInitTimeOutDuration: time.Hour})
	if err != nil {
		return first
	}
	h, err := subscription.NewUniversalProtocolHandlerWithOptions(r, proto, r, subscription.UniversalProtocolHandlerOptions{CustomSubscriptionUpdateInterval: 2 * time.Millisecond, CustomReadErrorTimeOut: time.Hour})
	if err != nil {
		return first
	}
	done := make(chan struct{})
	go func() { defer close(done); h.Handle(ctx) }()
	rq := func(n int) bool {
		return r.wait(wdReady, func() bool {
			k := 0
			for _, e := range r.hist {
				if e.K == evRQ {
					k++
				}
			}
			return k > n
		})
	}
	second := ""
	for i, m := range c.Msgs {
		if !rq(i) {
			break
		}
		raw := wire(c.Proto, i, m)
		r.mu.Lock()
		r.cur = i
		r.logLocked(event{K: evR, M: i, Raw: string(raw), ID: m.ID})
		r.mu.Unlock()
		r.next <- raw
	}
	if r.wait(3*time.Second, func() bool {
		k := 0
		for _, e := range r.hist {
			if e.K == evW && e.Type == "error" && e.ID == "1" {
				k++
			}
		}
		return k >= 2
	}) {
		second = "; with CustomSubscriptionUpdateInterval=2ms the failed subscription is executed again and error(1) is sent repeatedly: " + short(trace(r.snapshot()), 300)
	}
	r.mu.Lock()
	if r.connected {
		r.connected = false
		close(r.closedCh)
	}
	r.mu.Unlock()
	select {
	case <-done:
	case <-time.After(wdDone):
	}
	return first + second
}
