package c17

// Directed probes of the recorded findings: each returns a non-empty description while the
// defect reproduces on this tree.

import (
	"strings"

	"verif/harness/pbt"
)

type probeInput struct {
	SDL   string `json:"sdl"`
	Query string `json:"query,omitempty"`
	Vars  string `json:"vars,omitempty"`
}

// probeSchema runs the facts part on one SDL and reports what its recognisers attribute to id.
func probeSchema(id, sdl string) func() string {
	return func() string {
		v, bad := evalSchemaCase(schemaCase{SDL: sdl}, &pbt.Rec{})
		if v == nil {
			if bad.Msg != "" {
				return "probe could not run: " + bad.Msg
			}
			return ""
		}
		return strings.Join(v.explained[id], "; ")
	}
}

// probeQuery runs the engine part on one SDL + query.
func probeQuery(id, sdl, query, vars string) func() string {
	return func() string {
		v, bad := evalEngineCase(engineCase{SDL: sdl, Queries: []queryCase{{Query: query, Vars: vars}}}, &pbt.Rec{})
		if v == nil {
			if bad.Msg != "" {
				return "probe could not run: " + bad.Msg
			}
			return ""
		}
		return strings.Join(v.explained[id], "; ")
	}
}

const (
	sdlArgDeprecated   = "type Query {\n  ping: String\n  f(old: Int @deprecated(reason: \"use new\"), new: Int): Int\n}\ninput In {\n  a: Int\n  gone: Int = 1 @deprecated\n}\n"
	sdlRepeatable      = "type Query {\n  ping: String\n}\ndirective @tag(name: String) repeatable on FIELD_DEFINITION | OBJECT\n"
	sdlIfaceImplements = "type Query {\n  ping: String\n  n: Named\n}\ninterface Node {\n  id: ID!\n}\ninterface Named implements Node {\n  id: ID!\n  name: String\n}\n"
	sdlSpecifiedBy     = "type Query {\n  ping: String\n  d: Date\n}\nscalar Date @specifiedBy(url: \"https://example.com/date\")\n"
	sdlSchemaDesc      = "\"the schema\"\nschema {\n  query: Query\n}\ntype Query {\n  ping: String\n}\n"
	sdlEscapedReason   = "type Query {\n  ping: String\n  a: Int @deprecated(reason: \"say \\\"hi\\\" now\")\n}\n"
	sdlShadowRoot      = "schema {\n  query: RootQ\n}\ntype RootQ {\n  ping: String\n  m: Mutation\n}\ntype Mutation {\n  name: String\n}\n"
	sdlNameClash       = "directive @Tag on FIELD\ntype Query {\n  ping: String\n  t: Tag\n}\nenum Tag {\n  A\n}\n"
	sdlEnumDeprecated  = "type Query {\n  ping: String\n  e: E\n}\nenum E {\n  A\n  B @deprecated(reason: \"no\")\n}\n"
)

func probes() pbt.Probes {
	p := pbt.Probes{}
	addS := func(id, sdl string) {
		p[id] = pbt.ProbeDef{Input: probeInput{SDL: sdl}, Fn: probeSchema(id, sdl)}
	}
	addQ := func(id, sdl, q, vars string) {
		p[id] = pbt.ProbeDef{Input: probeInput{SDL: sdl, Query: q, Vars: vars}, Fn: probeQuery(id, sdl, q, vars)}
	}
	addS("C17-converter-drops-input-value-deprecation", sdlArgDeprecated)
	addS("C17-converter-drops-repeatable", sdlRepeatable)
	addS("C17-converter-drops-interface-implements", sdlIfaceImplements)
	addS("C17-converter-drops-specified-by", sdlSpecifiedBy)
	addS("C17-converter-drops-schema-description", sdlSchemaDesc)
	addS("C17-string-source-text-exposed", sdlEscapedReason)
	addS("C17-default-named-type-becomes-root-despite-schema-definition", sdlShadowRoot)
	addS("C17-type-kind-wrong-when-directive-shares-name", sdlNameClash)
	addQ("C17-engine-fails-when-query-type-shares-name-with-directive", "directive @Query on FIELD\ntype Query {\n  ping: String\n}\n", `{ __schema { queryType { name } } }`, "")
	reuseSDLs := []string{"schema {\n  query: Query\n  subscription: Sub1\n}\ntype Query {\n  ping: String\n}\ntype Sub1 {\n  s: Int\n}\n", "type Query {\n  ping: String\n  a: Sub1\n}\ntype Sub1 {\n  s: Int\n}\n"}
	p["C17-generator-reuse-keeps-root-type-names"] = pbt.ProbeDef{Input: reuseCase{SDLs: reuseSDLs}, Fn: func() string {
		v, bad := evalReuseCase(reuseCase{SDLs: reuseSDLs}, &pbt.Rec{})
		if v == nil {
			return bad.Msg
		}
		return strings.Join(v.explained["C17-generator-reuse-keeps-root-type-names"], "; ")
	}}
	addQ("C17-alias-on-nested-introspection-field", sdlEnumDeprecated, `{ __type(name: "E") { k: kind name } }`, "")
	addQ("C17-includeDeprecated-lost-when-operation-has-variables", sdlEnumDeprecated, `query Q($n: String!) { __type(name: $n) { enumValues(includeDeprecated: true) { name } } }`, `{"n":"E"}`)
	addQ("C17-type-reference-not-expandable", sdlIfaceImplements, `{ __type(name: "Named") { interfaces { name fields { name } } } }`, "")
	addQ("C17-root-typename-before-introspection-field-with-renamed-query-type", "schema {\n  query: RootQ\n}\ntype RootQ {\n  ping: String\n}\n", `{ __typename __schema { queryType { name } } }`, "")
	return p
}
