package c18

import (
	"pgregory.net/rapid"
	"verif/harness/pbt"
)

// ---- generators -------------------------------------------------------------------------
//
// Everything is drawn from rapid. Tuples come from a small product and are usually one-coordinate
// mutations of each other, so "almost the same connection key" is the common situation, not the
// rare one. Subscriptions prefer tuple 0 so that several of them share a connection.

func genTuple(t *rapid.T, label string) Tuple {
	tp := Tuple{
		Endpoint: rapid.IntRange(0, 1).Draw(t, label+".ep"),
		Header:   genHeader(t, label+".hdr"),
		SSE:      rapid.IntRange(0, 4).Draw(t, label+".sse") == 0,
	}
	if tp.SSE {
		tp.Proto = rapid.IntRange(0, 1).Draw(t, label+".method")
	} else {
		tp.Proto = rapid.IntRange(0, 2).Draw(t, label+".proto")
		tp.Init = rapid.IntRange(0, 2).Draw(t, label+".init")
	}
	return tp
}

// genHeader draws a header set; multi-valued sets are listed more than once (rapid favours neither).
func genHeader(t *rapid.T, label string) int {
	return rapid.SampledFrom([]int{0, 1, 2, 3, 3, 4, 5, 6, 7, 8, 9, 10, 11, 1, 3}).Draw(t, label)
}

// mutate changes exactly one coordinate of the key.
func mutate(t *rapid.T, b Tuple, label string) Tuple {
	m := b
	for tries := 0; tries < 4 && m.canonical() == b.canonical(); tries++ {
		switch rapid.IntRange(0, 4).Draw(t, label+".coord") {
		case 0:
			m.Endpoint = 1 - b.Endpoint
		case 1:
			// half of the time a header set that differs only where a sloppy key would not look: same keys,
			// same first value under each key, a later value / the value count differs
			var near []int
			for h := range headerSets {
				if sameFirstValues(b.Header, h) {
					near = append(near, h)
				}
			}
			if len(near) > 0 && rapid.Bool().Draw(t, label+".near") {
				m.Header = rapid.SampledFrom(near).Draw(t, label+".dhnear")
			} else {
				m.Header = genHeader(t, label+".dh")
			}
		case 2:
			if b.SSE {
				m.Proto = 1 - b.Proto
			} else {
				m.Proto = (b.Proto + rapid.IntRange(1, 2).Draw(t, label+".dp")) % 3
			}
		case 3:
			if !b.SSE {
				m.Init = (b.Init + rapid.IntRange(1, 2).Draw(t, label+".di")) % 3
			}
		case 4:
			m.SSE = !b.SSE
			if m.SSE {
				m.Proto, m.Init = b.Proto%2, 0
			}
		}
	}
	return m
}

func genTuples(t *rapid.T, gateP int) []Tuple {
	n := rapid.SampledFrom([]int{1, 1, 2, 2, 2, 3}).Draw(t, "ntuples")
	base := genTuple(t, "t0")
	if rapid.IntRange(0, 9).Draw(t, "t0.forcews") < 7 {
		base.SSE = false // tuple 0 carries most subscriptions: keep it a multiplexing transport most of the time
		if base.Proto > 2 {
			base.Proto = 0
		}
	}
	out := []Tuple{base}
	seen := map[string]bool{base.canonical(): true}
	for len(out) < n {
		var c Tuple
		if rapid.IntRange(0, 3).Draw(t, "tn.mut") > 0 {
			c = mutate(t, out[rapid.IntRange(0, len(out)-1).Draw(t, "tn.of")], "tn")
		} else {
			c = genTuple(t, "tn")
		}
		if seen[c.canonical()] {
			n-- // collision: settle for fewer tuples rather than rejecting the case
			continue
		}
		seen[c.canonical()] = true
		out = append(out, c)
	}
	for i := range out {
		out[i].Gate = rapid.IntRange(0, 99).Draw(t, "gate") < gateP
	}
	return out
}

func genSubs(t *rapid.T, ntuples int) []Sub {
	n := rapid.SampledFrom([]int{2, 2, 3, 3, 3, 4, 4, 5, 6, 8}).Draw(t, "nsubs")
	subs := make([]Sub, n)
	for i := range subs {
		k := 0
		if ntuples > 1 && rapid.IntRange(0, 9).Draw(t, "sub.other") < 4 {
			k = rapid.IntRange(1, ntuples-1).Draw(t, "sub.tuple")
		}
		subs[i] = Sub{Tuple: k, Nexts: rapid.IntRange(0, 3).Draw(t, "sub.nexts"),
			Term: rapid.SampledFrom([]string{"complete", "complete", "error", "none", "none"}).Draw(t, "sub.term")}
	}
	return subs
}

func genIdle(t *rapid.T) int { return rapid.SampledFrom([]int{0, 0, 0, 10, 30}).Draw(t, "idle") }

// genStepped builds a schedule by simulating which actions are enabled. With steer=true the two
// shallow known findings are avoided by construction (no cancel of a subscriber whose Subscribe call
// is in flight while a same-tuple WebSocket subscriber could be affected), so the search continues
// behind them; with steer=false everything is allowed.
func genStepped(t *rapid.T) Case {
	if rapid.IntRange(0, 9).Draw(t, "chain") == 0 {
		return genChain(t)
	}
	c := Case{IdleMs: genIdle(t), LegacyFirst: rapid.IntRange(0, 4).Draw(t, "legacy") == 0}
	c.Tuples = genTuples(t, 25)
	c.Subs = genSubs(t, len(c.Tuples))
	genHandlerActs(t, &c, true)
	steer := rapid.IntRange(0, 9).Draw(t, "steer") < 6 && (pbt.IsKnown(fDialCtx) || pbt.IsKnown(fCancelWrite))
	c.Steer = steer

	n := len(c.Subs)
	started := make([]bool, n)
	cancelled := make([]bool, n)
	precancelled := make([]bool, n)
	releasedH := make([]bool, n)
	returned := make([]bool, n) // model: Subscribe has returned (its tuple's gate was open at or after the start)
	left := make([]int, n)
	for i, s := range c.Subs {
		left[i] = len(s.script())
	}
	open := make([]bool, len(c.Tuples))
	for k, tp := range c.Tuples {
		open[k] = !tp.Gate
	}
	drops, idles := 0, 0
	// live WebSocket subscribers of tuple k other than i that a misbehaving cancel could hurt
	othersLive := func(k, i int) bool {
		if c.Tuples[k].SSE {
			return false
		}
		for j := range c.Subs {
			if j != i && c.Subs[j].Tuple == k && started[j] && !cancelled[j] && !(returned[j] && left[j] == 0 && c.Subs[j].Term != "none") {
				return true
			}
		}
		return false
	}
	maxSteps := 6 + 4*n
	for len(c.Steps) < maxSteps {
		type act struct {
			s Step
			w int
		}
		var acts []act
		for i := 0; i < n; i++ {
			k := c.Subs[i].Tuple
			switch {
			case !started[i]:
				if !(precancelled[i] && steer && othersLive(k, i)) {
					acts = append(acts, act{Step{Op: "sub", Sub: i}, 6})
				}
				if !cancelled[i] && (!steer || !othersLive(k, i)) {
					acts = append(acts, act{Step{Op: "cancel", Sub: i}, 1}) // "pre": context cancelled before Subscribe is called
				}
			case !cancelled[i]:
				inflight := !returned[i]
				if !inflight || !steer || !othersLive(k, i) {
					w := 2
					if inflight {
						w = 3
					}
					acts = append(acts, act{Step{Op: "cancel", Sub: i}, w})
				}
			}
			if started[i] && left[i] > 0 && returned[i] {
				acts = append(acts, act{Step{Op: "send", Sub: i}, 5})
			}
			if on := c.Subs[i].On; on != nil && on.Act == "block" && started[i] && !releasedH[i] && len(c.Subs[i].script())-left[i] > on.At {
				acts = append(acts, act{Step{Op: "release", Sub: i}, 1})
			}
		}
		for k := range c.Tuples {
			anyStarted, nStarted := false, 0
			for i := range c.Subs {
				if c.Subs[i].Tuple == k && started[i] {
					anyStarted = true
					nStarted++
				}
			}
			if !open[k] && anyStarted {
				acts = append(acts, act{Step{Op: "ack", Key: k}, 2 + 3*nStarted})
			}
			if anyStarted && drops == 0 {
				acts = append(acts, act{Step{Op: "drop", Key: k}, 1})
			}
		}
		if c.IdleMs > 0 && idles < 2 {
			acts = append(acts, act{Step{Op: "idle"}, 1})
		}
		acts = append(acts, act{Step{Op: "end"}, 1 + len(c.Steps)/4})
		total := 0
		for _, a := range acts {
			total += a.w
		}
		pick := rapid.IntRange(0, total-1).Draw(t, "act")
		var s Step
		for _, a := range acts {
			if pick < a.w {
				s = a.s
				break
			}
			pick -= a.w
		}
		if s.Op == "end" {
			break
		}
		if s.Op == "cancel" && rapid.IntRange(0, 2).Draw(t, "bydeadline") == 0 {
			s.Op = "expire" // the subscriber leaves because its own deadline passes, not because it cancels
		}
		c.Steps = append(c.Steps, s)
		switch s.Op {
		case "sub":
			started[s.Sub] = true
			returned[s.Sub] = open[c.Subs[s.Sub].Tuple] || precancelled[s.Sub]
		case "cancel", "expire":
			cancelled[s.Sub] = true
			if !started[s.Sub] {
				precancelled[s.Sub] = true
			}
			returned[s.Sub] = started[s.Sub]
		case "release":
			releasedH[s.Sub] = true
		case "send":
			left[s.Sub]--
		case "ack":
			open[s.Key] = true
			for i := range c.Subs {
				if c.Subs[i].Tuple == s.Key && started[i] {
					returned[i] = true
				}
			}
		case "drop":
			drops++
			for i := range c.Subs {
				if c.Subs[i].Tuple == s.Key && started[i] {
					returned[i] = true
					left[i] = 0
				}
			}
		case "idle":
			idles++
		}
	}
	return c
}

// genBurst builds a concurrent scenario: every Subscribe starts at once, the upstream streams.
func genBurst(t *rapid.T) Case {
	c := Case{Burst: true, IdleMs: genIdle(t), LegacyFirst: rapid.IntRange(0, 4).Draw(t, "legacy") == 0}
	c.Tuples = genTuples(t, 20)
	c.Subs = genSubs(t, len(c.Tuples))
	steer := rapid.IntRange(0, 9).Draw(t, "steer") < 6 && (pbt.IsKnown(fDialCtx) || pbt.IsKnown(fCancelWrite))
	c.Steer = steer
	perTuple := make([]int, len(c.Tuples))
	for _, s := range c.Subs {
		perTuple[s.Tuple]++
	}
	for i := range c.Subs {
		s := &c.Subs[i]
		s.Nexts = rapid.IntRange(0, 4).Draw(t, "b.nexts")
		kind := rapid.SampledFrom([]string{"", "", "", "", "pre", "race", "init", "mid", "mid"}).Draw(t, "b.cancel")
		alone := perTuple[s.Tuple] == 1 || c.Tuples[s.Tuple].SSE
		if steer && !alone && kind != "mid" {
			kind = "" // a cancel during Subscribe next to same-tuple WebSocket subscribers is the known-finding class
		}
		s.Cancel = kind
		s.Deadline = kind != "" && rapid.IntRange(0, 2).Draw(t, "b.bydeadline") == 0
		switch kind {
		case "race":
			s.At = rapid.IntRange(0, 3).Draw(t, "b.yields")
		case "mid":
			s.At = rapid.IntRange(0, len(s.script())).Draw(t, "b.at")
		}
	}
	genHandlerActs(t, &c, false)
	c.DropAfter = make([]int, len(c.Tuples))
	for k := range c.DropAfter {
		c.DropAfter[k] = -1
		if !c.Tuples[k].SSE && rapid.IntRange(0, 7).Draw(t, "b.drop") == 0 {
			c.DropAfter[k] = rapid.IntRange(0, 6).Draw(t, "b.dropafter")
		}
	}
	return c
}

// genPing: 2-3 WebSocket tuples that negotiate graphql-transport-ws (the only protocol with
// client-initiated pings), some of which fall silent in the middle of the schedule.
func genPing(t *rapid.T) Case {
	// pingLoop checks "no pong since the last ping and that ping is older than PingTimeout" once per
	// PingInterval, right before it sends the next ping. Detection therefore needs PingTimeout <
	// PingInterval (the repo's own test uses 100ms/50ms), and a healthy connection has one whole interval
	// to answer: the interval is the one-sided slack, so it is the generous number here.
	c := Case{Ping: &Ping{IntervalMs: rapid.SampledFrom([]int{400, 500}).Draw(t, "p.interval"), TimeoutMs: 100}}
	n := rapid.IntRange(2, 3).Draw(t, "p.ntuples")
	seen := map[string]bool{}
	for len(c.Tuples) < n {
		tp := Tuple{Endpoint: rapid.IntRange(0, 1).Draw(t, "p.ep"), Header: rapid.IntRange(0, 2).Draw(t, "p.hdr"),
			Init: rapid.IntRange(0, 2).Draw(t, "p.init"), Proto: rapid.SampledFrom([]int{0, 2}).Draw(t, "p.proto")}
		if seen[tp.canonical()] {
			continue
		}
		seen[tp.canonical()] = true
		c.Tuples = append(c.Tuples, tp)
	}
	nSilent := rapid.IntRange(1, n-1).Draw(t, "p.nsilent")
	for k := 0; k < nSilent; k++ {
		c.Ping.Silent = append(c.Ping.Silent, k)
	}
	ns := rapid.IntRange(n, 6).Draw(t, "p.nsubs")
	for i := 0; i < ns; i++ {
		k := i % n
		if i >= n {
			k = rapid.IntRange(0, n-1).Draw(t, "p.tuple")
		}
		c.Subs = append(c.Subs, Sub{Tuple: k, Nexts: rapid.IntRange(1, 3).Draw(t, "p.nexts"), Term: rapid.SampledFrom([]string{"none", "none", "complete"}).Draw(t, "p.term")})
	}
	for i := range c.Subs {
		c.Steps = append(c.Steps, Step{Op: "sub", Sub: i})
	}
	for i := range c.Subs {
		if rapid.Bool().Draw(t, "p.pre") {
			c.Steps = append(c.Steps, Step{Op: "send", Sub: i})
		}
	}
	c.Steps = append(c.Steps, Step{Op: "silence"})
	for round := 0; round < 2; round++ {
		for i := range c.Subs {
			if rapid.IntRange(0, 2).Draw(t, "p.post") > 0 {
				c.Steps = append(c.Steps, Step{Op: "send", Sub: i})
			}
		}
	}
	return c
}

// genHandlerActs scripts what some handlers do from inside the delivery: cancel their own subscription,
// cancel another one (preferably one multiplexed on the same connection), or - stepped only - block until
// released while the schedule goes on around them.
func genHandlerActs(t *rapid.T, c *Case, withBlock bool) {
	acts := []string{"cancel-self", "cancel-other", "block"}
	if !withBlock {
		acts = acts[:2]
	}
	for i := range c.Subs {
		if rapid.IntRange(0, 3).Draw(t, "h.any") != 0 {
			continue
		}
		n := len(c.Subs[i].script())
		if n == 0 {
			continue
		}
		on := &OnMsg{At: rapid.IntRange(0, n-1).Draw(t, "h.at"), Act: rapid.SampledFrom(acts).Draw(t, "h.act"), Other: i}
		if on.Act == "cancel-other" {
			var same, any []int
			for j := range c.Subs {
				if j == i {
					continue
				}
				any = append(any, j)
				if c.Subs[j].Tuple == c.Subs[i].Tuple {
					same = append(same, j)
				}
			}
			switch {
			case len(same) > 0 && rapid.IntRange(0, 3).Draw(t, "h.same") > 0:
				on.Other = rapid.SampledFrom(same).Draw(t, "h.other")
			case len(any) > 0:
				on.Other = rapid.SampledFrom(any).Draw(t, "h.otherany")
			default:
				on.Act = "cancel-self"
			}
		}
		c.Subs[i].On = on
	}
}

// genChain: one gated WebSocket tuple, a first dialler, one or two survivors that are never cancelled and a
// handful of expendable callers, all with equal options, so that everybody but the dialler waits on the same
// coalesced dial. Then the dialler is abandoned (cancel / own deadline), the waiters race for the next dial,
// that dialler is abandoned too, and so on, three to five times in a row, before the upstream finally
// acknowledges. A survivor must end up subscribed however many dials it had to wait through.
func genChain(t *rapid.T) Case {
	tp := genTuple(t, "c.t")
	tp.SSE, tp.Gate = false, true
	if tp.Proto > 2 {
		tp.Proto = 0
	}
	c := Case{Tuples: []Tuple{tp}, LegacyFirst: rapid.IntRange(0, 4).Draw(t, "c.legacy") == 0}
	// Which waiter wins the race for the next dial is up to the scheduler, and finding the winner costs
	// expendable callers (see outcome.abandon), so there are many of them and usually a single survivor.
	expendable := rapid.IntRange(5, 9).Draw(t, "c.expendable")
	survivors := rapid.SampledFrom([]int{1, 1, 1, 2}).Draw(t, "c.survivors")
	for i := 0; i < expendable+survivors; i++ {
		c.Subs = append(c.Subs, Sub{Tuple: 0, Nexts: rapid.IntRange(0, 2).Draw(t, "c.nexts"), Term: rapid.SampledFrom([]string{"none", "complete"}).Draw(t, "c.term")})
	}
	other := -1
	if rapid.Bool().Draw(t, "c.othertuple") { // a bystander on a near-equal, ungated tuple with traffic of its own
		m := mutate(t, tp, "c.m")
		m.Gate = false
		if m.canonical() != tp.canonical() {
			c.Tuples = append(c.Tuples, m)
			c.Subs = append(c.Subs, Sub{Tuple: 1, Nexts: 2, Term: "none"})
			other = len(c.Subs) - 1
		}
	}
	first := expendable                                // index of the first survivor
	c.Steps = append(c.Steps, Step{Op: "sub", Sub: 0}) // the first dialler
	for i := first; i < first+survivors; i++ {
		c.Steps = append(c.Steps, Step{Op: "sub", Sub: i})
	}
	if other >= 0 {
		c.Steps = append(c.Steps, Step{Op: "sub", Sub: other}, Step{Op: "send", Sub: other})
	}
	for i := 1; i < expendable; i++ {
		c.Steps = append(c.Steps, Step{Op: "sub", Sub: i})
	}
	rounds := rapid.IntRange(3, 6).Draw(t, "c.rounds")
	for r := 0; r < rounds; r++ {
		c.Steps = append(c.Steps, Step{Op: "abandon", Key: 0, Sub: first})
		if other >= 0 && r == 1 {
			c.Steps = append(c.Steps, Step{Op: "send", Sub: other})
		}
	}
	c.Steps = append(c.Steps, Step{Op: "ack", Key: 0})
	for round := 0; round < 3; round++ {
		for i := first; i < first+survivors; i++ {
			c.Steps = append(c.Steps, Step{Op: "send", Sub: i})
		}
	}
	return c
}
