package c06

import (
	"bytes"
	"encoding/json"
	"sync"

	"github.com/vektah/gqlparser/v2"
	gqlast "github.com/vektah/gqlparser/v2/ast"
	"github.com/vektah/gqlparser/v2/validator"

	"verif/harness/pbt"
)

var (
	gqlMu      sync.Mutex
	gqlSchemas = map[string]*gqlast.Schema{}
)

// secondOpinion logs (never alarms) whether gqlparser's variable coercion agrees with the
// reference. gqlparser is known to be lax here (DESIGN C06), so disagreement is only a label.
func secondOpinion(c *Case, want bool, o *pbt.Rec) {
	if c.VarsForm != "object" {
		return
	}
	defer func() {
		if recover() != nil {
			o.Label("second-opinion:gqlparser-panicked")
		}
	}()
	sdl := c.Schema.SDL(true)
	gqlMu.Lock()
	schema, ok := gqlSchemas[sdl]
	if !ok {
		if len(gqlSchemas) > 64 {
			gqlSchemas = map[string]*gqlast.Schema{}
		}
		s, err := gqlparser.LoadSchema(&gqlast.Source{Name: "s", Input: sdl})
		if err == nil {
			schema = s
		}
		gqlSchemas[sdl] = schema
	}
	gqlMu.Unlock()
	if schema == nil {
		o.Label("second-opinion:gqlparser-rejects-schema")
		return
	}
	doc, errs := gqlparser.LoadQuery(schema, c.Query)
	if len(errs) > 0 || len(doc.Operations) == 0 {
		o.Label("second-opinion:gqlparser-rejects-operation")
		return
	}
	op := doc.Operations[0]
	if c.OperationName != "" {
		if op = doc.Operations.ForName(c.OperationName); op == nil {
			return
		}
	}
	dec := json.NewDecoder(bytes.NewReader([]byte(c.Vars)))
	dec.UseNumber()
	var vars map[string]interface{}
	if err := dec.Decode(&vars); err != nil {
		return
	}
	_, err := validator.VariableValues(schema, op, vars)
	if (err == nil) == want {
		o.Label("second-opinion:gqlparser-agrees")
	} else if want {
		o.Label("second-opinion:gqlparser-rejects-what-reference-accepts")
	} else {
		o.Label("second-opinion:gqlparser-accepts-what-reference-rejects")
	}
}
