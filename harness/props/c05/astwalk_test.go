package c05

import (
	"fmt"
	"sort"

	"github.com/wundergraph/graphql-go-tools/v2/pkg/ast"
)

// walker is the independent walk over an astparser document. It uses only the exported
// struct fields and slices of ast.Document (none of the repo's accessor helpers), checks
// every ref index it follows against the owning slice and every byte range against the
// input (a failure is reported as a bounds error, never as a Go panic), and produces
//   - the shape tree,
//   - the real selection depth per definition and the number of field nodes (limits oracle).
type walker struct {
	d        *ast.Document
	err      string
	steps    int
	fields   int   // field nodes reachable from root nodes
	maxDepth int   // deepest selection-set nesting of any single definition
	depths   []int // per operation/fragment definition, in root order
}

const maxWalkSteps = 4_000_000

func (w *walker) fail(format string, a ...any) {
	if w.err == "" {
		w.err = fmt.Sprintf(format, a...)
	}
}

func (w *walker) ok() bool {
	w.steps++
	if w.steps > maxWalkSteps {
		w.fail("walk did not finish after %d steps (cyclic refs?)", maxWalkSteps)
	}
	return w.err == ""
}

func (w *walker) idx(what string, i, n int) bool {
	if i < 0 || i >= n {
		w.fail("ref %s=%d outside owning slice of length %d", what, i, n)
		return false
	}
	return w.ok()
}

func (w *walker) bytes(what string, r ast.ByteSliceReference) string {
	in := w.d.Input.RawBytes
	if r.Start > r.End || int(r.End) > len(in) {
		w.fail("byte range %s=[%d,%d) outside input of %d bytes", what, r.Start, r.End, len(in))
		return ""
	}
	return string(in[r.Start:r.End])
}

func isWS(c byte) bool { return c == ' ' || c == '\t' || c == '\r' || c == '\n' }

// blockRaw recovers the raw text between the triple quotes of a block string whose (trimmed)
// content reference is r: the lexer trims white space only, so the reference is widened over
// white space and must then be delimited by """ on both sides. ok=false when it is not (e.g.
// a document that was not produced by parsing, or an unterminated literal).
func (w *walker) blockRaw(r ast.ByteSliceReference) (string, bool) {
	raw, ok, _ := w.blockRawQ(r)
	return raw, ok
}

// blockRawQ also reports whether a further quote touches a delimiter from outside the
// recovered text (four or more quotes in a row), which makes the delimitation ambiguous.
func (w *walker) blockRawQ(r ast.ByteSliceReference) (raw string, ok bool, extraQuote bool) {
	in := w.d.Input.RawBytes
	if r.Start > r.End || int(r.End) > len(in) {
		return "", false, false
	}
	s, e := int(r.Start), int(r.End)
	for s > 0 && isWS(in[s-1]) {
		s--
	}
	for e < len(in) && isWS(in[e]) {
		e++
	}
	if s < 3 || string(in[s-3:s]) != `"""` || e+3 > len(in) || string(in[e:e+3]) != `"""` {
		return "", false, false
	}
	extraQuote = s >= 4 && in[s-4] == '"' || e+3 < len(in) && in[e+3] == '"'
	return string(in[s:e]), true, extraQuote
}

func (w *walker) stringNode(kStr, kBlock, what string, block bool, r ast.ByteSliceReference) *sn {
	content := w.bytes(what, r)
	if !block {
		return mk(kStr, content)
	}
	if raw, ok := w.blockRaw(r); ok {
		return mk(kBlock, blockStringValue(raw))
	}
	return mk(kBlock, blockStringValue(content))
}

func (w *walker) desc(what string, d ast.Description) *sn {
	if !d.IsDefined {
		return nil
	}
	return w.stringNode("desc", "descblock", what+".Description", d.IsBlockString, d.Content)
}

func (w *walker) typ(ref int, depth int) *sn {
	if !w.idx("Type", ref, len(w.d.Types)) {
		return nil
	}
	if depth > len(w.d.Types)+1 {
		w.fail("type ref cycle at Types[%d]", ref)
		return nil
	}
	t := w.d.Types[ref]
	switch t.TypeKind {
	case ast.TypeKindNamed:
		return mk("named", w.bytes("Type.Name", t.Name))
	case ast.TypeKindList:
		return mk("listtype", "", w.typ(t.OfType, depth+1))
	case ast.TypeKindNonNull:
		return mk("nonnull", "", w.typ(t.OfType, depth+1))
	}
	w.fail("Types[%d] has unknown kind %d", ref, t.TypeKind)
	return nil
}

func (w *walker) value(v ast.Value, depth int) *sn {
	if !w.ok() {
		return nil
	}
	if depth > 100000 {
		w.fail("value nesting too deep")
		return nil
	}
	d := w.d
	switch v.Kind {
	case ast.ValueKindString:
		if !w.idx("StringValue", v.Ref, len(d.StringValues)) {
			return nil
		}
		s := d.StringValues[v.Ref]
		return w.stringNode("string", "blockstring", "StringValue.Content", s.BlockString, s.Content)
	case ast.ValueKindBoolean:
		if !w.idx("BooleanValue", v.Ref, len(d.BooleanValues)) {
			return nil
		}
		if d.BooleanValues[v.Ref] {
			return mk("bool", "true")
		}
		return mk("bool", "false")
	case ast.ValueKindInteger:
		if !w.idx("IntValue", v.Ref, len(d.IntValues)) {
			return nil
		}
		raw := w.bytes("IntValue.Raw", d.IntValues[v.Ref].Raw)
		if d.IntValues[v.Ref].Negative {
			raw = "-" + raw
		}
		return mk("int", raw)
	case ast.ValueKindFloat:
		if !w.idx("FloatValue", v.Ref, len(d.FloatValues)) {
			return nil
		}
		raw := w.bytes("FloatValue.Raw", d.FloatValues[v.Ref].Raw)
		if d.FloatValues[v.Ref].Negative {
			raw = "-" + raw
		}
		return mk("float", raw)
	case ast.ValueKindVariable:
		if !w.idx("VariableValue", v.Ref, len(d.VariableValues)) {
			return nil
		}
		return mk("var", w.bytes("VariableValue.Name", d.VariableValues[v.Ref].Name))
	case ast.ValueKindNull:
		return mk("null", "")
	case ast.ValueKindEnum:
		if !w.idx("EnumValue", v.Ref, len(d.EnumValues)) {
			return nil
		}
		return mk("enum", w.bytes("EnumValue.Name", d.EnumValues[v.Ref].Name))
	case ast.ValueKindList:
		if !w.idx("ListValue", v.Ref, len(d.ListValues)) {
			return nil
		}
		n := mk("list", "")
		for _, r := range d.ListValues[v.Ref].Refs {
			if !w.idx("ListValue.Refs", r, len(d.Values)) {
				return nil
			}
			n.add(w.value(d.Values[r], depth+1))
		}
		return n
	case ast.ValueKindObject:
		if !w.idx("ObjectValue", v.Ref, len(d.ObjectValues)) {
			return nil
		}
		n := mk("object", "")
		for _, r := range d.ObjectValues[v.Ref].Refs {
			if !w.idx("ObjectValue.Refs", r, len(d.ObjectFields)) {
				return nil
			}
			f := d.ObjectFields[r]
			n.add(mk("ofield", w.bytes("ObjectField.Name", f.Name), w.value(f.Value, depth+1)))
		}
		return n
	}
	w.fail("value of unknown kind %d", v.Kind)
	return nil
}

func (w *walker) args(refs []int) []*sn {
	var out []*sn
	for _, r := range refs {
		if !w.idx("ArgumentList.Refs", r, len(w.d.Arguments)) {
			return out
		}
		a := w.d.Arguments[r]
		out = append(out, mk("arg", w.bytes("Argument.Name", a.Name), w.value(a.Value, 0)))
	}
	return out
}

func (w *walker) dirs(l ast.DirectiveList) []*sn {
	var out []*sn
	for _, r := range l.Refs {
		if !w.idx("DirectiveList.Refs", r, len(w.d.Directives)) {
			return out
		}
		dv := w.d.Directives[r]
		out = append(out, mk("dir", w.bytes("Directive.Name", dv.Name), w.args(dv.Arguments.Refs)...))
	}
	return out
}

// selset returns the shape and the nesting depth (1 for a flat selection set).
func (w *walker) selset(ref int, nest int) (*sn, int) {
	if !w.idx("SelectionSet", ref, len(w.d.SelectionSets)) {
		return nil, 0
	}
	if nest > 200000 {
		w.fail("selection nesting too deep (cycle?)")
		return nil, 0
	}
	n := mk("sel", "")
	deepest := 0
	for _, sr := range w.d.SelectionSets[ref].SelectionRefs {
		if !w.idx("SelectionSet.SelectionRefs", sr, len(w.d.Selections)) {
			return n, 1 + deepest
		}
		s := w.d.Selections[sr]
		switch s.Kind {
		case ast.SelectionKindField:
			if !w.idx("Selection(Field).Ref", s.Ref, len(w.d.Fields)) {
				return n, 1 + deepest
			}
			f := w.d.Fields[s.Ref]
			w.fields++
			fn := mk("field", w.bytes("Field.Name", f.Name))
			if f.Alias.IsDefined {
				fn.add(mk("alias", w.bytes("Field.Alias", f.Alias.Name)))
			}
			fn.add(w.args(f.Arguments.Refs)...)
			fn.add(w.dirs(f.Directives)...)
			if f.HasSelections {
				c, dp := w.selset(f.SelectionSet, nest+1)
				fn.add(c)
				if dp > deepest {
					deepest = dp
				}
			}
			n.add(fn)
		case ast.SelectionKindFragmentSpread:
			if !w.idx("Selection(FragmentSpread).Ref", s.Ref, len(w.d.FragmentSpreads)) {
				return n, 1 + deepest
			}
			fs := w.d.FragmentSpreads[s.Ref]
			n.add(mk("spread", w.bytes("FragmentSpread.FragmentName", fs.FragmentName), w.dirs(fs.Directives)...))
		case ast.SelectionKindInlineFragment:
			if !w.idx("Selection(InlineFragment).Ref", s.Ref, len(w.d.InlineFragments)) {
				return n, 1 + deepest
			}
			fr := w.d.InlineFragments[s.Ref]
			in := mk("inline", "")
			if fr.TypeCondition.Type != ast.InvalidRef {
				in.add(mk("typecond", "", w.typ(fr.TypeCondition.Type, 0)))
			}
			in.add(w.dirs(fr.Directives)...)
			if fr.HasSelections {
				c, dp := w.selset(fr.SelectionSet, nest+1)
				in.add(c)
				if dp > deepest {
					deepest = dp
				}
			}
			n.add(in)
		default:
			w.fail("Selections[%d] has unknown kind %d", sr, s.Kind)
		}
		if w.err != "" {
			break
		}
	}
	return n, 1 + deepest
}

func opTypeName(t ast.OperationType) string {
	switch t {
	case ast.OperationTypeQuery:
		return "query"
	case ast.OperationTypeMutation:
		return "mutation"
	case ast.OperationTypeSubscription:
		return "subscription"
	}
	return fmt.Sprintf("optype(%d)", t)
}

func (w *walker) inputValues(refs []int) []*sn {
	var out []*sn
	for _, r := range refs {
		if !w.idx("InputValueDefinitionList.Refs", r, len(w.d.InputValueDefinitions)) {
			return out
		}
		iv := w.d.InputValueDefinitions[r]
		n := mk("inputval", w.bytes("InputValueDefinition.Name", iv.Name), w.desc("InputValueDefinition", iv.Description), w.typ(iv.Type, 0))
		if iv.DefaultValue.IsDefined {
			n.add(mk("default", "", w.value(iv.DefaultValue.Value, 0)))
		}
		n.add(w.dirs(iv.Directives)...)
		out = append(out, n)
	}
	return out
}

func (w *walker) fieldDefs(refs []int) []*sn {
	var out []*sn
	for _, r := range refs {
		if !w.idx("FieldDefinitionList.Refs", r, len(w.d.FieldDefinitions)) {
			return out
		}
		fd := w.d.FieldDefinitions[r]
		n := mk("fielddef", w.bytes("FieldDefinition.Name", fd.Name), w.desc("FieldDefinition", fd.Description))
		n.add(w.inputValues(fd.ArgumentsDefinition.Refs)...)
		n.add(w.typ(fd.Type, 0))
		n.add(w.dirs(fd.Directives)...)
		out = append(out, n)
	}
	return out
}

func (w *walker) implements(l ast.TypeList) *sn {
	if len(l.Refs) == 0 {
		return nil
	}
	n := mk("implements", "")
	for _, r := range l.Refs {
		n.add(w.typ(r, 0))
	}
	return n
}

func (w *walker) schemaDef(kind string, s ast.SchemaDefinition) *sn {
	n := mk(kind, "", w.desc("SchemaDefinition", s.Description))
	n.add(w.dirs(s.Directives)...)
	for _, r := range s.RootOperationTypeDefinitions.Refs {
		if !w.idx("RootOperationTypeDefinitionList.Refs", r, len(w.d.RootOperationTypeDefinitions)) {
			return n
		}
		ro := w.d.RootOperationTypeDefinitions[r]
		n.add(mk("rootop", opTypeName(ro.OperationType), mk("named", w.bytes("RootOperationTypeDefinition.NamedType", ro.NamedType.Name))))
	}
	return n
}

func (w *walker) objectDef(kind string, o ast.ObjectTypeDefinition) *sn {
	n := mk(kind, w.bytes("ObjectTypeDefinition.Name", o.Name), w.desc("ObjectTypeDefinition", o.Description), w.implements(o.ImplementsInterfaces))
	n.add(w.dirs(o.Directives)...)
	n.add(w.fieldDefs(o.FieldsDefinition.Refs)...)
	return n
}

func (w *walker) interfaceDef(kind string, o ast.InterfaceTypeDefinition) *sn {
	n := mk(kind, w.bytes("InterfaceTypeDefinition.Name", o.Name), w.desc("InterfaceTypeDefinition", o.Description), w.implements(o.ImplementsInterfaces))
	n.add(w.dirs(o.Directives)...)
	n.add(w.fieldDefs(o.FieldsDefinition.Refs)...)
	return n
}

func (w *walker) scalarDef(kind string, o ast.ScalarTypeDefinition) *sn {
	n := mk(kind, w.bytes("ScalarTypeDefinition.Name", o.Name), w.desc("ScalarTypeDefinition", o.Description))
	n.add(w.dirs(o.Directives)...)
	return n
}

func (w *walker) unionDef(kind string, o ast.UnionTypeDefinition) *sn {
	n := mk(kind, w.bytes("UnionTypeDefinition.Name", o.Name), w.desc("UnionTypeDefinition", o.Description))
	n.add(w.dirs(o.Directives)...)
	for _, r := range o.UnionMemberTypes.Refs {
		if !w.idx("UnionMemberTypes.Refs", r, len(w.d.Types)) {
			return n
		}
		n.add(mk("member", w.bytes("Type.Name", w.d.Types[r].Name)))
	}
	return n
}

func (w *walker) enumDef(kind string, o ast.EnumTypeDefinition) *sn {
	n := mk(kind, w.bytes("EnumTypeDefinition.Name", o.Name), w.desc("EnumTypeDefinition", o.Description))
	n.add(w.dirs(o.Directives)...)
	for _, r := range o.EnumValuesDefinition.Refs {
		if !w.idx("EnumValueDefinitionList.Refs", r, len(w.d.EnumValueDefinitions)) {
			return n
		}
		ev := w.d.EnumValueDefinitions[r]
		n.add(mk("enumval", w.bytes("EnumValueDefinition.EnumValue", ev.EnumValue), w.desc("EnumValueDefinition", ev.Description)).add(w.dirs(ev.Directives)...))
	}
	return n
}

func (w *walker) inputDef(kind string, o ast.InputObjectTypeDefinition) *sn {
	n := mk(kind, w.bytes("InputObjectTypeDefinition.Name", o.Name), w.desc("InputObjectTypeDefinition", o.Description))
	n.add(w.dirs(o.Directives)...)
	n.add(w.inputValues(o.InputFieldsDefinition.Refs)...)
	return n
}

func (w *walker) directiveDef(o ast.DirectiveDefinition) *sn {
	n := mk("directivedef", w.bytes("DirectiveDefinition.Name", o.Name), w.desc("DirectiveDefinition", o.Description))
	n.add(w.inputValues(o.ArgumentsDefinition.Refs)...)
	if o.Repeatable.IsRepeatable {
		n.add(mk("repeatable", ""))
	}
	var locs []string
	it := o.DirectiveLocations.Iterable()
	for it.Next() {
		name, known := locationNames[it.Value()]
		if !known {
			w.fail("directive definition has unknown location %d", it.Value())
			break
		}
		locs = append(locs, name)
	}
	sort.Strings(locs)
	for _, l := range locs {
		n.add(mk("loc", l))
	}
	return n
}

// locationNames is the harness' own table (the printer has its own switch).
var locationNames = map[ast.DirectiveLocation]string{
	ast.ExecutableDirectiveLocationQuery:                "QUERY",
	ast.ExecutableDirectiveLocationMutation:             "MUTATION",
	ast.ExecutableDirectiveLocationSubscription:         "SUBSCRIPTION",
	ast.ExecutableDirectiveLocationField:                "FIELD",
	ast.ExecutableDirectiveLocationFragmentDefinition:   "FRAGMENT_DEFINITION",
	ast.ExecutableDirectiveLocationFragmentSpread:       "FRAGMENT_SPREAD",
	ast.ExecutableDirectiveLocationInlineFragment:       "INLINE_FRAGMENT",
	ast.ExecutableDirectiveLocationVariableDefinition:   "VARIABLE_DEFINITION",
	ast.TypeSystemDirectiveLocationSchema:               "SCHEMA",
	ast.TypeSystemDirectiveLocationScalar:               "SCALAR",
	ast.TypeSystemDirectiveLocationObject:               "OBJECT",
	ast.TypeSystemDirectiveLocationFieldDefinition:      "FIELD_DEFINITION",
	ast.TypeSystemDirectiveLocationArgumentDefinition:   "ARGUMENT_DEFINITION",
	ast.TypeSystemDirectiveLocationInterface:            "INTERFACE",
	ast.TypeSystemDirectiveLocationUnion:                "UNION",
	ast.TypeSystemDirectiveLocationEnum:                 "ENUM",
	ast.TypeSystemDirectiveLocationEnumValue:            "ENUM_VALUE",
	ast.TypeSystemDirectiveLocationInputObject:          "INPUT_OBJECT",
	ast.TypeSystemDirectiveLocationInputFieldDefinition: "INPUT_FIELD_DEFINITION",
}

// walkDoc walks everything reachable from the root nodes.
func walkDoc(d *ast.Document) (w *walker, shape *sn) {
	w = &walker{d: d}
	defer func() {
		if p := recover(); p != nil {
			// the walk itself indexes only after checking; a panic here is a harness bug or an
			// inconsistency not covered by the checks above — report it as a bounds failure.
			w.fail("walk panicked: %v", p)
		}
	}()
	shape = mk("doc", "")
	for i, rn := range d.RootNodes {
		if !w.ok() {
			break
		}
		what := fmt.Sprintf("RootNodes[%d](%s).Ref", i, rn.Kind)
		switch rn.Kind {
		case ast.NodeKindOperationDefinition:
			if !w.idx(what, rn.Ref, len(d.OperationDefinitions)) {
				break
			}
			o := d.OperationDefinitions[rn.Ref]
			n := mk("op", opTypeName(o.OperationType), w.desc("OperationDefinition", o.Description))
			if name := w.bytes("OperationDefinition.Name", o.Name); name != "" {
				n.add(mk("name", name))
			}
			for _, vr := range o.VariableDefinitions.Refs {
				if !w.idx("VariableDefinitionList.Refs", vr, len(d.VariableDefinitions)) {
					break
				}
				vd := d.VariableDefinitions[vr]
				var name string
				if vd.VariableValue.Kind == ast.ValueKindVariable && w.idx("VariableDefinition.VariableValue.Ref", vd.VariableValue.Ref, len(d.VariableValues)) {
					name = w.bytes("VariableValue.Name", d.VariableValues[vd.VariableValue.Ref].Name)
				} else {
					w.fail("VariableDefinitions[%d].VariableValue is not a variable", vr)
				}
				vn := mk("vardef", name, w.desc("VariableDefinition", vd.Description), w.typ(vd.Type, 0))
				if vd.DefaultValue.IsDefined {
					vn.add(mk("default", "", w.value(vd.DefaultValue.Value, 0)))
				}
				vn.add(w.dirs(vd.Directives)...)
				n.add(vn)
			}
			n.add(w.dirs(o.Directives)...)
			depth := 0
			if o.HasSelections {
				var c *sn
				c, depth = w.selset(o.SelectionSet, 0)
				n.add(c)
			}
			w.depths = append(w.depths, depth)
			shape.add(n)
		case ast.NodeKindFragmentDefinition:
			if !w.idx(what, rn.Ref, len(d.FragmentDefinitions)) {
				break
			}
			f := d.FragmentDefinitions[rn.Ref]
			n := mk("fragment", w.bytes("FragmentDefinition.Name", f.Name), w.desc("FragmentDefinition", f.Description))
			n.add(mk("typecond", "", w.typ(f.TypeCondition.Type, 0)))
			n.add(w.dirs(f.Directives)...)
			depth := 0
			if f.HasSelections {
				var c *sn
				c, depth = w.selset(f.SelectionSet, 0)
				n.add(c)
			}
			w.depths = append(w.depths, depth)
			shape.add(n)
		case ast.NodeKindSchemaDefinition:
			if w.idx(what, rn.Ref, len(d.SchemaDefinitions)) {
				shape.add(w.schemaDef("schema", d.SchemaDefinitions[rn.Ref]))
			}
		case ast.NodeKindSchemaExtension:
			if w.idx(what, rn.Ref, len(d.SchemaExtensions)) {
				shape.add(w.schemaDef("extend-schema", d.SchemaExtensions[rn.Ref].SchemaDefinition))
			}
		case ast.NodeKindObjectTypeDefinition:
			if w.idx(what, rn.Ref, len(d.ObjectTypeDefinitions)) {
				shape.add(w.objectDef("type", d.ObjectTypeDefinitions[rn.Ref]))
			}
		case ast.NodeKindObjectTypeExtension:
			if w.idx(what, rn.Ref, len(d.ObjectTypeExtensions)) {
				shape.add(w.objectDef("extend-type", d.ObjectTypeExtensions[rn.Ref].ObjectTypeDefinition))
			}
		case ast.NodeKindInterfaceTypeDefinition:
			if w.idx(what, rn.Ref, len(d.InterfaceTypeDefinitions)) {
				shape.add(w.interfaceDef("interface", d.InterfaceTypeDefinitions[rn.Ref]))
			}
		case ast.NodeKindInterfaceTypeExtension:
			if w.idx(what, rn.Ref, len(d.InterfaceTypeExtensions)) {
				shape.add(w.interfaceDef("extend-interface", d.InterfaceTypeExtensions[rn.Ref].InterfaceTypeDefinition))
			}
		case ast.NodeKindScalarTypeDefinition:
			if w.idx(what, rn.Ref, len(d.ScalarTypeDefinitions)) {
				shape.add(w.scalarDef("scalar", d.ScalarTypeDefinitions[rn.Ref]))
			}
		case ast.NodeKindScalarTypeExtension:
			if w.idx(what, rn.Ref, len(d.ScalarTypeExtensions)) {
				shape.add(w.scalarDef("extend-scalar", d.ScalarTypeExtensions[rn.Ref].ScalarTypeDefinition))
			}
		case ast.NodeKindUnionTypeDefinition:
			if w.idx(what, rn.Ref, len(d.UnionTypeDefinitions)) {
				shape.add(w.unionDef("union", d.UnionTypeDefinitions[rn.Ref]))
			}
		case ast.NodeKindUnionTypeExtension:
			if w.idx(what, rn.Ref, len(d.UnionTypeExtensions)) {
				shape.add(w.unionDef("extend-union", d.UnionTypeExtensions[rn.Ref].UnionTypeDefinition))
			}
		case ast.NodeKindEnumTypeDefinition:
			if w.idx(what, rn.Ref, len(d.EnumTypeDefinitions)) {
				shape.add(w.enumDef("enum", d.EnumTypeDefinitions[rn.Ref]))
			}
		case ast.NodeKindEnumTypeExtension:
			if w.idx(what, rn.Ref, len(d.EnumTypeExtensions)) {
				shape.add(w.enumDef("extend-enum", d.EnumTypeExtensions[rn.Ref].EnumTypeDefinition))
			}
		case ast.NodeKindInputObjectTypeDefinition:
			if w.idx(what, rn.Ref, len(d.InputObjectTypeDefinitions)) {
				shape.add(w.inputDef("input", d.InputObjectTypeDefinitions[rn.Ref]))
			}
		case ast.NodeKindInputObjectTypeExtension:
			if w.idx(what, rn.Ref, len(d.InputObjectTypeExtensions)) {
				shape.add(w.inputDef("extend-input", d.InputObjectTypeExtensions[rn.Ref].InputObjectTypeDefinition))
			}
		case ast.NodeKindDirectiveDefinition:
			if w.idx(what, rn.Ref, len(d.DirectiveDefinitions)) {
				shape.add(w.directiveDef(d.DirectiveDefinitions[rn.Ref]))
			}
		default:
			w.fail("RootNodes[%d] has unexpected kind %s", i, rn.Kind)
		}
	}
	for _, dp := range w.depths {
		if dp > w.maxDepth {
			w.maxDepth = dp
		}
	}
	return w, shape
}
